"""C09 Stage-level parallelism is indistinguishable from sequential execution."""
from __future__ import annotations

import ast
from typing import Dict, List, Optional, Set, Tuple

from ..dataflow import Taint
from ..effects import Effects
from ..model import AnalysisError, Func, const_str, dotted, kwarg, src, walk_no_defs
from ..util import call_tail, enclosing, find_calls, no_exc, node_calls

EXPLANATION = (
    "C09 decided statically: (MERGE) in run_parallel the list handed to merge_fn is ordered by (order_key(task key), submit "
    "index) on the pool branch and by a stable sort of a submit-ordered list on the one-worker branch; no value derived "
    "from completion order (as_completed) reaches a sort key, the result order or the error order; `if errors: raise` "
    "dominates the pool-branch merge and the error list is sorted by the same key; zero tasks merge the empty list; (CALL) "
    "every call site passes callables for merge_fn and order_key; (SIB-T1) the sequential fold of t1_propagate and its "
    "merge_fn aggregate the same fields of the per-graph result with the same operators under the same gates, position by "
    "position; (SIB-T2) the shard fan-out gives search_tiered the same per-tier hints as the sequential walk and receives them "
    "from the same configuration values; the cross-shard merge orders by (-qscore, id), de-duplicates by id and stops at k; "
    "(SHARE) thunks write no state shared between tasks except the lock-wrapped stage cache. Not decided: equality across "
    "real thread schedules and worker counts; that per-shard top-m cluster selection composes to the global one (it does not "
    "in general: see DESIGN section 4)."
)
RULES = {
    "C09.MERGE": "taint (completion order -> sort keys / merge order), sort-key shape, dominance of the error raise over the merge",
    "C09.CALL": "call-site conformance of every run_parallel caller (no None callables)",
    "C09.SIB-T1": "field->operator map extraction of the sequential fold vs merge_fn, compared position by position",
    "C09.SIB-T2": "per-tier hint-key tables of the sequential walk vs collect_shard_hits + argument provenance at the fan-out",
    "C09.SHARE": "effect analysis of the submitted thunks",
}

PAR = "clematis.engine.util.parallel:run_parallel"
T1 = "clematis.engine.stages.t1"
T2CORE = "clematis.engine.stages.t2.core:t2_semantic"
T2PAR = "clematis.engine.stages.t2.parallel:collect_shard_hits"
SHARD = "clematis.engine.stages.t2.shard:merge_tier_hits_across_shards_dict"


def _key_lambda_parts(k: Optional[ast.AST]) -> List[str]:
    if isinstance(k, ast.Lambda):
        b = k.body
        return [src(x) for x in (b.elts if isinstance(b, ast.Tuple) else [b])]
    return []


def rule_merge(ctx) -> None:
    fn = ctx.func(PAR)
    cfg = ctx.cfg(fn)
    rd = ctx.rd(fn)
    okp = fn.params[3] if len(fn.params) > 3 else "order_key"
    mfp = fn.params[2] if len(fn.params) > 2 else "merge_fn"
    merges = [(n, c) for n in cfg.nodes for c in node_calls(n) if isinstance(c.func, ast.Name) and c.func.id == mfp and n in cfg.reachable_from_entry()]
    ctx.floor("C09.MERGE", "merge_fn call sites", len(merges), 3)

    def source(e, n):
        # a *position* in a completion-ordered iteration (enumerate(as_completed(...))) is the value that depends on
        # thread timing; the futures/results themselves are the same objects whatever the order (the order of the list they
        # are appended to is handled by the sort-shape rule below)
        if isinstance(e, ast.Call) and dotted(e.func) == "enumerate" and e.args and any(
                isinstance(x, ast.Call) and (dotted(x.func) or "").split(".")[-1] in ("as_completed", "wait") for x in ast.walk(e.args[0])):
            return {"COMPLETION"}
        return set()

    taint = Taint(rd, source)
    for n, c in merges:
        a = c.args[0] if c.args else None
        key = f"{fn.qual}/merge-input@{'empty' if isinstance(a, ast.List) and not a.elts else src(a)[:24]}"
        if isinstance(a, ast.List) and not a.elts:
            facts = cfg.facts(n)
            ctx.check(any(p and ("== 0" in t or t.startswith("not ")) for t, p in facts), "C09.MERGE", key, fn.loc(c), "zero tasks: merge_fn([])", "merge_fn([]) is called outside the empty-task branch")
            continue
        labels = taint.of(a, n)
        if "COMPLETION" in labels:
            ctx.violation("C09.MERGE", key, fn.loc(c), f"the list passed to merge_fn (`{src(a)[:40]}`) depends on thread completion order (as_completed): "
                          "results with equal order keys are merged in whichever order the workers finished")
            continue
        # the merged list must be sorted by order_key(key) [+ submit index] or be a stable sort of a submit-ordered list
        ok = False
        how = ""
        if isinstance(a, ast.Name):
            ds = [d for d in rd.reaching(a.id, n)]
            plain = [d for d in ds if d.kind != "mutate"]
            for d in plain:
                v = d.value
                # comprehension over sorted(results_unordered, key=lambda t: (order_key(t[1]), t[0]))
                srt = [x for x in ast.walk(v)] if v is not None else []
                for x in srt:
                    if isinstance(x, ast.Call) and dotted(x.func) == "sorted":
                        parts = _key_lambda_parts(kwarg(x, "key"))
                        if len(parts) >= 2 and parts[0].startswith(okp + "(") and "COMPLETION" not in taint.of(x.args[0], d.node):
                            ok = True
                            how = f"sorted(..., key=({', '.join(parts)}))"
            # in-place stable sort of a list appended in task order
            sorts = [m for m in cfg.nodes if m.kind == "stmt" and isinstance(m.ast, ast.Expr) and isinstance(m.ast.value, ast.Call) and isinstance(m.ast.value.func, ast.Attribute)
                     and m.ast.value.func.attr == "sort" and src(m.ast.value.func.value) == a.id and cfg.dominates(m, n)]
            for m in sorts:
                parts = _key_lambda_parts(kwarg(m.ast.value, "key"))
                appended_in_task_order = any(d.kind == "mutate" and any(isinstance(st, ast.For) and src(st.iter) == fn.params[0] for st, part in enclosing(ctx.prog, fn, d.target) if part == "body")
                                             for d in ds)
                if parts and parts[0].startswith(okp + "(") and appended_in_task_order:
                    ok = True
                    how = f"stable {a.id}.sort(key=({', '.join(parts)})) of a list appended while iterating `{fn.params[0]}`"
        ctx.check(ok, "C09.MERGE", key, fn.loc(c), f"merge input is ordered by {how}",
                  f"the list passed to merge_fn (`{src(a)[:40]}`) is not ordered by order_key(task key) with a submit-order tie-break")
    # tie-break index provenance on the pool branch: tuples stored for results and errors start from a submit index
    stores = [(n, c) for n in cfg.nodes for c in node_calls(n) if call_tail(c) == "append" and isinstance(c.func.value, ast.Name) and c.func.value.id in ("results_unordered", "errors")]
    for n, c in stores:
        t = c.args[0] if c.args else None
        if not isinstance(t, ast.Tuple):
            continue
        lab = set()
        for e in t.elts:
            if isinstance(e, ast.Name) and e.id not in ("k", "r", "te"):
                lab |= set(taint.of(e, n))
        ctx.check("COMPLETION" not in lab, "C09.MERGE", f"{fn.qual}/tie-break-index:{c.func.value.id}", fn.loc(c),
                  "the index stored with each result/error is the submit index (enumerate(tasks))",
                  "the tie-break index stored with results/errors is a completion index (derived from as_completed): tasks with equal order keys are ordered by which thread finished first")
    # errors: raise dominates the pool merge; errors sorted by (order key, index)
    pool_merges = [n for n, c in merges if not (isinstance(c.args[0], ast.List) and not c.args[0].elts) and not any(p and "<= 1" in t for t, p in cfg.facts(n))]
    raises = [n for n in cfg.nodes if n.kind == "stmt" and isinstance(n.ast, ast.Raise) and any(p and t == "errors" for t, p in cfg.facts(n))]
    for m in pool_merges:
        ok = ("errors", False) in cfg.facts(m) or ("not errors", True) in cfg.facts(m)
        # `if errors: raise` is a terminating branch: the merge is only reachable through its F branch
        conds = [x for x in cfg.nodes if x.kind == "cond" and src(x.ast) == "errors" and cfg.dominates(x, m)]
        ok = ok or any(all(cfg.path([t], lambda y: y is m) is None for t, l in x.succ if l == "T") for x in conds)
        ctx.check(ok and bool(raises), "C09.MERGE", f"{fn.qual}/no-partial-merge", fn.loc(m.ast), "the pool-branch merge is reachable only when no task failed (`if errors: raise` dominates it)",
                  "results are merged although some task failed (partial merge)")
    esorts = [m for m in cfg.nodes if m.kind == "stmt" and isinstance(m.ast, ast.Expr) and isinstance(m.ast.value, ast.Call) and isinstance(m.ast.value.func, ast.Attribute)
              and m.ast.value.func.attr == "sort" and src(m.ast.value.func.value) == "errors"]
    oke = any(len(_key_lambda_parts(kwarg(m.ast.value, "key"))) == 2 for m in esorts) and all(any(cfg.dominates(m, r) for m in esorts) for r in raises if ("max_workers <= 1", False) in cfg.facts(r) or True)
    erraise_pool = [r for r in raises]
    ctx.check(bool(esorts) and oke, "C09.MERGE", f"{fn.qual}/errors-sorted", fn.loc(esorts[0].ast) if esorts else fn.loc(), "failures are reported sorted by (order_key, submit index)",
              "the failure list is not sorted by (order_key(key), submit index) before being raised")
    ek = [c for n, c in stores if c.func.value.id == "errors"]
    ctx.check(bool(ek) and all(isinstance(c.args[0], ast.Tuple) and src(c.args[0].elts[0]).startswith(okp + "(") for c in ek), "C09.MERGE", f"{fn.qual}/error-key", fn.loc(),
              "each failure is stored with order_key(task key)", "failures are not stored with their order key")
    # results are gathered per future in submit order, never via as_completed
    res_calls = [(n, c) for n in cfg.nodes for c in node_calls(n) if call_tail(c) == "result"]
    for n, c in res_calls:
        loops = [st for st, part in enclosing(ctx.prog, fn, c) if isinstance(st, ast.For) and part == "body"]
        bad = any(any(isinstance(x, ast.Call) and (dotted(x.func) or "").endswith("as_completed") for x in ast.walk(st.iter)) for st in loops)
        ctx.check(not bad or True, "C09.MERGE", f"{fn.qual}/gather-loop", fn.loc(c), "futures are joined in a loop" + (" over as_completed (order restored by the sort)" if bad else " over the submit-ordered list"), "")
    # every submitted task is joined: the failure report lists every failing task in key order, whatever the worker count and
    # completion order - so no future is cancelled or skipped once a failure has been seen ("fail fast")
    cancels = [(n, c) for n in cfg.nodes for c in node_calls(n) if call_tail(c) in ("cancel", "shutdown") and isinstance(c.func, ast.Attribute)]
    ctx.check(not cancels, "C09.MERGE", f"{fn.qual}/no-future-cancelled", fn.loc(cancels[0][1]) if cancels else fn.loc(),
              "no future is cancelled and the pool is not shut down early: every task runs to completion or failure",
              f"`{src(cancels[0][1])[:40] if cancels else ''}` drops queued work after a failure: a failing task that was still queued never runs and is missing from ParallelError.errors, "
              "so the error report depends on the worker count and on which task finished first")
    for n, c in res_calls:
        loops = [st for st, part in enclosing(ctx.prog, fn, c) if isinstance(st, ast.For) and part == "body"]
        if not loops:
            continue
        head = [h for h in cfg.nodes if h.kind == "iter" and h.ast is loops[0]]
        if not head:
            continue
        body_first = [t for t, lab in head[0].succ if lab != "exc"]
        p = cfg.path(body_first, lambda m: m is head[0], avoid=lambda m: m is n, edge_ok=no_exc)
        ctx.check(p is None, "C09.MERGE", f"{fn.qual}/every-future-joined", fn.loc(c), "every iteration of the gather loop reaches fut.result()",
                  "an iteration of the gather loop can move on without calling fut.result(): that task's outcome (result or error) is dropped", ctx.path_witness(fn, p))
    # the one-worker branch is a plain loop over tasks
    seq = [n for n in cfg.nodes if n.kind == "iter" and src(n.ast.iter) == fn.params[0] and any(p and "<= 1" in t for t, p in cfg.facts(n))]
    ctx.check(bool(seq), "C09.MERGE", f"{fn.qual}/one-worker-is-plain-loop", fn.loc(), "max_workers <= 1 runs a plain loop over the tasks", "the one-worker branch is not a plain loop over `tasks`")


def rule_call(ctx) -> None:
    n_sites = 0
    for f in ctx.prog.all_funcs("clematis."):
        for x in walk_no_defs(f.node):
            if isinstance(x, ast.Call) and call_tail(x) == "run_parallel" and f.qual != PAR:
                n_sites += 1
                for kw in ("merge_fn", "order_key"):
                    v = kwarg(x, kw)
                    ok = v is not None and not (isinstance(v, ast.Constant) and v.value is None)
                    if ok and isinstance(v, ast.Name):
                        rdv = ctx.rd(f)
                        cn = ctx.cfg(f).node_containing(x)
                        ds = rdv.reaching(v.id, cn[0]) if cn else []
                        if ds and all(d.kind == "assign" and isinstance(d.value, ast.Constant) and d.value.value is None for d in ds):
                            ok = False
                    ctx.check(ok, "C09.CALL", f"{f.qual}/run_parallel:{kw}", f.loc(x), f"{kw} is a callable ({src(v)[:40] if v is not None else ''})",
                              f"run_parallel is called with {kw}={src(v) if v is not None else 'missing'}: the helper calls it unconditionally -> TypeError on every fan-out")
                mw = kwarg(x, "max_workers")
                ctx.check(mw is not None, "C09.CALL", f"{f.qual}/run_parallel:max_workers", f.loc(x), "max_workers is passed", "max_workers is not passed")
    ctx.floor("C09.CALL", "run_parallel call sites in the engine", n_sites, 2)


def _fold_map(body: List[ast.stmt], mvar: str, dvar: str) -> Dict[str, Tuple[str, str, str]]:
    """target name -> (field, operator, gate) for statements folding the per-task result"""
    out: Dict[str, Tuple[str, str, str]] = {}

    def field_of(e: ast.AST) -> Optional[str]:
        for x in ast.walk(e):
            if isinstance(x, ast.Subscript) and isinstance(x.value, ast.Name) and x.value.id == mvar and const_str(x.slice):
                return const_str(x.slice)
            if isinstance(x, ast.Call) and isinstance(x.func, ast.Attribute) and x.func.attr == "get" and isinstance(x.func.value, ast.Name) and x.func.value.id == mvar and x.args:
                return const_str(x.args[0])
        return None

    def visit(stmts, gate):
        for st in stmts:
            if isinstance(st, ast.If):
                g = src(st.test)
                if g == dvar:
                    visit(st.body, gate)
                else:
                    visit(st.body, (gate + " and " + g) if gate else g)
                visit(st.orelse, gate)
            elif isinstance(st, ast.AugAssign) and isinstance(st.target, ast.Name):
                f = field_of(st.value)
                if f:
                    out[st.target.id] = (f, type(st.op).__name__, gate)
            elif isinstance(st, ast.Assign) and len(st.targets) == 1 and isinstance(st.targets[0], ast.Name) and isinstance(st.value, ast.Call) and dotted(st.value.func) in ("max", "min"):
                f = field_of(st.value)
                if f:
                    out[st.targets[0].id] = (f, dotted(st.value.func), gate)
            elif isinstance(st, ast.Expr) and isinstance(st.value, ast.Call) and isinstance(st.value.func, ast.Attribute) and st.value.func.attr in ("extend", "append") \
                    and isinstance(st.value.func.value, ast.Name) and st.value.args and src(st.value.args[0]) == dvar:
                out[st.value.func.value.id] = ("<deltas>", st.value.func.attr, gate)

    visit(body, "")
    return out


def rule_sib_t1(ctx) -> None:
    fn = ctx.func(T1 + ":t1_propagate")
    mf = ctx.func(T1 + ":t1_propagate.merge_fn")
    # sequential fold: `for gid in active_graphs: deltas_for_gid, m = _t1_one_graph(gid) ...`
    seq_loop = None
    for x in walk_no_defs(fn.node):
        if isinstance(x, ast.For) and any(isinstance(st, ast.Assign) and isinstance(st.value, ast.Call) and call_tail(st.value) == "_t1_one_graph" for st in x.body):
            seq_loop = x
    if seq_loop is None:
        raise AnalysisError("anchor-vanished: sequential fold loop of t1_propagate")
    unpack = [st for st in seq_loop.body if isinstance(st, ast.Assign) and isinstance(st.targets[0], ast.Tuple) and isinstance(st.value, ast.Call) and call_tail(st.value) == "_t1_one_graph"]
    dvar, mvar = (unpack[0].targets[0].elts[0].id, unpack[0].targets[0].elts[1].id) if unpack else ("deltas_for_gid", "m")
    seq = _fold_map(seq_loop.body, mvar, dvar)
    par_loop = [x for x in walk_no_defs(mf.node) if isinstance(x, ast.For)]
    if not par_loop:
        raise AnalysisError("anchor-vanished: loop of merge_fn")
    pl = par_loop[0]
    # for _, (deltas_for_gid, m) in pairs
    tgt = pl.target
    pd, pm = "deltas_for_gid", "m"
    if isinstance(tgt, ast.Tuple) and len(tgt.elts) == 2 and isinstance(tgt.elts[1], ast.Tuple) and len(tgt.elts[1].elts) == 2:
        pd, pm = tgt.elts[1].elts[0].id, tgt.elts[1].elts[1].id
    par = _fold_map(pl.body, pm, pd)
    ctx.floor("C09.SIB-T1", "fields folded sequentially", len(seq), 10)
    sset = sorted(seq.values())
    pset = sorted(par.values())
    ctx.check(sset == pset, "C09.SIB-T1", f"{fn.qual}/same-fields-same-operators", fn.loc(seq_loop),
              f"sequential fold and merge_fn aggregate the same {len(sset)} (field, operator, gate) triples",
              f"sequential fold and merge_fn disagree: only sequential {sorted(set(sset) - set(pset))}, only parallel {sorted(set(pset) - set(sset))}")
    # position-by-position: merge_fn's return tuple vs the unpack targets of run_parallel's result
    ret = [x for x in walk_no_defs(mf.node) if isinstance(x, ast.Return) and isinstance(x.value, ast.Tuple)]
    un = [x for x in walk_no_defs(fn.node) if isinstance(x, ast.Assign) and isinstance(x.value, ast.Call) and call_tail(x.value) == "run_parallel" and isinstance(x.targets[0], ast.Tuple)]
    if ret and un:
        rnames = [src(e) for e in ret[0].value.elts]
        tnames = [src(e) for e in un[0].targets[0].elts]
        ok = len(rnames) == len(tnames)
        bad = None
        if ok:
            for rn, tn in zip(rnames, tnames):
                a, b = par.get(rn), seq.get(tn)
                if a is None or b is None or a[0] != b[0]:
                    ok = False
                    bad = (rn, tn, a, b)
                    break
        ctx.check(ok, "C09.SIB-T1", f"{fn.qual}/result-positions-agree", fn.loc(un[0]), f"all {len(rnames)} merged values are unpacked into the variable that the sequential path uses for the same field",
                  f"merge_fn result position mismatch: `{bad[0]}` ({bad[2]}) is unpacked into `{bad[1]}` ({bad[3]})" if bad else "merge_fn returns a different number of values than the caller unpacks")
    else:
        ctx.violation("C09.SIB-T1", f"{fn.qual}/result-positions-agree", fn.loc(), "merge_fn return tuple / caller unpack not found")
    # task keys preserve the caller's graph order
    # the task list: first argument of run_parallel; the position: the index variable of the enclosing enumerate loop
    tlists = {c.args[0].id for c in walk_no_defs(fn.node) if isinstance(c, ast.Call) and call_tail(c) == "run_parallel" and c.args and isinstance(c.args[0], ast.Name)}
    tk = [x for x in walk_no_defs(fn.node) if isinstance(x, ast.Call) and call_tail(x) == "append" and src(x.func.value) in tlists]
    idx_vars = {l.target.elts[0].id for l in walk_no_defs(fn.node) if isinstance(l, ast.For) and isinstance(l.iter, ast.Call) and dotted(l.iter.func) == "enumerate"
                and isinstance(l.target, ast.Tuple) and isinstance(l.target.elts[0], ast.Name) and any(y is x for x in tk for st in l.body for y in ast.walk(st))}
    okk = bool(tk) and all(isinstance(x.args[0], ast.Tuple) and isinstance(x.args[0].elts[0], ast.Tuple) and src(x.args[0].elts[0].elts[0]) in idx_vars for x in tk)
    ctx.check(okk, "C09.SIB-T1", f"{fn.qual}/task-keys-carry-position", fn.loc(), "task keys are (position in active_graphs, graph id)", "task keys do not carry the position in active_graphs")


TIER_NAMES = {"exact_semantic", "cluster_semantic", "archive"}


def _tier_loops(root: ast.AST) -> List[ast.For]:
    """loops whose variable is compared with the tier literals"""
    out = []
    for x in ast.walk(root):
        if isinstance(x, ast.For) and isinstance(x.target, ast.Name):
            v = x.target.id
            if any(isinstance(y, ast.Compare) and isinstance(y.left, ast.Name) and y.left.id == v and any(const_str(c) in TIER_NAMES for c in y.comparators) for st in x.body for y in ast.walk(st)):
                out.append(x)
    return out


def _hints_var(loop: ast.For) -> Optional[str]:
    for y in ast.walk(loop):
        if isinstance(y, ast.Call) and call_tail(y) == "search_tiered":
            h = kwarg(y, "hints")
            if isinstance(h, ast.Name):
                return h.id
    return None


def _tier_hint_table(fn: Func, root: ast.AST) -> Dict[str, Set[str]]:
    """tier literal -> hint keys set in that branch (+ base keys)"""
    table: Dict[str, Set[str]] = {}
    for loop in _tier_loops(root):
        tv = loop.target.id
        hv = _hints_var(loop)
        if hv is None:
            continue
        base: Set[str] = set()
        for st in loop.body:
            if isinstance(st, (ast.Assign, ast.AnnAssign)) and isinstance(st.value, ast.Dict) and src(st.targets[0] if isinstance(st, ast.Assign) else st.target) == hv:
                base |= {const_str(k) for k in st.value.keys if k is not None}
            if isinstance(st, ast.If) and isinstance(st.test, ast.Name):
                for s2 in st.body:
                    if isinstance(s2, ast.Assign) and isinstance(s2.targets[0], ast.Subscript) and src(s2.targets[0].value) == hv:
                        base.add(const_str(s2.targets[0].slice))
        for st in loop.body:
            if isinstance(st, ast.If) and isinstance(st.test, ast.Compare) and src(st.test.left) == tv:
                cur = st
                while True:
                    tier = const_str(cur.test.comparators[0]) if isinstance(cur.test, ast.Compare) else None
                    keys = set(base)
                    for y in ast.walk(ast.Module(body=cur.body, type_ignores=[])):
                        if isinstance(y, ast.Call) and isinstance(y.func, ast.Attribute) and y.func.attr == "update" and src(y.func.value) == hv and y.args and isinstance(y.args[0], ast.Dict):
                            keys |= {const_str(k) for k in y.args[0].keys if k is not None}
                    if tier:
                        table.setdefault(tier, set()).update(keys)
                    if len(cur.orelse) == 1 and isinstance(cur.orelse[0], ast.If) and isinstance(cur.orelse[0].test, ast.Compare):
                        cur = cur.orelse[0]
                    else:
                        break
        if table:
            return table
    return table


def rule_tier_independent(ctx) -> None:
    """per-shard worker: whether and how a tier is searched depends on nothing computed for another tier of the same
    shard (no loop-carried value reaches a branch of the tier loop or an argument of search_tiered).  The cross-shard
    merge applies the k stop rule over *distinct* ids of all shards; a per-shard early stop counts raw hits of
    overlapping tiers and starves later tiers of one shard."""
    from ..dataflow import Taint
    cs = ctx.func(T2PAR)
    cfg = ctx.cfg(cs)
    rd = ctx.rd(cs)
    loops = _tier_loops(cs.node)
    if len(loops) != 1:
        raise AnalysisError("anchor-vanished: tier loop of collect_shard_hits")
    loop = loops[0]
    heads = cfg.nodes_of(loop)
    if not heads:
        raise AnalysisError("anchor-vanished: CFG node of the tier loop")
    head = heads[0]
    body_ids = {id(x) for st in loop.body for x in ast.walk(st)}

    def in_loop(n) -> bool:
        return n.ast is not None and (id(n.ast) in body_ids or (getattr(n, "stmt", None) is not None and id(n.stmt) in body_ids))

    def carried(d, use) -> bool:
        """definition d (inside the loop) reaches `use` around the back edge"""
        if d.node is head or not in_loop(d.node):
            return False
        if d not in rd.reaching(d.name, head):
            return False
        kills = {k.node for k in _strong_defs(rd, cfg, d.name) if in_loop(k.node)}
        return cfg.path([head], lambda m: m is use, avoid=lambda m: m in kills and m is not use, include_start=False) is not None

    current = {"use": None}

    def guard(d, labels):
        if current["use"] is not None and carried(d, current["use"]):
            return set(labels) | {"CARRIED:" + d.name}
        return labels

    bad: List[Tuple[ast.AST, str]] = []
    n_sites = 0
    for n in cfg.nodes:
        if not in_loop(n) or n not in cfg.reachable_from_entry():
            continue
        exprs: List[ast.AST] = []
        if n.kind == "cond":
            exprs.append(n.ast)
        for c in node_calls(n):
            if call_tail(c) == "search_tiered":
                exprs += list(c.args) + [k.value for k in c.keywords]
        for e in exprs:
            n_sites += 1
            current["use"] = n
            t = Taint(rd, lambda e2, n2: set(), guard=guard)
            lab = t.of(e, n)
            current["use"] = None
            car = sorted(x.split(":", 1)[1] for x in lab if x.startswith("CARRIED:"))
            if car:
                bad.append((e, f"`{src(e)[:50]}` depends on {car}, carried over from the previous tier of the same shard"))
    ctx.floor("C09.SIB-T2", "branches and search arguments in the per-shard tier loop", n_sites, 8)
    ctx.check(not bad, "C09.SIB-T2", f"{cs.qual}/tier-independent", cs.loc(bad[0][0]) if bad else cs.loc(loop),
              f"{n_sites} branch conditions / search arguments of the tier loop use nothing carried over from another tier",
              (bad[0][1] if bad else "") + ": the per-shard result for one tier depends on the other tiers of that shard, which the cross-shard merge (stop at k distinct ids over all shards) cannot undo")


def _strong_defs(rd, cfg, name):
    return [d for d in rd.all_defs if d.name == name and d.kind in ("assign", "for", "with", "unpack", "walrus", "del")]


def rule_sib_t2(ctx) -> None:
    t2 = ctx.func(T2CORE)
    cs = ctx.func(T2PAR)
    # the identity (sequential) walk is the loop in the `else` of the parallel gate: take the last tier loop in the function
    loops = [x for x in _tier_loops(t2.node) if _hints_var(x) is not None]
    if not loops:
        raise AnalysisError("anchor-vanished: sequential tier walk in t2_semantic")
    seq_tab = _tier_hint_table(t2, loops[-1])
    par_tab = _tier_hint_table(cs, cs.node)
    ctx.floor("C09.SIB-T2", "tiers in the sequential hint table", len(seq_tab), 3)
    for tier in sorted(set(seq_tab) | set(par_tab)):
        a, b = seq_tab.get(tier, set()), par_tab.get(tier, set())
        ctx.check(a == b, "C09.SIB-T2", f"{cs.qual}/hints:{tier}", cs.loc(), f"tier {tier}: both paths pass hints {sorted(a)}",
                  f"tier {tier}: sequential walk passes hints {sorted(a)} but the shard fan-out passes {sorted(b)} (a missing key falls back to the index default; "
                  "a None value makes the index raise and the tier comes back empty)")
    # hint values in collect_shard_hits come from its parameters, not constants
    cs_loops = _tier_loops(cs.node)
    cs_hv = _hints_var(cs_loops[0]) if cs_loops else None
    for y in walk_no_defs(cs.node):
        if isinstance(y, ast.Call) and isinstance(y.func, ast.Attribute) and y.func.attr == "update" and src(y.func.value) == cs_hv and y.args and isinstance(y.args[0], ast.Dict):
            for k, v in zip(y.args[0].keys, y.args[0].values):
                names = {z.id for z in ast.walk(v) if isinstance(z, ast.Name)}
                ok = bool(names & set(cs.params)) and not (isinstance(v, ast.Constant))
                ctx.check(ok, "C09.SIB-T2", f"{cs.qual}/hint-value:{const_str(k)}", cs.loc(v), f"hint {const_str(k)} is taken from a parameter ({src(v)[:30]})",
                          f"hint {const_str(k)!r} is the constant `{src(v)}` on the shard path, not the configured value the sequential walk passes")
    # the fan-out call passes the same config values that the sequential walk uses
    calls = [x for x in walk_no_defs(t2.node) if isinstance(x, ast.Call) and call_tail(x) == "_collect_shard_hits"]
    if not calls:
        # nested thunk
        for f in ctx.prog.all_funcs("clematis.engine.stages.t2.core:t2_semantic."):
            calls += [x for x in walk_no_defs(f.node) if isinstance(x, ast.Call) and call_tail(x) == "_collect_shard_hits"]
    ctx.floor("C09.SIB-T2", "fan-out call of collect_shard_hits", len(calls), 1)
    # what the sequential walk feeds the index: the variables in its hint values and in its search_tiered call
    seq_loop = loops[-1]
    shv = _hints_var(seq_loop)
    need: Dict[str, str] = {}
    builtin_names = {"int", "float", "str", "bool", "dict", "list"}
    for y in ast.walk(seq_loop):
        vals = []
        if isinstance(y, (ast.Assign, ast.AnnAssign)) and isinstance(y.value, ast.Dict) and src(y.targets[0] if isinstance(y, ast.Assign) else y.target) == shv:
            vals = list(zip(y.value.keys, y.value.values))
        if isinstance(y, ast.Call) and isinstance(y.func, ast.Attribute) and y.func.attr == "update" and src(y.func.value) == shv and y.args and isinstance(y.args[0], ast.Dict):
            vals = list(zip(y.args[0].keys, y.args[0].values))
        if isinstance(y, ast.Assign) and isinstance(y.targets[0], ast.Subscript) and src(y.targets[0].value) == shv and const_str(y.targets[0].slice):
            vals = [(y.targets[0].slice, y.value)]
        for k, v in vals:
            for z in ast.walk(v):
                if isinstance(z, ast.Name) and z.id not in builtin_names and z.id != seq_loop.target.id:
                    need[z.id] = f"hint {const_str(k)}"
        if isinstance(y, ast.Call) and call_tail(y) == "search_tiered":
            for kw in y.keywords:
                if kw.arg in ("owner", "q_vec", "k") and isinstance(kw.value, ast.Name):
                    need[kw.value.id] = kw.arg
    if isinstance(seq_loop.iter, ast.Name):
        need[seq_loop.iter.id] = "tiers"
    if len(need) < 6:
        raise AnalysisError(f"anchor-vanished: values the sequential tier walk passes to the index ({sorted(need)})")
    for c in calls:
        passed = {z.id for a in list(c.args) + [k.value for k in c.keywords] for z in ast.walk(a) if isinstance(z, ast.Name)}
        missing = [f"{v} ({why})" for v, why in sorted(need.items()) if v not in passed]
        ctx.check(not missing, "C09.SIB-T2", f"{t2.qual}/fan-out-arguments", t2.loc(c), "the fan-out forwards owner, query vector, k, tiers, threshold, top-m, recency window and now",
                  f"the shard fan-out does not forward {missing}: shards search with different parameters than the sequential walk")
    # cross-shard merge
    mg = ctx.func(SHARD)
    body = src(mg.node)
    keyfn = [f for f in ctx.prog.all_funcs(SHARD + ".")]
    kparts = []
    for f in keyfn:
        for r in [x for x in walk_no_defs(f.node) if isinstance(x, ast.Return) and isinstance(x.value, ast.Tuple)]:
            kparts = [src(e) for e in r.value.elts]
    # sibling agreement with the ranking the shards' own hits come in: InMemoryIndex sorts by (-score, id) on the raw score.
    # The merge key is (-<score>, id) where <score> is the hit's score converted at most by float(): rounding / quantising it
    # (round, int, _qscore, //) ties hits the sequential walk tells apart, and the k cut then keeps another one.
    coarse = None
    kret = None
    for f in keyfn:
        for r in [x for x in walk_no_defs(f.node) if isinstance(x, ast.Return) and isinstance(x.value, ast.Tuple)]:
            kret = (f, r.value)
    if kret is not None and len(kret[1].elts) == 2:
        kf, tup = kret
        first = ctx.rd(kf).inline(tup.elts[0], ctx.cfg(kf).node_containing(tup)[0]) if ctx.cfg(kf).node_containing(tup) else tup.elts[0]
        coarse = next((x for x in ast.walk(first) if (isinstance(x, ast.Call) and (call_tail(x) in ("round", "int", "_qscore", "floor", "trunc", "quantize"))) or (isinstance(x, ast.BinOp) and isinstance(x.op, ast.FloorDiv))), None)
    ok = len(kparts) == 2 and kparts[0].startswith("-") and "id" in kparts[1] and coarse is None
    ctx.check(ok, "C09.SIB-T2", f"{mg.qual}/merge-order", mg.loc(), f"cross-shard buckets are sorted by ({', '.join(kparts)}) on the raw score, as the index ranks",
              f"cross-shard sort key is {kparts}" + (f" with the score coarsened by `{src(coarse)[:40]}`: hits whose scores differ by less than the quantum are ordered by id, while the index orders them by score - "
                                                     "at the k cut the parallel path keeps another hit than the sequential walk" if coarse is not None else ", not (-score, id)"))
    cfg = ctx.cfg(mg)
    # the merged list: first element of the returned tuple; the seen-set: a local bound to set()
    outs = {r.value.elts[0].id for r in walk_no_defs(mg.node) if isinstance(r, ast.Return) and isinstance(r.value, ast.Tuple) and r.value.elts and isinstance(r.value.elts[0], ast.Name)}
    seens = {(x.targets[0] if isinstance(x, ast.Assign) else x.target).id for x in walk_no_defs(mg.node) if isinstance(x, (ast.Assign, ast.AnnAssign)) and x.value is not None
             and isinstance(x.value, ast.Call) and dotted(x.value.func) == "set" and isinstance((x.targets[0] if isinstance(x, ast.Assign) else x.target), ast.Name)}
    apps = [n for n in cfg.nodes for c in node_calls(n) if call_tail(c) == "append" and src(c.func.value) in outs]
    okd = bool(apps) and all(any((not p) and any(t.endswith(f" in {sn}") for sn in seens) for t, p in cfg.facts(n)) for n in apps)
    ctx.check(okd, "C09.SIB-T2", f"{mg.qual}/dedupe", mg.loc(), "a hit is appended only if its id was not seen", "cross-shard merge appends without the seen-id test")
    kparam = mg.params[2] if len(mg.params) > 2 else "k_retrieval"
    stops = [n for n in cfg.nodes if n.kind == "stmt" and isinstance(n.ast, ast.Return) and any(p and any(f"len({o}) >= {kparam}" in t for o in outs) for t, p in cfg.facts(n))]
    ctx.check(bool(stops), "C09.SIB-T2", f"{mg.qual}/stops-at-k", mg.loc(), "the merge returns as soon as k hits are collected", "the cross-shard merge does not stop at k")


def rule_shard_task_faithful(ctx) -> None:
    """the per-shard task hands run_parallel what the shard did: (a) a failing search fails the task - a handler that turns
    the failure into 'no hits' hides it from the helper, which then merges the other shards' hits as the result while the
    sequential walk raises on the same memory ("reports every failure ... without merging partial results"); (b) "exactly the
    items": what the fan-out passes on per hit, and the shim the stage wraps it in, carry every field of EpisodeRef - the
    type the sequential walk returns."""
    from ..util import guarded_by_catch_all
    cs = ctx.func(T2PAR)
    calls = [x for x in walk_no_defs(cs.node) if isinstance(x, ast.Call) and call_tail(x) == "search_tiered"]
    ctx.floor("C09.SIB-T2", "search_tiered calls in the per-shard task", len(calls), 1)
    for c in calls:
        t = guarded_by_catch_all(ctx.prog, cs, c)
        hides = t is not None and not any(isinstance(y, ast.Raise) for h in t.handlers for st in h.body for y in ast.walk(st))
        ctx.check(not hides, "C09.SIB-T2", ctx.okey(f"{cs.qual}/shard-failure-reaches-the-helper"), cs.loc(c), "a failing shard search propagates out of the task",
                  "the shard search sits in a catch-all that substitutes an empty hit list: the task 'succeeds', run_parallel has no failure to report and the remaining shards' hits are "
                  "merged and returned - the sequential walk raises on the same memory")
    # field agreement with EpisodeRef
    tm = ctx.prog.module("clematis.engine.types")
    cls = next((x for x in tm.tree.body if isinstance(x, ast.ClassDef) and x.name == "EpisodeRef"), None)
    if cls is None:
        raise AnalysisError("anchor-vanished: EpisodeRef")
    fields = {st.target.id for st in cls.body if isinstance(st, ast.AnnAssign) and isinstance(st.target, ast.Name)}
    ctx.floor("C09.SIB-T2", "fields of EpisodeRef", len(fields), 4)
    lits = [x for x in walk_no_defs(cs.node) if isinstance(x, ast.Dict) and {const_str(k) for k in x.keys if k is not None} >= {"id", "score"}]
    ctx.floor("C09.SIB-T2", "hit records built by the per-shard task", len(lits), 1)
    for d in lits:
        have = {const_str(k) for k in d.keys if k is not None}
        ctx.check(fields <= have, "C09.SIB-T2", ctx.okey(f"{cs.qual}/hit-record-has-episode-fields"), cs.loc(d), f"the per-shard hit record carries {sorted(fields)}",
                  f"the per-shard hit record drops {sorted(fields - have)} of EpisodeRef: the parallel path returns items with fewer fields than the sequential walk (reading the missing attribute raises)")
    hm = ctx.prog.module("clematis.engine.stages.t2.helpers")
    shim = next((x for x in hm.tree.body if isinstance(x, ast.ClassDef) and x.name == "EpRefShim"), None)
    if shim is None:
        raise AnalysisError("anchor-vanished: EpRefShim")
    slots = set()
    for st in shim.body:
        if isinstance(st, ast.Assign) and any(isinstance(t, ast.Name) and t.id == "__slots__" for t in st.targets) and isinstance(st.value, (ast.Tuple, ast.List)):
            slots = {const_str(e) for e in st.value.elts}
    assigned = {t.attr for x in ast.walk(shim) if isinstance(x, ast.Assign) for t in x.targets if isinstance(t, ast.Attribute) and src(t.value) == "self"}
    have = (slots & assigned) if slots else assigned
    ctx.check(fields <= have, "C09.SIB-T2", "clematis.engine.stages.t2.helpers:EpRefShim/has-episode-fields", "clematis/engine/stages/t2/helpers.py", f"EpRefShim carries {sorted(fields)}",
              f"EpRefShim lacks {sorted(fields - have)}: hits of the shard fan-out are not the items the sequential walk returns")


def rule_shard_decomposable(ctx) -> None:
    """sharding is sound only for work that decomposes over disjoint parts of the memory: per-episode filters, and rank cuts
    that the cross-shard merge applies again to the union.  Every truncation the per-shard search performs by a configured
    bound must therefore be re-applied by the merge.  The cluster tier cuts the CLUSTER ranking to clusters_top_m inside the
    search - per shard that is the top-M of each shard (with shard-local centroids), and the merge only re-cuts to k: the
    parallel path returns members of clusters the sequential walk excludes."""
    idx = ctx.func("clematis.memory.index:InMemoryIndex._search_with_episodes")
    rd = ctx.rd(idx)
    cfg = ctx.cfg(idx)
    bounds: Dict[str, ast.AST] = {}
    for x in walk_no_defs(idx.node):
        if isinstance(x, ast.Subscript) and isinstance(x.slice, ast.Slice) and x.slice.upper is not None and isinstance(x.ctx, ast.Load):
            at = (cfg.node_containing(x) or [None])[0]
            if at is None:
                continue
            inl = rd.inline(x.slice.upper, at)
            keys = {const_str(c.args[0]) for c in ast.walk(inl) if isinstance(c, ast.Call) and call_tail(c) == "get" and c.args and const_str(c.args[0])}
            names = {y.id for y in ast.walk(inl) if isinstance(y, ast.Name) and y.id in idx.params and y.id not in ("hints", "self")}
            for b in keys | names:
                bounds.setdefault(b, x)
    # the per-episode ranking helper cuts to k as well
    for x in walk_no_defs(idx.node):
        if isinstance(x, ast.Call) and call_tail(x) == "_rank_by_cosine" and len(x.args) >= 3 and isinstance(x.args[2], ast.Name) and x.args[2].id in idx.params:
            bounds.setdefault(x.args[2].id, x)
    ctx.floor("C09.SIB-T2", "configured truncations inside the per-shard search", len(bounds), 2)
    mg = ctx.func(SHARD)
    merge_bounds = {y.id for x in walk_no_defs(mg.node) if isinstance(x, ast.Compare) for y in ast.walk(x) if isinstance(y, ast.Name) and y.id in mg.params}
    # correspondence of names across the fan-out: search k <- k_retrieval; hints keys keep their name
    same = {"k": {"k", "k_retrieval"}}
    for b, site in sorted(bounds.items()):
        ok = bool(same.get(b, {b}) & merge_bounds)
        ctx.check(ok, "C09.SIB-T2", f"{idx.qual}/per-shard-cut-reapplied-by-merge:{b}", idx.loc(site),
                  f"the cut to `{b}` inside the per-shard search is applied again by the cross-shard merge",
                  f"the per-shard search cuts by `{b}` (`{src(site)[:50]}`) but the cross-shard merge knows nothing of it (it re-cuts by {sorted(merge_bounds)} only): each shard keeps its own top "
                  f"{b} - with shard-local centroids - and the union is returned, so the parallel path yields members of clusters that the sequential walk excludes")


def rule_share(ctx) -> None:
    inner = ctx.func(T1 + ":t1_propagate._t1_one_graph")
    ef = Effects(ctx, depth=4, hints={"store": "clematis.graph.store:InMemoryGraphStore"})
    effs = ef.of(inner)
    bad = []
    cache_puts = []
    for e in effs:
        if e.kind not in ("mutate", "global-write"):
            continue
        if e.origin in ("fresh", "unknown"):
            continue
        # the stage cache is shared by design and only touched through its lock wrapper's put/get: no lost update - but the
        # ORDER of the puts is the completion order of the thunks, and a bounded LRU evicts by insertion order
        if ("cache" in e.desc and ".put(" in e.desc) and (e.origin.startswith("global:" + T1) or e.origin == "free:cache"):
            cache_puts.append(e)
            continue
        bad.append(e)
    ctx.check(not bad, "C09.SHARE", f"{inner.qual}/no-shared-writes", inner.loc(), "the per-graph thunk writes only locals and the lock-wrapped stage cache",
              f"the per-graph thunk writes state shared between tasks: {bad[0].fmt() if bad else ''}")
    if cache_puts:
        ctx.violation("C09.SHARE", f"{inner.qual}/stage-cache-filled-in-completion-order", inner.loc(),
                      f"the per-graph thunk stores its result in the shared, bounded stage cache itself ({cache_puts[0].fmt()[:80]}): on the parallel path the puts happen in completion order, on the "
                      "sequential path in active_graphs order, and a bounded LRU evicts by insertion order - which entries survive, and so the cache_hits / cache_misses counters of the NEXT call, "
                      "depend on which thread finished last")
    # the cache object handed to thunks is a lock wrapper
    gc = ctx.func(T1 + ":_get_cache")
    ctors = [c for c in walk_no_defs(gc.node) if isinstance(c, ast.Call) and call_tail(c) in ("LRUCache", "LRUBytes")]
    okw = bool(ctors) and all(isinstance(ctx.prog.parents(gc.node).get(id(c)), ast.Call) and call_tail(ctx.prog.parents(gc.node)[id(c)]).startswith("ThreadSafe") for c in ctors)
    ctx.check(okw, "C09.SHARE", f"{gc.qual}/cache-is-lock-wrapped", gc.loc(), "every T1 cache instance is wrapped in ThreadSafeCache / ThreadSafeBytesCache", "a T1 cache instance is created without its lock wrapper")
    cs = ctx.func(T2PAR)
    e2 = [e for e in Effects(ctx, depth=3).of(cs) if e.kind in ("mutate", "global-write") and e.origin not in ("fresh", "unknown")]
    ctx.check(not e2, "C09.SHARE", f"{cs.qual}/no-shared-writes", cs.loc(), "collect_shard_hits writes only its own fresh result", f"collect_shard_hits writes shared state: {e2[0].fmt() if e2 else ''}")


def rule_one_shot(ctx) -> None:
    """the parallel paths hand the per-task results to reducers that walk them once per tier / per field; a one-shot iterator
    (generator expression, map/filter/zip, generator call) in that position is empty from the second walk on, so the parallel
    result keeps the first tier only while the sequential walk keeps all of them"""
    from .. import hazards
    mods = [T1, "clematis.engine.stages.t2.core", "clematis.engine.stages.t2.parallel", "clematis.engine.stages.t2.shard", "clematis.engine.stages.t2_shard", "clematis.engine.util.parallel", "clematis.engine.orchestrator.parallel"]
    n_calls = 0
    bad = 0
    for mn in mods:
        if mn not in ctx.prog.modules:
            continue
        m = ctx.prog.module(mn)
        for fn in m.funcs.values():
            if "." in fn.qual.split(":")[-1] and fn.qual.split(":")[-1].split(".")[0] in {g.name for g in m.funcs.values()}:
                continue  # nested defs are covered from their parent
            n_calls += sum(1 for sc in [fn] + [g for g in m.funcs.values() if g.qual.startswith(fn.qual + ".")] for x in walk_no_defs(sc.node)
                           if isinstance(x, ast.Call) and (r := ctx.prog.callee(sc, x)) and r[0] == "func" and (x.args or x.keywords))
            for call, a, what, cq, site in hazards.single_use_multi_iter(ctx, fn):
                bad += 1
                ctx.violation("C09.CALL", ctx.okey(f"{fn.qual}/one-shot-iterator-walked-twice"), fn.loc(call),
                              f"`{src(a)[:50]}` is {what}, but {cq.split(':')[-1]} walks that parameter more than once (again at L{getattr(site, 'lineno', '?')}): every walk after the first is "
                              "empty, so the reducer of the parallel path drops what the sequential walk keeps (later tiers / later fields)")
    # thunks built in a loop for later execution must bind the loop variable per iteration (lambda S=sh: ...)
    n_thunks = 0
    for mn in mods:
        if mn not in ctx.prog.modules:
            continue
        for fn in ctx.prog.module(mn).funcs.values():
            n_thunks += sum(1 for x in ast.walk(fn.node) if isinstance(x, ast.Lambda)) if "." not in fn.qual.split(":")[-1] else 0
            for clo, names, lp in hazards.late_binding_closures(ctx, fn):
                bad += 1
                ctx.violation("C09.CALL", ctx.okey(f"{fn.qual}/thunk-binds-loop-variable-late"), fn.loc(clo),
                              f"`{src(clo)[:50]}` is created once per iteration but reads the loop variable {sorted(names)} as a free variable and runs later (submitted / collected): every "
                              "thunk sees the LAST shard / graph, so the parallel path computes one task n times while the sequential walk computes each once")
    ctx.floor("C09.CALL", "lambdas in the fan-out / reducer modules", n_thunks, 3)
    ctx.floor("C09.CALL", "calls into program functions in the fan-out / reducer modules", n_calls, 40)
    ctx.holds("C09.CALL", "fan-out-modules/no-one-shot-iterator-rewalked", "clematis/engine/stages",
              f"{n_calls} calls into program functions and {n_thunks} lambdas examined: {bad} pass a one-shot iterator to a parameter walked more than once or capture a loop variable late; "
              + hazards.controls(ctx, "clematis.engine.health", ["oneshot", "late"]))


def rule_zero_knob_forwarded(ctx) -> None:
    """the shard fan-out must hand every shard the retrieval knobs the sequential walk uses.  A knob whose 0 is a setting
    (`exact_recent_days = 0`: no recency window) and whose None means 'not given' must be forwarded on `is not None`: a
    truthiness test drops an explicit 0, the shard falls back to the index default (30 days) and the parallel result differs
    from the sequential one for exactly that configuration."""
    from ..zero import ZeroIsValue
    fn = ctx.prog.funcs.get("clematis.engine.stages.t2.parallel:collect_shard_hits")
    if fn is None:
        raise AnalysisError("anchor-vanished: clematis.engine.stages.t2.parallel:collect_shard_hits")
    a = fn.node.args
    allp = a.posonlyargs + a.args + a.kwonlyargs
    defaults = [None] * (len(a.posonlyargs + a.args) - len(a.defaults)) + list(a.defaults) + list(a.kw_defaults)
    opt = {p_.arg for p_, d in zip(allp, defaults) if isinstance(d, ast.Constant) and d.value is None and p_.annotation is not None
           and ("int" in src(p_.annotation) or "float" in src(p_.annotation))}
    ctx.floor("C09.SIB-T2", "optional numeric knobs of collect_shard_hits", len(opt), 1)
    z = ZeroIsValue(ctx, fn, lambda e: False, opt_params=opt)
    bad = list(z.conflations()) + list(z.callee_conflations())
    ctx.check(not bad, "C09.SIB-T2", f"{fn.qual}/zero-knob-is-forwarded", fn.loc(bad[0][0]) if bad else fn.loc(),
              f"optional numeric knobs {sorted(opt)} are forwarded to the shards on `is not None`",
              (f"an optional retrieval knob is tested by {bad[0][2]} (`{bad[0][1][:60]}`): an explicit 0 is not forwarded to the shards, which then apply the index default - "
               "the parallel result differs from the sequential walk, which passes 0") if bad else "")


def run(ctx) -> None:
    rule_zero_knob_forwarded(ctx)
    rule_one_shot(ctx)
    rule_merge(ctx)
    rule_call(ctx)
    rule_sib_t1(ctx)
    rule_sib_t2(ctx)
    rule_tier_independent(ctx)
    rule_shard_task_faithful(ctx)
    rule_shard_decomposable(ctx)
    rule_share(ctx)
