"""C03 Meta-filter output always stays inside the safety envelope."""
from __future__ import annotations

import ast
from typing import List, Optional, Set, Tuple

from ..effects import Effects
from ..model import AnalysisError, Func, const_str, dotted, kwarg, src, walk_no_defs
from ..util import call_tail, find_calls, node_calls, strip_wrappers

EXPLANATION = (
    "C03 decided statically on clematis/engine/stages/t4.py: (PURE) t4_filter and its callees mutate no argument, "
    "global or closure object, perform no I/O and read no clock/RNG/environment; (PIPE) the approved list is "
    "sorted(canonical key) of churn_cap(l2_scale(novelty_clamp(cooldown-filter(combine(plan deltas))))) on the only "
    "return path - no stage skipped or reordered; (BOUND) novelty clamp stores +-cap on the |d|>cap branch and the input "
    "otherwise, the L2 stage multiplies by cap/norm only where norm>cap, the churn stage keeps the input when n<=k and "
    "otherwise the first k of a sort by (-|d|, canonical key), the cooldown filter removes exactly the blocked op "
    "indices and reports them sorted; (PROV) every constructed delta copies its target from an input delta and the Optional[int] provenance indices (op_idx / idx) are tested by identity, never by truthiness; "
    "(ORDERINS) duplicates are summed order-independently, keyed injectively, every stage output is in canonical "
    "order or sorted by a total key. Not decided: the numeric envelope to the last ulp, NaN/denormal behaviour."
)
RULES = {
    "C03.PURE": "effect analysis (mutation origin / I/O / nondeterminism) of t4_filter and all resolved callees",
    "C03.PIPE": "def-use chain of T4Result.approved_deltas through the five stages in documented order",
    "C03.BOUND": "guard facts + reaching-definition shape of the three numeric kernels and the cooldown filter",
    "C03.PROV": "constructor-argument provenance of every ProposedDelta built in the module",
    "C03.ORDERINS": "order-dependent fold detection over the unordered input, key injectivity, sorted outputs, total sort keys",
}

T4 = "clematis.engine.stages.t4"
# the cooldown filter works on the proposals as listed - BEFORE duplicates are merged: a merged delta keeps one op index only,
# so filtering afterwards lets a blocked op's share through inside a delta attributed to another op (repaired in /repo)
STAGES = ["_churn_cap", "_l2_scale", "_novelty_clamp", "_combine_by_ckey", "<cooldown-filter>"]


def rule_pure(ctx) -> None:
    fn = ctx.func(T4 + ":t4_filter")
    ef = Effects(ctx, depth=5)
    effs = ef.of(fn)
    bad = [e for e in effs if (e.kind in ("mutate", "global-write") and e.origin != "fresh" and e.origin != "unknown")
           or e.kind in ("io", "nondet", "env", "io-read")]
    n_callees = len({q for q, _ in ef._memo})
    ctx.floor("C03.PURE", "functions reached from t4_filter", n_callees, 10)
    if not bad:
        ctx.holds("C03.PURE", f"{fn.qual}/effects", fn.loc(),
                  f"{n_callees} functions reached: no store/mutating call rooted at an argument, global or closure object; no I/O, clock, RNG or env read")
    for e in bad:
        ctx.violation("C03.PURE", f"{fn.qual}/{e.kind}:{e.origin}:{e.desc[:40]}", e.where,
                      f"t4_filter is not a pure function of its arguments: {e.fmt()}")
    unk = [e for e in effs if e.kind == "mutate" and e.origin == "unknown"]
    for e in unk:
        ctx.undecided("C03.PURE", f"{fn.qual}/unknown:{e.desc[:40]}", e.where, f"mutation of an object of unknown origin: {e.fmt()}")


# ------------------------------------------------------------------- PIPE
def _follow(ctx, fn: Func, e: ast.AST, at, limit: int = 40) -> List[str]:
    """Stage names along the def-use chain feeding expression e (first data argument of each stage)."""
    rd = ctx.rd(fn)
    out: List[str] = []
    cur, node = e, at
    for _ in range(limit):
        cur = strip_wrappers(cur, names=("list", "tuple"))
        if isinstance(cur, ast.Name):
            ds = [d for d in rd.reaching(cur.id, node) if d.kind != "mutate"]
            if len(ds) != 1:
                out.append(f"<{len(ds)} defs of {cur.id}>")
                return out
            d = ds[0]
            if d.kind == "param":
                out.append(f"<param {d.name}>")
                return out
            if d.value is None:
                return out
            if d.kind == "unpack":
                # (x, y) = f(...): x is element 0 of the call result
                idx = None
                if isinstance(d.target, (ast.Tuple, ast.List)):
                    for i, t in enumerate(d.target.elts):
                        if isinstance(t, ast.Name) and t.id == cur.id:
                            idx = i
                if idx != 0:
                    out.append(f"<element {idx} of {src(d.value)[:30]}>")
                    return out
            cur, node = d.value, d.node
            continue
        if isinstance(cur, ast.Call):
            nm = dotted(cur.func) or call_tail(cur)
            out.append(nm)
            if not cur.args:
                return out
            cur = cur.args[1] if nm in ("heapq.nsmallest", "heapq.nlargest", "nsmallest", "nlargest") and len(cur.args) > 1 else cur.args[0]
            continue
        if isinstance(cur, (ast.ListComp, ast.GeneratorExp)):
            g = cur.generators[0]
            elt_is_var = isinstance(cur.elt, ast.Name) and isinstance(g.target, ast.Name) and cur.elt.id == g.target.id
            conds = " and ".join(src(c) for c in g.ifs)
            out.append("<cooldown-filter>" if (elt_is_var and "blocked" in conds) else f"<comprehension {src(cur)[:40]}>")
            cur = g.iter
            continue
        out.append(f"<{type(cur).__name__}>")
        return out
    return out


def _order_free(ctx, fn, e: ast.AST, at, depth: int = 0) -> bool:
    """the value of e does not depend on the order of the terms it sums"""
    if depth > 5:
        return False
    if isinstance(e, ast.Constant):
        return True
    if isinstance(e, ast.UnaryOp):
        return _order_free(ctx, fn, e.operand, at, depth + 1)
    if isinstance(e, ast.IfExp):
        return _order_free(ctx, fn, e.body, at, depth + 1) and _order_free(ctx, fn, e.orelse, at, depth + 1)
    if isinstance(e, ast.Name):
        rd = ctx.rd(fn)
        if not rd.is_local(e.id):
            return e.id.isupper() or e.id.startswith("_") and e.id[1:].isupper()  # module constant
        ds = [d for d in rd.reaching(e.id, at) if d.kind != "mutate"]
        return bool(ds) and all(d.kind == "assign" and d.value is not None and _order_free(ctx, fn, d.value, d.node, depth + 1) for d in ds)
    if isinstance(e, ast.Call):
        d = dotted(e.func) or ""
        if d in ("fsum", "math.fsum"):
            return True
        if d == "float" and e.args:
            return _order_free(ctx, fn, e.args[0], at, depth + 1)
        if d == "sum" and e.args:
            a0 = e.args[0]
            if isinstance(a0, ast.Call) and dotted(a0.func) == "sorted":
                return True
            if isinstance(a0, (ast.GeneratorExp, ast.ListComp)) and isinstance(a0.elt, ast.Call) and (dotted(a0.elt.func) or "").split(".")[-1] in ("Fraction", "Decimal"):
                return (dotted(a0.elt.func) or "").split(".")[-1] == "Fraction"  # exact rational arithmetic
            return False
        r = ctx.prog.callee(fn, e)
        if r and r[0] == "func" and r[1] in ctx.prog.funcs:
            g = ctx.prog.funcs[r[1]]
            gcfg = ctx.cfg(g)
            rets = [m for m in gcfg.nodes if m.kind == "stmt" and isinstance(m.ast, ast.Return) and m.ast.value is not None and m in gcfg.reachable_from_entry()]
            return bool(rets) and all(_order_free(ctx, g, m.ast.value, m, depth + 1) for m in rets)
    return False


def rule_pipe(ctx) -> None:
    fn = ctx.func(T4 + ":t4_filter")
    cfg = ctx.cfg(fn)
    rets = [n for n in cfg.nodes if n.kind == "stmt" and isinstance(n.ast, ast.Return) and n in cfg.reachable_from_entry()]
    ctx.floor("C03.PIPE", "returns of t4_filter", len(rets), 1)
    for r in rets:
        v = r.ast.value
        if isinstance(v, ast.Name):
            uv = ctx.rd(fn).unique_value(v.id, r)
            v = uv[0] if uv else v
        if not (isinstance(v, ast.Call) and call_tail(v) == "T4Result"):
            ctx.violation("C03.PIPE", f"{fn.qual}/return-shape", fn.loc(r.ast), f"t4_filter returns `{src(r.ast.value)[:50]}`, not a T4Result built from the pipeline")
            continue
        ad = kwarg(v, "approved_deltas") or (v.args[0] if v.args else None)
        chain = _follow(ctx, fn, ad, r) if ad is not None else []
        want = ["sorted"] + STAGES + ["_get_plan_deltas"]
        ok = chain[: len(want)] == want
        ctx.check(ok, "C03.PIPE", f"{fn.qual}/stage-order", fn.loc(r.ast),
                  "approved_deltas = " + " <- ".join(chain[: len(want)]),
                  f"approved_deltas is not the documented pipeline: got {' <- '.join(chain)}; expected {' <- '.join(want)}")
        # the final sort uses the canonical key
        core = ad
        if isinstance(core, ast.Name):
            uv = ctx.rd(fn).unique_value(core.id, r)
            core = uv[0] if uv else core
        k = kwarg(core, "key") if isinstance(core, ast.Call) else None
        ctx.check(k is not None and "_canonical_key" in src(k), "C03.PIPE", f"{fn.qual}/canonical-output-order", fn.loc(r.ast),
                  "the approved list is sorted by the canonical key", f"the approved list is not sorted by _canonical_key (key={src(k) if k is not None else None})")
        ro = kwarg(v, "rejected_ops")
        if ro is not None:
            inl = ctx.rd(fn).inline(ro, r)
            ok2 = any(isinstance(x, ast.Call) and dotted(x.func) == "sorted" and "blocked" in src(x) for x in ast.walk(inl))
            ctx.check(ok2, "C03.PIPE", f"{fn.qual}/rejected-ops-sorted", fn.loc(r.ast), "rejected_ops enumerates sorted(blocked_ops)",
                      f"rejected_ops `{src(inl)[:60]}` does not enumerate the blocked set in sorted order")


# ------------------------------------------------------------------ BOUND
def _facts(cfg, n) -> Set[Tuple[str, bool]]:
    return cfg.facts(n)


def _gt_fact(facts, a: str, b: str) -> bool:
    """facts imply a > b"""
    return (f"{a} > {b}", True) in facts or (f"{a} <= {b}", False) in facts or (f"{b} < {a}", True) in facts or (f"{b} >= {a}", False) in facts


def _le_fact(facts, a: str, b: str) -> bool:
    return (f"{a} > {b}", False) in facts or (f"{a} <= {b}", True) in facts or (f"{b} < {a}", False) in facts or (f"{b} >= {a}", True) in facts


def rule_bound(ctx) -> None:
    # ---- novelty clamp
    fn = ctx.func(T4 + ":_novelty_clamp")
    cfg = ctx.cfg(fn)
    rd = ctx.rd(fn)
    cap_p = fn.params[1]
    ctors = find_calls(ctx, fn, lambda c, nm: call_tail(c) == "ProposedDelta")
    ctx.floor("C03.BOUND", "ProposedDelta constructors in _novelty_clamp", len(ctors), 1)
    for n, c in ctors:
        dv = kwarg(c, "delta")
        if dv is None:
            ctx.violation("C03.BOUND", f"{fn.qual}/delta-kw", fn.loc(c), "constructed delta has no delta= argument")
            continue
        defs = rd.reaching(dv.id, n) if isinstance(dv, ast.Name) else []
        if not defs:
            ctx.violation("C03.BOUND", f"{fn.qual}/delta-defs", fn.loc(c), f"delta={src(dv)} is not a clamped local")
            continue
        for d in defs:
            val = d.value
            txt = src(val) if val is not None else "?"
            facts = _facts(cfg, d.node)
            # names: mag = abs(<elem>.delta), cap = abs(float(cap))
            mag_names = {x.name for x in rd.all_defs if x.value is not None and isinstance(x.value, ast.Call) and dotted(x.value.func) == "abs"
                         and src(x.value.args[0]).endswith(".delta")}
            capped = {cap_p, f"-{cap_p}"}
            is_cap = val is not None and (
                (isinstance(val, ast.IfExp) and {src(val.body), src(val.orelse)} == capped) or src(val) in capped)
            passthrough = val is not None and isinstance(val, ast.Attribute) and val.attr == "delta"
            key = f"{fn.qual}/store:{txt[:30]}"
            if is_cap:
                ctx.holds("C03.BOUND", key, fn.loc(val), f"stores +-{cap_p} (|delta| = cap)")
            elif passthrough:
                ok = any(_le_fact(facts, m, cap_p) for m in mag_names)
                ctx.check(ok, "C03.BOUND", key, fn.loc(val), f"passes the input through only where |delta| <= {cap_p}",
                          f"`{txt}` is stored without the |delta| <= {cap_p} guard: a magnitude above the novelty cap is approved")
            else:
                ctx.violation("C03.BOUND", key, fn.loc(val) if val is not None else fn.loc(),
                              f"novelty clamp stores `{txt}`, which is neither +-{cap_p} nor the guarded input: |delta| <= novelty cap is not established")
    # cap is made non-negative
    capdefs = [d for d in rd.all_defs if d.name == cap_p and d.kind == "assign"]
    ctx.check(any(isinstance(d.value, ast.Call) and dotted(d.value.func) == "abs" for d in capdefs) or not capdefs, "C03.BOUND",
              f"{fn.qual}/cap-nonneg", fn.loc(), "the cap is normalised with abs()", "cap is reassigned without abs()")

    # ---- L2 scaling
    fn = ctx.func(T4 + ":_l2_scale")
    cfg = ctx.cfg(fn)
    rd = ctx.rd(fn)
    rets = [n for n in cfg.nodes if n.kind == "stmt" and isinstance(n.ast, ast.Return) and n in cfg.reachable_from_entry()]
    n_scaled = 0
    for r in rets:
        v = r.ast.value
        first = v.elts[0] if isinstance(v, ast.Tuple) and v.elts else v
        facts = _facts(cfg, r)
        if isinstance(first, (ast.List,)) and not first.elts:
            continue
        if isinstance(first, ast.Name) and first.id == fn.params[0]:
            # identity branch: needs norm <= cap
            normn = [d.name for d in rd.all_defs if d.value is not None and any(isinstance(z, ast.Call) and call_tail(z) in ("sqrt", "hypot") for z in ast.walk(d.value))]
            # `peak == 0.0` with peak = max(|d|) over all components also means norm == 0
            peaks = [d.name for d in rd.all_defs if d.value is not None and isinstance(d.value, ast.Call) and dotted(d.value.func) == "max" and d.value.args
                     and isinstance(d.value.args[0], (ast.GeneratorExp, ast.ListComp)) and isinstance(d.value.args[0].elt, ast.Call) and dotted(d.value.args[0].elt.func) == "abs"]
            capn = [d.name for d in rd.all_defs if d.value is not None and src(d.value) in (f"float({fn.params[1]})", fn.params[1])] + [fn.params[1]]
            ok = any(((f"{a} <= {b} or {a} == 0.0", True) in facts) or _le_fact(facts, a, b) for a in normn for b in capn) or \
                any((f"{pk} == 0.0", True) in facts or (f"{pk} == 0", True) in facts for pk in peaks)
            ctx.check(ok, "C03.BOUND", f"{fn.qual}/identity-branch", fn.loc(r.ast), "input returned unscaled only where norm <= cap (or norm == 0)",
                      "the unscaled list is returned without the norm <= cap test: the L2 cap is not enforced")
            continue
        n_scaled += 1
        inl = first
        if isinstance(first, ast.Name):
            uv0 = rd.unique_value(first.id, r)
            inl = uv0[0] if uv0 else first
        ctor = [x for x in ast.walk(inl) if isinstance(x, ast.Call) and call_tail(x) == "ProposedDelta"]
        dv = kwarg(ctor[0], "delta") if ctor else None
        ok_mul = dv is not None and isinstance(dv, ast.BinOp) and isinstance(dv.op, ast.Mult)
        scale_ok = False
        if ok_mul:
            for side in (dv.left, dv.right):
                if isinstance(side, ast.Name):
                    uv = rd.unique_value(side.id, r)
                    if uv is not None and isinstance(uv[0], ast.BinOp) and isinstance(uv[0].op, ast.Div):
                        num, den = uv[0].left, uv[0].right
                        den_def = rd.unique_value(den.id, uv[1]) if isinstance(den, ast.Name) else None
                        if den_def is not None and any(isinstance(z, ast.Call) and call_tail(z) in ("sqrt", "hypot") for z in ast.walk(den_def[0])):
                            # numerator is the cap; scaled branch reached only where norm > cap
                            if any(_gt_fact(facts, den.id, src(num)) or ((f"{den.id} <= {src(num)} or {den.id} == 0.0", False) in facts) for _ in [0]):
                                scale_ok = True
        ctx.check(ok_mul and scale_ok, "C03.BOUND", f"{fn.qual}/scaled-branch", fn.loc(r.ast),
                  "scaled deltas are delta * (cap / norm) on the norm > cap branch only (factor in (0,1), ratios and signs preserved)",
                  f"scaled branch is not delta * (cap / sqrt(sum squares)) under norm > cap: `{src(dv) if dv is not None else src(first)[:50]}`")
    ctx.floor("C03.BOUND", "scaled return in _l2_scale", n_scaled, 1)
    # norm really is the L2 norm of all deltas - computed so that it is right for every magnitude the statement names
    # ("huge / denormal"): math.hypot over all components scales internally; sqrt(sum of squares) reads |d| < 1.5e-162 as 0
    # (the squares underflow), finds norm == 0 <= cap and approves the vector unscaled whatever the cap
    hyp = [x for x in walk_no_defs(fn.node) if isinstance(x, ast.Call) and call_tail(x) == "hypot"]
    sq = [x for x in walk_no_defs(fn.node) if isinstance(x, ast.AugAssign) and isinstance(x.op, ast.Add) and isinstance(x.value, ast.BinOp)
          and isinstance(x.value.op, (ast.Mult, ast.Pow))]
    gen = [x for x in walk_no_defs(fn.node) if isinstance(x, ast.Call) and dotted(x.func) in ("sum", "fsum", "math.fsum")]
    ok_h = False
    for h in hyp:
        for a in h.args:
            if isinstance(a, ast.Starred) and isinstance(a.value, (ast.ListComp, ast.GeneratorExp)) and len(a.value.generators) == 1 and not a.value.generators[0].ifs \
                    and isinstance(a.value.generators[0].iter, ast.Name) and a.value.generators[0].iter.id == fn.params[0] and ".delta" in src(a.value.elt):
                ok_h = True
    if ok_h:
        ctx.holds("C03.BOUND", f"{fn.qual}/norm-sum-of-squares", fn.loc(hyp[0]), "norm = hypot over the delta of every input element (range-safe L2 norm)")
    elif sq or gen:
        ctx.violation("C03.BOUND", f"{fn.qual}/norm-sum-of-squares", fn.loc((sq or gen)[0]),
                      "the norm is the square root of a plain sum of squares: for components below about 1.5e-162 every square underflows to 0.0, the norm reads 0 <= cap and the vector is "
                      "approved unscaled although each component alone exceeds a (validator-accepted) tiny cap; for components above 1e154 the squares overflow")
    else:
        ctx.violation("C03.BOUND", f"{fn.qual}/norm-sum-of-squares", fn.loc(), "no L2 norm of the input feeds the cap test")

    # ---- churn cap
    fn = ctx.func(T4 + ":_churn_cap")
    cfg = ctx.cfg(fn)
    rd = ctx.rd(fn)
    rets = [n for n in cfg.nodes if n.kind == "stmt" and isinstance(n.ast, ast.Return) and n in cfg.reachable_from_entry()]
    kname = fn.params[1]
    for r in rets:
        v = r.ast.value
        first = v.elts[0] if isinstance(v, ast.Tuple) and v.elts else v
        facts = _facts(cfg, r)
        if isinstance(first, ast.Name) and first.id == fn.params[0]:
            lens = [d.name for d in rd.all_defs if d.value is not None and src(d.value) == f"len({fn.params[0]})"] + [f"len({fn.params[0]})"]
            ok = any(_le_fact(facts, a, kname) for a in lens)
            ctx.check(ok, "C03.BOUND", f"{fn.qual}/identity-branch", fn.loc(r.ast), f"input returned whole only where n <= {kname}",
                      "the whole list is returned without the n <= k test: more than churn-cap many deltas can be approved")
            continue
        inl = rd.inline(first, r)
        ok = False
        why = src(inl)[:80]
        if isinstance(inl, ast.Subscript) and isinstance(inl.slice, ast.Slice) and inl.slice.lower is None and inl.slice.upper is not None \
                and src(inl.slice.upper) == kname and isinstance(inl.value, ast.Call) and dotted(inl.value.func) == "sorted":
            ok = _total_mag_key(kwarg(inl.value, "key"))
        elif isinstance(inl, ast.Call) and (dotted(inl.func) or "").endswith("nsmallest") and len(inl.args) >= 2 and src(inl.args[0]) == kname:
            ok = _total_mag_key(kwarg(inl, "key"))
        ctx.check(ok, "C03.BOUND", f"{fn.qual}/kept-prefix", fn.loc(r.ast),
                  f"kept = first {kname} of sorted(deltas, key=(-|delta|, canonical key)): at most k, largest magnitudes, total tie-break",
                  f"kept list `{why}` is not the first k of a sort by (-|delta|, canonical key): churn cap / top-K-by-magnitude / "
                  "tie-break by target is not established")
    kd = [d for d in rd.all_defs if d.name == kname and d.kind == "assign"]
    # ---- cooldown filter in t4_filter
    fn = ctx.func(T4 + ":t4_filter")
    comps = [x for x in walk_no_defs(fn.node) if isinstance(x, ast.ListComp) and "blocked" in src(x)]
    okc = False
    for c in comps:
        g = c.generators[0]
        for cond in g.ifs:
            for x in ast.walk(cond):
                if isinstance(x, ast.Compare) and len(x.ops) == 1 and isinstance(x.ops[0], ast.NotIn) and src(x.left).endswith(".op_idx") and "blocked" in src(x.comparators[0]):
                    okc = True
    ctx.check(okc, "C03.BOUND", f"{fn.qual}/cooldown-filter", fn.loc(comps[0]) if comps else fn.loc(),
              "deltas surviving the cooldown stage have op_idx not in blocked_ops",
              "no comprehension removes deltas whose op_idx is in blocked_ops: a delta of an op still in cooldown can be approved")
    cb = ctx.func(T4 + ":_collect_blocked_ops")
    cmpok = any(isinstance(x, ast.Compare) and len(x.ops) == 1 and isinstance(x.ops[0], ast.Lt) and isinstance(x.left, ast.BinOp) and isinstance(x.left.op, ast.Sub)
                for x in walk_no_defs(cb.node))
    ctx.check(cmpok, "C03.BOUND", f"{cb.qual}/cooldown-window", cb.loc(), "an op is blocked where (turn - last_turn) < cooldown",
              "the cooldown window test (turn - last) < cd is missing or altered")


def rule_finite_intake(ctx) -> None:
    """the three bounds are tests of the form `mag > cap` / `norm <= cap`: a NaN magnitude fails every comparison, passes the
    novelty clamp, makes the norm NaN and - through scale = cap / norm - every approved delta of the plan; +inf and -inf on one
    target raise out of fsum.  So non-finite magnitudes are dealt with where proposals enter the arithmetic: every term the
    merge step files for summation is known not to be NaN (a `t != t` / isnan / isfinite test on that path)."""
    fn = ctx.func(T4 + ":_combine_by_ckey")
    cfg = ctx.cfg(fn)
    rd = ctx.rd(fn)
    # the lists that are summed: arguments of the summation helper
    summed = set()
    for x in walk_no_defs(fn.node):
        if isinstance(x, ast.Call) and call_tail(x) in ("_exact_sum", "fsum", "sum") and x.args and isinstance(x.args[0], ast.Name):
            for d in rd.all_defs:
                if d.name == x.args[0].id:
                    summed.add(d.name)
    sites = []
    for n in cfg.nodes:
        if n.kind != "stmt":
            continue
        for x in walk_no_defs(n.ast):
            if isinstance(x, ast.Call) and call_tail(x) == "append" and isinstance(x.func.value, ast.Name) and x.func.value.id in summed and x.args:
                sites.append((n, x.args[0]))
            if isinstance(x, ast.Assign) and isinstance(x.value, ast.Tuple) and x.value.elts and isinstance(x.value.elts[0], ast.List) and len(x.value.elts[0].elts) == 1:
                sites.append((n, x.value.elts[0].elts[0]))
    ctx.floor("C03.BOUND", "terms filed for summation in the merge step", len(sites), 2)
    for n, term in sites:
        ok = False
        if isinstance(term, ast.Name):
            v = term.id
            for t, pol in cfg.facts(n):
                tt = t.replace(" ", "")
                if (tt == f"{v}!={v}" and not pol) or (tt == f"{v}=={v}" and pol) or (("isnan(" + v + ")") in tt and not pol) or (("isfinite(" + v + ")") in tt and pol):
                    ok = True
        ctx.check(ok, "C03.BOUND", ctx.okey(f"{fn.qual}/term-is-not-nan"), fn.loc(term), f"`{src(term)[:30]}` is filed only where it is known not to be NaN",
                  f"`{src(term)[:40]}` enters the sum unchecked: a NaN proposal passes `mag > cap` (False), turns the L2 norm into NaN and, through scale = cap / norm, EVERY approved delta of the plan - "
                  "no bound holds for any target; +inf and -inf on one target raise out of fsum")


def rule_intake_conversion_total(ctx) -> None:
    """"for every plan": a magnitude is whatever number the planner wrote - an int beyond the double range (10**400) makes
    float() raise OverflowError, and the filter then approves nothing at all instead of clamping the target to the novelty cap
    like an infinity.  The float() conversion of the proposal's magnitude in the merge step sits under a handler that covers
    OverflowError."""
    from ..util import enclosing
    fn = ctx.func(T4 + ":_combine_by_ckey")
    loop_vars = {y.id for x in walk_no_defs(fn.node) if isinstance(x, ast.For) for y in ast.walk(x.target) if isinstance(y, ast.Name)}
    convs = [x for x in walk_no_defs(fn.node) if isinstance(x, ast.Call) and isinstance(x.func, ast.Name) and x.func.id == "float" and x.args
             and any(isinstance(y, ast.Name) and y.id in loop_vars for y in ast.walk(x.args[0]))]
    ctx.floor("C03.BOUND", "float() conversions of a proposal's magnitude in the merge step", len(convs), 1)
    for x in convs:
        ok = False
        for st, part in enclosing(ctx.prog, fn, x):
            if isinstance(st, ast.Try) and part == "body":
                caught = set()
                for h in st.handlers:
                    caught |= {"*"} if h.type is None else {src(e).split(".")[-1] for e in (h.type.elts if isinstance(h.type, ast.Tuple) else [h.type])}
                # the handler must also go on with a value: a bare re-raise / nothing assigned is no handling
                goes_on = any(not any(isinstance(y, ast.Raise) for st2 in h.body for y in ast.walk(st2)) for h in st.handlers)
                if caught & {"*", "Exception", "BaseException", "OverflowError", "ArithmeticError"} and goes_on:
                    ok = True
        ctx.check(ok, "C03.BOUND", ctx.okey(f"{fn.qual}/magnitude-conversion-total"), fn.loc(x), f"`{src(x)}` is under a handler that covers OverflowError",
                  f"`{src(x)}` is not under a handler covering OverflowError: a plan with an integer magnitude beyond the double range (10**400) makes the whole filter raise - nothing is approved, "
                  "nothing is reported - where an infinite magnitude is clamped to the novelty cap")


def rule_cooldown_history(ctx) -> None:
    """"none originating from an operation still in cooldown" for every cooldown history: the test `turn - last < cooldown`
    is applied to whatever turn number the history holds.  Admitting only values of one exact type (`isinstance(last, int)`)
    silently switches the cooldown off for a history that went through JSON or a float store (9.0, "9")."""
    fn = ctx.func(T4 + ":_collect_blocked_ops")
    cfg = ctx.cfg(fn)
    adds = [(n, c) for n in cfg.nodes for c in node_calls(n) if call_tail(c) == "add" and isinstance(c.func, ast.Attribute)]
    ctx.floor("C03.BOUND", "sites that block an operation", len(adds), 1)
    for n, c in adds:
        typed = [t for t, pol in cfg.facts(n) if pol and t.replace(" ", "").startswith("isinstance(") and t.replace(" ", "").endswith(",int)")]
        ctx.check(not typed, "C03.BOUND", ctx.okey(f"{fn.qual}/history-value-not-type-gated"), fn.loc(c), "an operation is blocked whatever number type its last turn was stored as",
                  f"an operation is blocked only where `{typed[0] if typed else ''}`: a last-turn value stored as 9.0 or '9' is skipped without a trace and the op's deltas are approved while it is still in cooldown")


def _total_mag_key(k: Optional[ast.AST]) -> bool:
    if not isinstance(k, ast.Lambda) or not isinstance(k.body, ast.Tuple) or len(k.body.elts) < 2:
        return False
    first, last = k.body.elts[0], k.body.elts[-1]
    neg_abs = isinstance(first, ast.UnaryOp) and isinstance(first.op, ast.USub) and "abs(" in src(first) and ".delta" in src(first)
    return neg_abs and "_canonical_key" in src(last)


# ------------------------------------------------------------------- PROV
def rule_prov(ctx) -> None:
    m = ctx.prog.module(T4)
    n = 0
    for fn in m.funcs.values():
        for x in walk_no_defs(fn.node):
            if isinstance(x, ast.Call) and call_tail(x) == "ProposedDelta":
                n += 1
                roots = set()
                ok = True
                for f in ("target_kind", "target_id", "attr"):
                    v = kwarg(x, f)
                    if not (isinstance(v, ast.Attribute) and v.attr == f and isinstance(v.value, ast.Name)):
                        ok = False
                    else:
                        roots.add(v.value.id)
                ctx.check(ok and len(roots) == 1, "C03.PROV", f"{fn.qual}/ctor-target", fn.loc(x),
                          f"target (kind,id,attr) copied from one input delta `{next(iter(roots)) if roots else '?'}`",
                          f"constructed delta's target is not copied field-for-field from a single input delta: `{src(x)[:80]}`")
    ctx.floor("C03.PROV", "ProposedDelta constructors", n, 3)


def _optional_fields(ctx) -> Set[str]:
    """dataclass fields of ProposedDelta annotated Optional[int]: 0 is a valid index, None means unknown"""
    m = ctx.prog.module("clematis.engine.types")
    out: Set[str] = set()
    for x in ast.walk(m.tree):
        if isinstance(x, ast.ClassDef) and x.name == "ProposedDelta":
            for st in x.body:
                if isinstance(st, ast.AnnAssign) and isinstance(st.target, ast.Name) and "Optional[int]" in src(st.annotation).replace(" ", ""):
                    out.add(st.target.id)
    if not out:
        raise AnalysisError("anchor-vanished: Optional[int] provenance fields of ProposedDelta")
    return out


def _truthy_operands(test: ast.AST) -> List[ast.AST]:
    """sub-expressions whose *truthiness* (not identity / ordering) decides `test`"""
    if isinstance(test, ast.UnaryOp) and isinstance(test.op, ast.Not):
        return _truthy_operands(test.operand)
    if isinstance(test, ast.BoolOp):
        return [y for v in test.values for y in _truthy_operands(v)]
    if isinstance(test, (ast.Name, ast.Attribute, ast.Subscript)):
        return [test]
    if isinstance(test, ast.Call) and dotted(test.func) == "bool" and test.args:
        return _truthy_operands(test.args[0])
    return []


def rule_prov_index(ctx) -> None:
    """provenance indices (op_idx / idx and anything typed Optional[int]) are tested by identity (`is None`), never by
    truthiness: index 0 is a known provenance - conflating it with None lets a delta of op #0 escape the cooldown filter"""
    from ..dataflow import Taint
    fields = _optional_fields(ctx)
    m = ctx.prog.module(T4)
    n_opt = 0
    for fn in m.funcs.values():
        opt_params = set()
        a = fn.node.args
        for x in a.posonlyargs + a.args + a.kwonlyargs:
            if x.annotation is not None and "Optional[int]" in src(x.annotation).replace(" ", ""):
                opt_params.add(x.arg)
        cfg = ctx.cfg(fn)
        rd = ctx.rd(fn)

        def source(e, n):
            if isinstance(e, ast.Attribute) and e.attr in fields:
                return {"OPT"}
            return set()

        def cleanse(e, at, labels):
            # a comparison / call result is no longer the index itself
            if isinstance(e, (ast.Compare, ast.BinOp)) or (isinstance(e, ast.Call) and dotted(e.func) not in ("min", "max", "_min_optional_int", "list", "tuple", "sorted")):
                return set(labels) - {"OPT", "OPTS"}
            if isinstance(e, (ast.List, ast.Tuple, ast.Set, ast.ListComp, ast.SetComp, ast.GeneratorExp, ast.Dict, ast.DictComp)) and "OPT" in labels:
                return (set(labels) - {"OPT"}) | {"OPTS"}  # a collection of indices: its emptiness test is not an index test
            if isinstance(e, ast.Call) and dotted(e.func) in ("min", "max") and "OPTS" in labels:
                return (set(labels) - {"OPTS"}) | {"OPT"}
            return labels

        t = Taint(rd, source, cleanse=cleanse, param_labels=lambda nm: {"OPT"} if nm in opt_params else set())
        bad: List[Tuple[ast.AST, str]] = []
        for n in cfg.nodes:
            tests: List[Tuple[ast.AST, dict]] = []
            if n.kind == "cond":
                tests.append((n.ast, {}))
            for e in ([n.ast] if n.kind in ("stmt", "cond", "iter") and n.ast is not None else []):
                for x in walk_no_defs(e):
                    if isinstance(x, ast.IfExp):
                        tests.append((x.test, {}))
                    if isinstance(x, ast.BoolOp) and not (n.kind == "cond" and x is n.ast):
                        for v in x.values[:-1]:
                            tests.append((v, {}))
                    if isinstance(x, (ast.ListComp, ast.SetComp, ast.GeneratorExp, ast.DictComp)):
                        b = {}
                        for g in x.generators:
                            lab = t.of(g.iter, n, b)
                            if "OPTS" in lab:
                                lab = (set(lab) - {"OPTS"}) | {"OPT"}  # the element of a collection of indices is an index
                            for nm in ast.walk(g.target):
                                if isinstance(nm, ast.Name):
                                    b[nm.id] = lab
                            for cond in g.ifs:
                                tests.append((cond, dict(b)))
                    if isinstance(x, ast.Call) and dotted(x.func) == "filter" and x.args and isinstance(x.args[0], ast.Constant) and x.args[0].value is None:
                        tests.append((x.args[1], {}))
            for test, b in tests:
                for op in _truthy_operands(test):
                    lab = t.of(op, n, b)
                    if "OPT" in lab:
                        bad.append((op, src(test)))
            for e in ([n.ast] if n.ast is not None and n.kind in ("stmt", "cond") else []):
                for x in walk_no_defs(e):
                    if isinstance(x, ast.Attribute) and x.attr in fields:
                        n_opt += 1
        n_opt += len(opt_params)
        if not bad and not opt_params and not any(isinstance(x, ast.Attribute) and x.attr in fields for x in walk_no_defs(fn.node)):
            continue
        ctx.check(not bad, "C03.PROV", f"{fn.qual}/index-tested-by-identity", fn.loc(bad[0][0]) if bad else fn.loc(),
                  "provenance indices are only tested with `is None` / membership / ordering",
                  f"`{src(bad[0][0]) if bad else ''}` (an Optional[int] provenance index) is tested for truthiness in `{bad[0][1][:50] if bad else ''}`: index 0 is conflated with None, "
                  "so a delta originating from op #0 loses its provenance and escapes the cooldown filter")
    ctx.floor("C03.PROV", "reads of Optional[int] provenance indices in t4", n_opt, 8)


# --------------------------------------------------------------- ORDERINS
def rule_orderins(ctx) -> None:
    ck = ctx.func(T4 + ":_canonical_key")
    rets = [x for x in walk_no_defs(ck.node) if isinstance(x, ast.Return) and x.value is not None]
    cfgk = ctx.cfg(ck)
    rdk = ctx.rd(ck)
    for r in rets:
        node = cfgk.nodes_of(r)[0]
        inl = rdk.inline(r.value, node)
        need = {"target_kind", "target_id", "attr"}
        if isinstance(inl, ast.Tuple):
            have = set()
            for e in inl.elts:
                e2 = strip_wrappers(e, names=("str",))
                if isinstance(e2, ast.Attribute) and e2.attr in need:
                    have.add(e2.attr)
            ctx.check(have == need, "C03.ORDERINS", f"{ck.qual}/injective", ck.loc(r),
                      "the canonical key carries (kind, id, attr) as separate tuple components: distinct targets never collide",
                      f"canonical key tuple lacks separate components {sorted(need - have)}")
            # canonical TARGET ORDER is the order of the joined identity "kind:id:attr" (what t4.jsonl / the goldens list):
            # the joined string has to lead the key, the components only break its collisions
            first = inl.elts[0] if inl.elts else None
            parts = []
            if isinstance(first, ast.JoinedStr):
                for v in first.values:
                    if isinstance(v, ast.FormattedValue):
                        e2 = strip_wrappers(v.value, names=("str",))
                        parts.append(e2.attr if isinstance(e2, ast.Attribute) else "?")
                    elif isinstance(v, ast.Constant):
                        parts.append(str(v.value))
            ctx.check(parts == ["target_kind", ":", "target_id", ":", "attr"], "C03.ORDERINS", f"{ck.qual}/order-is-joined-identity", ck.loc(r),
                      "the key sorts by the joined identity `kind:id:attr` first (canonical target order), then by its components",
                      f"the canonical key no longer leads with the joined identity `kind:id:attr` (first component: `{src(first)[:40] if first is not None else ''}`): "
                      "targets whose id is a prefix of another id ('n:a' / 'n:a1') change places, so the approved list leaves canonical order and the churn tie-break keeps other targets")
        else:
            joined = isinstance(inl, ast.JoinedStr) or (isinstance(inl, ast.Call) and call_tail(inl) == "join")
            ctx.check(not joined and False, "C03.ORDERINS", f"{ck.qual}/injective", ck.loc(r), "",
                      f"canonical key `{src(inl)[:60]}` joins (kind, id, attr) into one string: ids/attrs containing the separator make "
                      "distinct targets collide (('a:b','c') vs ('a','b:c')), merging their deltas and making the exemplar listing-order dependent")
    cb = ctx.func(T4 + ":_combine_by_ckey")
    cfg = ctx.cfg(cb)
    rd = ctx.rd(cb)
    p0 = cb.params[0]
    loops = [x for x in walk_no_defs(cb.node) if isinstance(x, ast.For) and isinstance(x.iter, ast.Name) and x.iter.id == p0]
    ctx.floor("C03.ORDERINS", "loop over the input deltas in _combine_by_ckey", len(loops), 1)
    for lp in loops:
        lv = lp.target.id if isinstance(lp.target, ast.Name) else None
        folds = []
        for x in ast.walk(lp):
            if isinstance(x, ast.BinOp) and isinstance(x.op, (ast.Add, ast.Sub)) and f"{lv}.delta" in src(x):
                folds.append(x)
            if isinstance(x, ast.AugAssign) and isinstance(x.op, (ast.Add, ast.Sub)) and f"{lv}.delta" in src(x.value):
                folds.append(x)
        ctx.check(not folds, "C03.ORDERINS", f"{cb.qual}/no-listing-order-fold", cb.loc(folds[0]) if folds else cb.loc(lp),
                  "duplicates are collected, not folded with float '+' in listing order",
                  f"`{src(folds[0])[:60]}` folds duplicate deltas with float '+' in listing order: addition is not associative "
                  "([1e16, 1, -1e16] vs a permutation), so the merged value depends on the order in which deltas are listed" if folds else "")
    # value of the combined delta: exactly-rounded or canonically ordered sum
    ctors = find_calls(ctx, cb, lambda c, nm: call_tail(c) == "ProposedDelta")
    for n, c in ctors:
        dv = kwarg(c, "delta")
        sl = rd.slice([dv], n) if dv is not None else None
        names = {dotted(x.func) or call_tail(x) for x in (sl.calls() if sl else [])}
        sum_sorted = any(dotted(x.func) == "sum" and x.args and isinstance(x.args[0], ast.Call) and dotted(x.args[0].func) == "sorted"
                         for x in (sl.calls() if sl else []))
        ok = bool(names & {"fsum", "math.fsum"}) or sum_sorted
        # ... or a helper every return of which is order-free: fsum, an exact rational sum (Fraction addition is associative),
        # or a saturation constant
        if not ok and isinstance(dv, (ast.Call, ast.Name)):
            ok = _order_free(ctx, cb, dv, n)
        ctx.check(ok, "C03.ORDERINS", f"{cb.qual}/order-free-sum", cb.loc(c),
                  "merged value = fsum(terms) (exactly rounded, permutation invariant)",
                  "merged value is not computed by an order-insensitive sum (math.fsum or a sum over sorted terms)")
    # fsum raises OverflowError when a PARTIAL sum leaves the double range - for some listing orders of one multiset and not
    # for others ([1e308, 1e308, -1e308, -1e308] raises, [1e308, -1e308, 1e308, -1e308] gives 0.0): every fsum on the merge path
    # sits under a handler for it, so the filter neither raises nor depends on the order
    from ..util import enclosing as _enc
    from ..cfg import handler_names as _hn
    m4 = ctx.prog.module(T4)
    n_fs = 0
    for f4 in m4.funcs.values():
        for x in walk_no_defs(f4.node):
            if isinstance(x, ast.Call) and (dotted(x.func) or "") in ("fsum", "math.fsum"):
                n_fs += 1
                guarded = any(isinstance(st, ast.Try) and part == "body" and any(set(_hn(h)) & {"OverflowError", "ArithmeticError", "Exception", "BaseException", "*"} for h in st.handlers)
                              for st, part in _enc(ctx.prog, f4, x))
                ctx.check(guarded, "C03.ORDERINS", ctx.okey(f"{f4.qual}/fsum-overflow-handled"), f4.loc(x),
                          "fsum runs under a handler for OverflowError (intermediate overflow)",
                          f"`{src(x)[:40]}` can raise OverflowError when a partial sum leaves the double range - for some listing orders of the same duplicates only: t4_filter then raises instead "
                          "of approving the (finite) merged value, and whether it does depends on the order in which the deltas are listed")
    ctx.floor("C03.ORDERINS", "fsum calls in the meta-filter", n_fs, 1)
    # every non-empty return is built by iterating sorted keys
    for r in [n for n in cfg.nodes if n.kind == "stmt" and isinstance(n.ast, ast.Return) and n in cfg.reachable_from_entry()]:
        v = r.ast.value
        if isinstance(v, ast.List) and not v.elts:
            continue
        okr = False
        if isinstance(v, ast.Name):
            for d in rd.reaching(v.id, r):
                if d.kind == "mutate" and isinstance(d.target, ast.Call):
                    # appended inside a loop over sorted(...)
                    from ..util import enclosing
                    for st, part in enclosing(ctx.prog, cb, d.target):
                        if isinstance(st, ast.For) and isinstance(st.iter, ast.Call) and dotted(st.iter.func) == "sorted":
                            okr = True
        if isinstance(v, ast.Call) and dotted(v.func) == "sorted":
            okr = True
        ctx.check(okr, "C03.ORDERINS", f"{cb.qual}/output-canonical:{src(v)[:20]}", cb.loc(r.ast),
                  "the combined list is emitted in sorted canonical-key order",
                  f"`return {src(v)[:40]}` hands the next stages a list in listing order: later tie-breaks (churn cap) then depend on how the plan listed its deltas")
    # churn sort key total (shared with BOUND) and final sort
    fn = ctx.func(T4 + ":t4_filter")
    srt = [x for x in walk_no_defs(fn.node) if isinstance(x, ast.Call) and dotted(x.func) == "sorted" and kwarg(x, "key") is not None and "_canonical_key" in src(kwarg(x, "key"))]
    ctx.check(bool(srt), "C03.ORDERINS", f"{fn.qual}/final-sort", fn.loc(), "the approved list is finally sorted by canonical key", "no final canonical sort")


def rule_caps_from_the_turns_config(ctx) -> None:
    """"the configured caps": one turn has one configuration.  run_turn gates the stage on ctx.cfg or ctx.config, object- or
    dict-shaped (what configs.validate returns); the meta-filter's own accessor must find its caps and cooldowns in the same
    places - otherwise the stage runs (the gate saw t4.enabled) with its built-in defaults: L2 1.5, novelty 0.3, churn 64 and
    NO cooldowns, whatever was configured."""
    from .c04 import _config_holders, holder_shape_gaps
    core = ctx.func("clematis.engine.orchestrator.core:_get_cfg")
    want = _config_holders(core, core.params[0])
    if want != {"cfg", "config"}:
        raise AnalysisError(f"anchor-vanished: run_turn's config accessor reads {sorted(want)}")
    fn = ctx.func(T4 + ":_get_cfg")
    got = _config_holders(fn, fn.params[0])
    if not got:
        raise AnalysisError("anchor-vanished: the meta-filter's config accessor reads no ctx holder")
    ctx.check(not (want - got), "C03.BOUND", f"{fn.qual}/caps-from-every-config-holder", fn.loc(), "the caps are looked up in ctx.config and ctx.cfg, like the gate of the stage",
              f"the caps are taken from ctx.{'/ctx.'.join(sorted(got))} only while run_turn gates the stage on ctx.{'/ctx.'.join(sorted(want - got))} as well: for such a ctx the filter runs with its "
              "built-in defaults - configured caps and cooldowns are ignored")
    gaps = holder_shape_gaps(fn, fn.params[0])
    ctx.check(not gaps, "C03.BOUND", f"{fn.qual}/caps-from-a-dict-shaped-config", fn.loc(gaps[0][0] if gaps else None), "the t4 section is found in an object-shaped and in a dict-shaped holder alike",
              (f"`{src(gaps[0][0])[:50]}` finds the `{gaps[0][1]}` section as an attribute only: with the plain dict configs.validate returns as ctx.config the filter silently uses its built-in "
               "defaults (L2 1.5, novelty 0.3, churn 64, no cooldowns) - more deltas, larger deltas and cooled-down operations are approved than the configuration allows") if gaps else "")


def rule_zero_cap_is_a_cap(ctx) -> None:
    """"at most churn-cap many" for every accepted cap: the validator accepts churn_cap_edges = 0 (approve nothing).  The
    stage's own coercion of the caps must keep that 0: `x.get(k) or default` / `if x.get(k)` turn it into the default (64)."""
    from ..zero import ZeroIsValue
    ZERO_OK = ("churn_cap_edges",)

    def source(e: ast.AST) -> bool:
        return isinstance(e, ast.Call) and isinstance(e.func, ast.Attribute) and e.func.attr == "get" and e.args and const_str(e.args[0]) in ZERO_OK

    n_r = 0
    for fn in ctx.prog.module("clematis.engine.stages.t4").funcs.values():
        if not any(source(x) for x in walk_no_defs(fn.node)):
            continue
        n_r += 1
        z = ZeroIsValue(ctx, fn, source)
        bad = list(z.conflations(positivity=False))
        ctx.check(not bad, "C03.BOUND", f"{fn.qual}/zero-churn-cap-is-a-cap", fn.loc(bad[0][0]) if bad else fn.loc(),
                  "the configured churn cap is never tested by truthiness: 0 stays 0",
                  (f"the churn cap is tested by {bad[0][2]} (`{bad[0][1][:60]}`): a configured 0 (approve nothing - accepted by the validator) becomes the default cap, "
                   "so up to 64 deltas are approved under a cap of 0") if bad else "")
    ctx.floor("C03.BOUND", "readers of t4.churn_cap_edges in the T4 stage", n_r, 1)


def run(ctx) -> None:
    rule_zero_cap_is_a_cap(ctx)
    rule_caps_from_the_turns_config(ctx)
    rule_pure(ctx)
    rule_pipe(ctx)
    rule_bound(ctx)
    rule_finite_intake(ctx)
    rule_intake_conversion_total(ctx)
    rule_cooldown_history(ctx)
    rule_prov(ctx)
    rule_prov_index(ctx)
    rule_orderins(ctx)
