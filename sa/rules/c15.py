"""C15 Bounded caches never exceed capacity and evict deterministically."""
from __future__ import annotations

import ast
from typing import Dict, List, Optional, Set, Tuple

from ..model import AnalysisError, Func, const_str, dotted, kwarg, src, walk_no_defs
from ..util import call_tail, enclosing, find_calls, implied_atoms, must_pass, no_exc, node_calls

EXPLANATION = (
    "C15 decided statically: (LOCK) every access to the wrapped cache in the two lock wrappers is lexically inside "
    "`with self._lock`, items() returns a list copy built under the lock; (CLOCK) TTL code reads time only through "
    "the injected clock; (EVICT) in every container each growing insert is followed on all paths by an eviction loop "
    "over the capacity (or preceded by a make-room loop) that removes from the LRU end only, recency updates touch "
    "the MRU end only; (ACCT) LRUBytes pairs every map removal/insert with the byte counter, clear() resets all "
    "three fields, zero capacities short-circuit before inserting; (MERGE) worker and key iteration of "
    "merge_caches_deterministic pass through sorted()/sort(key=). Not decided: the invariants after every prefix of "
    "every operation sequence and thread interleavings (model exploration)."
)
RULES = {
    "C15.LOCK": "lockset: lexical `with self._lock` enclosure of every self._inner access in the wrapper classes",
    "C15.CLOCK": "effect query: no wall-clock call in engine/cache.py bodies; TTL comparisons slice to the injected _time",
    "C15.TTL": "must-pass: every path storing a caller-supplied value into a TTL container reads the injected clock for its timestamp",
    "C15.EVICT": "post-dominance of the eviction loop over growing inserts (callee summaries) + LRU-end discipline",
    "C15.ACCT": "paired accounting of LRUBytes._bytes with _map mutations; clear() completeness; disabled short-circuit",
    "C15.MERGE": "sorted iteration of workers and keys; conflict branch shape",
}

CACHE = "clematis.engine.cache"
# (class qual, insert method, container attr, capacity attrs, idiom)
CONTAINERS = [
    (CACHE + ":_NamespaceCache", "set", "_d", ("_max",), "after"),
    ("clematis.engine.util.lru_bytes:LRUBytes", "put", "_map", ("max_entries", "max_bytes"), "after"),
    ("clematis.engine.util.lru_det:DeterministicLRU", "put", "_map", ("cap",), "after"),
    ("clematis.engine.util.lru_det:DeterministicLRUSet", "add", "_set", ("cap",), "after"),
    ("clematis.engine.util.ring:DedupeRing", "add", "_q", ("k",), "before"),
    ("clematis.engine.util.ring:DeterministicLRU", "add", "_set", ("cap",), "after"),
]


def _self_attr(e: ast.AST, attr: str) -> bool:
    return isinstance(e, ast.Attribute) and e.attr == attr and isinstance(e.value, ast.Name) and e.value.id == "self"


def _mentions_self_attr(e: ast.AST, attr: str) -> bool:
    return any(_self_attr(x, attr) for x in ast.walk(e))


# ------------------------------------------------------------------- LOCK
def rule_lock(ctx) -> None:
    m = ctx.prog.module(CACHE)
    wrappers = []
    for cname, cnode in m.classes.items():
        init = m.funcs.get(f"{cname}.__init__")
        if init is None:
            continue
        has_lock = False
        for x in walk_no_defs(init.node):
            if isinstance(x, ast.Assign) and any(_self_attr(t, "_lock") for t in x.targets):
                has_lock = True
        if has_lock:
            wrappers.append(cname)
    ctx.floor("C15.LOCK", "lock wrapper classes", len(wrappers), 2)
    n_acc = 0
    for cname in wrappers:
        for mname, fn in ctx.prog.methods(f"{CACHE}:{cname}").items():
            if mname == "__init__":
                continue
            ctx.analysed_funcs.add(fn.qual)
            for x in walk_no_defs(fn.node):
                if _self_attr(x, "_inner"):
                    n_acc += 1
                    locked = False
                    for st, part in enclosing(ctx.prog, fn, x):
                        if isinstance(st, ast.With) and part == "body" and any(_self_attr(i.context_expr, "_lock") for i in st.items):
                            locked = True
                    ctx.check(locked, "C15.LOCK", f"{fn.qual}/inner-access-under-lock", fn.loc(x),
                              "self._inner is accessed inside `with self._lock`",
                              "self._inner is accessed outside `with self._lock` (lost updates / torn reads under threads)")
            if mname == "items":
                for r in [y for y in walk_no_defs(fn.node) if isinstance(y, ast.Return)]:
                    v = r.value
                    is_copy = isinstance(v, ast.Call) and dotted(v.func) in ("list", "tuple") or isinstance(v, ast.ListComp)
                    locked = any(isinstance(st, ast.With) and part == "body" and any(_self_attr(i.context_expr, "_lock") for i in st.items)
                                 for st, part in enclosing(ctx.prog, fn, r))
                    ctx.check(is_copy and locked, "C15.LOCK", f"{fn.qual}/items-snapshot", fn.loc(r),
                              "items() returns a list copy materialised under the lock",
                              "items() hands out a live iterator / builds the copy outside the lock")
    ctx.floor("C15.LOCK", "self._inner accesses", n_acc, 8)


# ------------------------------------------------------------------ CLOCK
CLOCK_CALLS = {"time.time", "time.monotonic", "time.perf_counter", "time.time_ns", "time.monotonic_ns", "datetime.now",
               "datetime.datetime.now", "datetime.utcnow", "datetime.datetime.utcnow", "time.process_time"}


def rule_clock(ctx) -> None:
    m = ctx.prog.module(CACHE)
    n_ttl = 0
    for fn in m.funcs.values():
        ctx.analysed_funcs.add(fn.qual)
        for x in walk_no_defs(fn.node):
            if isinstance(x, ast.Call) and (dotted(x.func) or "") in CLOCK_CALLS:
                ctx.violation("C15.CLOCK", f"{fn.qual}/wall-clock-call", fn.loc(x),
                              f"TTL/cache code calls the wall clock directly ({src(x)}) instead of the injected clock")
        cfg = ctx.cfg(fn)
        rd = ctx.rd(fn)
        for n in cfg.nodes:
            if n.kind != "cond":
                continue
            for cmp_ in [y for y in ast.walk(n.ast) if isinstance(y, ast.Compare)]:
                txt = src(cmp_)
                sl = rd.slice([cmp_], n)
                if not any(a.endswith("_ttl") for a in sl.attrs()):
                    continue
                if not any(isinstance(op, (ast.Gt, ast.GtE, ast.Lt, ast.LtE)) for op in cmp_.ops):
                    continue
                n_ttl += 1
                via_injected = any(isinstance(c.func, ast.Attribute) and c.func.attr == "_time" for c in sl.calls())
                ctx.check(via_injected, "C15.CLOCK", f"{fn.qual}/ttl-compare", fn.loc(cmp_),
                          f"TTL test `{txt}` reads the time through the injected self._time",
                          f"TTL test `{txt}` does not derive `now` from the injected clock")
    ctx.floor("C15.CLOCK", "TTL comparisons", n_ttl, 3)
    ctx.holds("C15.CLOCK", f"{CACHE}/no-wall-clock", "clematis/engine/cache.py", "no direct wall-clock call in any function body (time.time only as a default argument)")


# -------------------------------------------------------------------- TTL
def rule_ttl_stamp(ctx) -> None:
    """Expiry is measured from the time a value was stored: in every TTL
    container each path that stores a caller-supplied value (a new entry or an
    in-place overwrite of an existing entry's value) must take a fresh
    timestamp from the injected clock on that same path."""
    m = ctx.prog.module(CACHE)
    n_sites = 0
    for cname in m.classes:
        meths = ctx.prog.methods(f"{CACHE}:{cname}")
        init = meths.get("__init__")
        if init is None or not any(_self_attr(x, "_ttl") for x in ast.walk(init.node)) or not any(_self_attr(x, "_time") for x in ast.walk(init.node)):
            continue
        # only containers that hold entries themselves (a `_d`-style map of timestamped entries)
        for mname, fn in meths.items():
            if mname.startswith("__") or "value" not in fn.params:
                continue
            cfg = ctx.cfg(fn)
            stores = []
            clock = []
            for n in cfg.nodes:
                if n.kind != "stmt" or n not in cfg.reachable_from_entry():
                    continue
                a = n.ast
                has_clock = any(isinstance(c.func, ast.Attribute) and c.func.attr == "_time" for c in node_calls(n))
                if has_clock:
                    clock.append(n)
                if isinstance(a, (ast.Assign, ast.AnnAssign)) and a.value is not None:
                    tg = a.targets if isinstance(a, ast.Assign) else [a.target]
                    uses_value = any(isinstance(x, ast.Name) and x.id == "value" for x in ast.walk(a.value))
                    into_obj = any(isinstance(t, (ast.Attribute, ast.Subscript)) for t in tg)
                    if uses_value and into_obj:
                        stores.append(n)
            delegating = [c for n in cfg.nodes for c in node_calls(n) if call_tail(c) in ("set", "put") and any(isinstance(x, ast.Name) and x.id == "value" for x in ast.walk(c))]
            if not stores:
                if delegating:
                    continue  # stores through another container's set(): that container is checked itself
                continue
            for sn in stores:
                n_sites += 1
                key = f"{fn.qual}/value-store-stamped:{src(sn.ast)[:40]}"
                if sn in clock:
                    ctx.holds("C15.TTL", key, fn.loc(sn.ast), "the value is stored together with a timestamp read from the injected clock")
                    continue
                before = cfg.path([cfg.entry], lambda n: n is sn, avoid=lambda n: n in clock)
                after = cfg.path([sn], lambda n: n is cfg.exit, avoid=lambda n: n in clock and n is not sn, edge_ok=no_exc)
                ok = before is None or after is None
                ctx.check(ok, "C15.TTL", key, fn.loc(sn.ast),
                          "every path through this value store also refreshes the entry timestamp from the injected clock",
                          "a caller-supplied value is stored on a path that never reads the injected clock: the entry keeps a stale "
                          "timestamp, so a freshly written value expires early (or late)",
                          ctx.path_witness(fn, (before or []) + (after or [])[1:]))
    ctx.floor("C15.TTL", "value stores in TTL containers", n_sites, 1)


# ------------------------------------------------------------------ EVICT
def _len_of_self(e: ast.AST) -> Optional[str]:
    if isinstance(e, ast.Call) and dotted(e.func) == "len" and len(e.args) == 1 and isinstance(e.args[0], ast.Attribute) \
            and isinstance(e.args[0].value, ast.Name) and e.args[0].value.id == "self":
        return e.args[0].attr
    return None


def _evict_conds(ctx, fn: Func, caps: Tuple[str, ...], idiom: str):
    """while-loop head nodes whose test compares len(self.<container>) with a capacity."""
    cfg = ctx.cfg(fn)
    out = []
    for n in cfg.nodes:
        if n.kind != "cond" or not isinstance(n.stmt, ast.While):
            continue
        for cmp_ in [y for y in ast.walk(n.ast) if isinstance(y, ast.Compare) and len(y.ops) == 1]:
            l, r = cmp_.left, cmp_.comparators[0]
            lenattr = _len_of_self(l)
            if lenattr is None:
                continue
            if not any(_self_attr(r, c) for c in caps):
                continue  # the bound must be the capacity itself (not cap+1, 2*cap ...)
            op = cmp_.ops[0]
            if idiom == "after" and isinstance(op, ast.Gt):
                out.append((n, lenattr))
            elif idiom == "before" and isinstance(op, ast.GtE):
                out.append((n, lenattr))
    return out


def _must_evict(ctx, fn: Func, caps, idiom, depth=2) -> bool:
    """fn's normal exit is dominated by an eviction loop head."""
    cfg = ctx.cfg(fn)
    heads = {n for n, _ in _evict_conds(ctx, fn, caps, idiom)}
    if any(cfg.dominates(h, cfg.exit) for h in heads):
        return True
    return False


def _growing_inserts(ctx, fn: Func, cont: str):
    cfg = ctx.cfg(fn)
    out = []
    for n in cfg.nodes:
        if n.kind != "stmt":
            continue
        a = n.ast
        if isinstance(a, (ast.Assign, ast.AnnAssign)):
            tgts = a.targets if isinstance(a, ast.Assign) else [a.target]
            for t in tgts:
                if isinstance(t, ast.Subscript) and _self_attr(t.value, cont):
                    out.append((n, t))
        if isinstance(a, ast.Expr) and isinstance(a.value, ast.Call) and isinstance(a.value.func, ast.Attribute) \
                and a.value.func.attr in ("append", "add", "setdefault", "appendleft") and _self_attr(a.value.func.value, cont):
            out.append((n, a.value))
    return out


def _is_update_branch(ctx, fn, node, cont) -> bool:
    """insert guarded by `key in self.<cont>` being true: no growth."""
    for e, pol, at in implied_atoms(ctx, fn, node):
        if pol and isinstance(e, ast.Compare) and len(e.ops) == 1 and isinstance(e.ops[0], ast.In) and _self_attr(e.comparators[0], cont):
            return True
    return False


def rule_evict(ctx) -> None:
    for cq, meth, cont, caps, idiom in CONTAINERS:
        methods = ctx.prog.methods(cq)
        fn = methods.get(meth)
        if fn is None:
            raise AnalysisError(f"anchor-vanished: {cq}.{meth}")
        ctx.analysed_funcs.add(fn.qual)
        cfg = ctx.cfg(fn)
        inserts = _growing_inserts(ctx, fn, cont)
        if not inserts:
            raise AnalysisError(f"anchor-vanished: no insert into self.{cont} in {fn.qual}")
        # eviction nodes: own loop heads + calls to methods of the class that must-evict
        heads = [n for n, _ in _evict_conds(ctx, fn, caps, idiom)]
        helper_nodes = []
        helper_fns: List[Func] = []
        for n in cfg.nodes:
            for c in node_calls(n):
                r = ctx.prog.callee(fn, c)
                if r and r[0] == "func" and r[1] != fn.qual:
                    callee = ctx.prog.funcs[r[1]]
                    if callee.cls == fn.cls and _must_evict(ctx, callee, caps, idiom):
                        helper_nodes.append(n)
                        helper_fns.append(callee)
        evict_nodes = set(heads) | set(helper_nodes)
        for n, t in inserts:
            key = f"{fn.qual}/insert:{src(t)[:40]}"
            if _is_update_branch(ctx, fn, n, cont):
                ctx.holds("C15.EVICT", key, fn.loc(n.ast), "update of an existing key (guarded by `key in self.%s`): no growth" % cont)
                continue
            if idiom == "after":
                p = must_pass(cfg, [n], lambda x: x is cfg.exit, lambda x: x in evict_nodes, edge_ok=no_exc, include_start=False)
                ctx.check(p is None and bool(evict_nodes), "C15.EVICT", key, fn.loc(n.ast),
                          f"every normal path from the insert passes an eviction loop `while len(self.{cont}) > cap`",
                          f"an insert into self.{cont} can return without restoring the capacity bound", ctx.path_witness(fn, p))
            else:
                dom = any(cfg.dominates(h, n) for h in evict_nodes)
                ctx.check(dom, "C15.EVICT", key, fn.loc(n.ast),
                          f"the insert is dominated by the make-room loop `while len(self.{cont}) >= cap`",
                          f"an insert into self.{cont} is not preceded by the make-room loop")
        # LRU-end discipline inside the eviction loops (own + helpers)
        loops: List[Tuple[Func, ast.While]] = [(fn, h.stmt) for h in heads]
        for hf in helper_fns:
            loops += [(hf, h.stmt) for h, _ in _evict_conds(ctx, hf, caps, idiom)]
        seen = set()
        for lf, lp in loops:
            if id(lp) in seen:
                continue
            seen.add(id(lp))
            removes = []
            for x in ast.walk(lp):
                if isinstance(x, ast.Call) and isinstance(x.func, ast.Attribute) and isinstance(x.func.value, ast.Attribute) \
                        and isinstance(x.func.value.value, ast.Name) and x.func.value.value.id == "self":
                    if x.func.attr in ("popleft",):
                        removes.append((x, "LRU"))
                    elif x.func.attr == "popitem":
                        last = kwarg(x, "last")
                        if last is None and x.args:
                            last = x.args[0]
                        removes.append((x, "LRU" if isinstance(last, ast.Constant) and last.value is False else "MRU"))
                    elif x.func.attr == "pop" and not x.args:
                        removes.append((x, "MRU"))
            k2 = f"{lf.qual}/evicts-from-lru-end"
            if not removes:
                ctx.violation("C15.EVICT", k2, lf.loc(lp), "eviction loop removes nothing from the order structure")
                continue
            bad = [r for r in removes if r[1] != "LRU"]
            ctx.check(not bad, "C15.EVICT", k2, lf.loc(lp),
                      f"eviction removes from the LRU end only ({', '.join(src(r[0]) for r in removes)})",
                      f"eviction removes from the MRU end: {', '.join(src(r[0]) for r in bad)}")
    # recency updates touch the MRU end only, in every method of the containers
    n_touch = 0
    for cq, meth, cont, caps, idiom in CONTAINERS:
        for mname, fn in ctx.prog.methods(cq).items():
            for x in walk_no_defs(fn.node):
                if isinstance(x, ast.Call) and isinstance(x.func, ast.Attribute):
                    if x.func.attr == "move_to_end":
                        n_touch += 1
                        last = kwarg(x, "last")
                        if last is None and len(x.args) > 1:
                            last = x.args[1]
                        ok = last is None or (isinstance(last, ast.Constant) and last.value is True)
                        ctx.check(ok, "C15.EVICT", f"{fn.qual}/touch-mru", fn.loc(x), "recency update moves the key to the MRU end",
                                  f"recency update moves the key to the LRU end: {src(x)}")
                    elif x.func.attr == "appendleft" and isinstance(x.func.value, ast.Attribute) and isinstance(x.func.value.value, ast.Name) \
                            and x.func.value.value.id == "self":
                        n_touch += 1
                        ctx.violation("C15.EVICT", f"{fn.qual}/touch-mru", fn.loc(x), f"key (re)inserted at the LRU end: {src(x)}")
    ctx.floor("C15.EVICT", "recency updates (move_to_end)", n_touch, 2)


RECENCY_OK = {"append", "remove", "popleft", "clear", "move_to_end", "popitem", "get", "keys", "items", "values", "copy", "index", "count", "pop", "setdefault", "update", "__contains__"}


def rule_recency_ops(ctx) -> None:
    """the recency structure (deque / OrderedDict created in __init__) of every container is only changed by operations
    that keep 'left = least recently used, right = most recently used': append / remove(key) / popleft / move_to_end /
    popitem(last=False) / keyed pop / clear.  A rotation is accepted only as rotate(-1) under the guard `q[0] == key`
    (LRU -> MRU); rotate with any other argument or guard, appendleft, insert, reverse, sort, extendleft and an
    argument-less pop() on a deque reorder or shorten it at the wrong end."""
    n_ops = 0
    for cq in sorted({c[0] for c in CONTAINERS}):
        meths = ctx.prog.methods(cq)
        init = meths.get("__init__")
        if init is None:
            continue
        rec: Dict[str, str] = {}
        for x in walk_no_defs(init.node):
            if isinstance(x, (ast.Assign, ast.AnnAssign)) and x.value is not None and isinstance(x.value, ast.Call):
                ctor = (dotted(x.value.func) or "").split(".")[-1]
                if ctor in ("deque", "OrderedDict"):
                    for t in (x.targets if isinstance(x, ast.Assign) else [x.target]):
                        if isinstance(t, ast.Attribute) and isinstance(t.value, ast.Name) and t.value.id == "self":
                            rec[t.attr] = ctor
        if not rec:
            continue
        for mname, fn in meths.items():
            if mname == "__init__":
                continue
            cfg = ctx.cfg(fn)
            rd = ctx.rd(fn)
            alias: Dict[str, str] = {}
            for d in rd.all_defs:
                if d.kind == "assign" and isinstance(d.value, ast.Attribute) and isinstance(d.value.value, ast.Name) and d.value.value.id == "self" and d.value.attr in rec:
                    alias[d.name] = d.value.attr
            for n in cfg.nodes:
                for c in node_calls(n):
                    if not isinstance(c.func, ast.Attribute):
                        continue
                    recv = c.func.value
                    attr = None
                    if isinstance(recv, ast.Attribute) and isinstance(recv.value, ast.Name) and recv.value.id == "self" and recv.attr in rec:
                        attr = recv.attr
                    elif isinstance(recv, ast.Name) and recv.id in alias:
                        attr = alias[recv.id]
                    if attr is None:
                        continue
                    n_ops += 1
                    op = c.func.attr
                    why = None
                    if op == "rotate":
                        arg = c.args[0] if c.args else None
                        minus1 = isinstance(arg, ast.UnaryOp) and isinstance(arg.op, ast.USub) and isinstance(arg.operand, ast.Constant) and arg.operand.value == 1
                        names = {f"self.{attr}"} | {a for a, t in alias.items() if t == attr}
                        guard = any(pol and any(t.replace(" ", "").startswith(f"{nm}[0]==") for nm in names) for t, pol in cfg.facts(n))
                        if not (minus1 and guard):
                            why = f"`{src(c)}` rotates the recency queue" + ("" if minus1 else " to the right (MRU -> LRU end)") + ("" if guard else " without the guard `q[0] == key`")
                    elif op in ("appendleft", "extendleft", "insert", "reverse", "sort"):
                        why = f"`{src(c)[:40]}` reorders / inserts at the LRU end"
                    elif op == "pop" and rec[attr] == "deque" and not c.args:
                        why = f"`{src(c)}` removes the MOST recently used entry"
                    elif op not in RECENCY_OK:
                        why = f"`{src(c)[:40]}`: operation not known to preserve the LRU -> MRU order"
                    if why:
                        ctx.violation("C15.EVICT", f"{fn.qual}/recency-op:{op}", fn.loc(c), why + ": the next eviction no longer removes the least recently used key")
    ctx.floor("C15.EVICT", "operations on recency structures", n_ops, 12)
    ctx.holds("C15.EVICT", "containers/recency-ops", "clematis/engine", f"{n_ops} operations on deque / OrderedDict recency structures keep the LRU(left) -> MRU(right) order")


def rule_zero_config(ctx) -> None:
    """capacity / TTL arguments of the cache constructors are Optional: 0 is a setting (disabled cache, no expiry), None means
    'not given'.  Alias resolution must tell them apart with `is None`, in the constructor and in any helper it hands them to."""
    from ..zero import ZeroIsValue
    n_opt = 0
    for mn in (CACHE, "clematis.engine.util.lru_bytes", "clematis.engine.util.lru_det", "clematis.engine.util.ring"):
        m = ctx.prog.module(mn)
        for fn in m.funcs.values():
            if fn.name != "__init__":
                continue
            a = fn.node.args
            allp = a.posonlyargs + a.args + a.kwonlyargs
            defaults = [None] * (len(a.posonlyargs + a.args) - len(a.defaults)) + list(a.defaults) + list(a.kw_defaults)
            opt = {p.arg for p, d in zip(allp, defaults) if isinstance(d, ast.Constant) and d.value is None and p.arg not in ("on_evict", "time_fn")
                   and (p.annotation is None or "int" in src(p.annotation) or "float" in src(p.annotation))}
            if not opt:
                continue
            n_opt += len(opt)
            z = ZeroIsValue(ctx, fn, lambda e: False, opt_params=opt)
            bad = list(z.conflations()) + list(z.callee_conflations())
            ctx.check(not bad, "C15.ACCT", f"{fn.qual}/zero-config-is-a-value", fn.loc(bad[0][0]) if bad else fn.loc(),
                      f"optional size / TTL arguments {sorted(opt)} are told apart from 'not given' by `is None` only",
                      (f"an optional size / TTL argument is tested by {bad[0][2]} (`{bad[0][1][:60]}`): an explicit 0 (disabled cache / never expire) is treated as 'not given', "
                       "so the cache falls back to the default capacity or TTL and holds / expires entries against its configuration") if bad else "")
    ctx.floor("C15.ACCT", "optional numeric constructor arguments of the caches", n_opt, 3)


# ------------------------------------------------------------------- ACCT
def rule_acct(ctx) -> None:
    cq = "clematis.engine.util.lru_bytes:LRUBytes"
    methods = ctx.prog.methods(cq)
    put = methods.get("put")
    clear = methods.get("clear")
    if put is None or clear is None:
        raise AnalysisError("anchor-vanished: LRUBytes.put/clear")
    ctx.analysed_funcs.update({put.qual, clear.qual})
    # clear resets all three
    cleared = set()
    for x in walk_no_defs(clear.node):
        if isinstance(x, ast.Call) and isinstance(x.func, ast.Attribute) and x.func.attr == "clear" and isinstance(x.func.value, ast.Attribute):
            cleared.add(x.func.value.attr)
        if isinstance(x, ast.Assign):
            for t in x.targets:
                if isinstance(t, ast.Attribute) and isinstance(x.value, ast.Constant) and x.value.value == 0:
                    cleared.add(t.attr)
                if isinstance(t, ast.Attribute) and isinstance(x.value, (ast.Dict, ast.Call)):
                    cleared.add(t.attr)
    ctx.check({"_q", "_map", "_bytes"} <= cleared, "C15.ACCT", f"{clear.qual}/resets-all", clear.loc(),
              "clear() resets _q, _map and _bytes", f"clear() leaves {sorted({'_q', '_map', '_bytes'} - cleared)} untouched")
    cfg = ctx.cfg(put)
    rd = ctx.rd(put)
    # every removal from _map inside put is followed (before the loop head / exit) by a byte decrement using the popped cost
    n_rm = 0
    for n in cfg.nodes:
        if n.kind != "stmt":
            continue
        pops = [c for c in node_calls(n) if isinstance(c.func, ast.Attribute) and c.func.attr in ("pop", "popitem") and _self_attr(c.func.value, "_map")]
        dels = isinstance(n.ast, ast.Delete) and any(isinstance(t, ast.Subscript) and _self_attr(t.value, "_map") for t in n.ast.targets)
        if not pops and not dels:
            continue
        n_rm += 1

        def is_dec(x):
            if x.kind != "stmt" or not isinstance(x.ast, ast.AugAssign) or not isinstance(x.ast.op, ast.Sub):
                return False
            t = x.ast.target
            return _self_attr(t, "_bytes") or (isinstance(t, ast.Name) and t.id in byte_locals)

        byte_locals = set()
        for d in rd.all_defs:
            if d.kind == "assign" and d.value is not None and _mentions_self_attr(d.value, "_bytes"):
                byte_locals.add(d.name)
        heads = [h for h in cfg.nodes if h.kind == "cond" and isinstance(h.stmt, ast.While)]
        p = must_pass(cfg, [n], lambda x: x is cfg.exit or x in heads, is_dec, edge_ok=no_exc, include_start=False)
        ctx.check(p is None, "C15.ACCT", f"{put.qual}/removal-decrements-bytes", put.loc(n.ast),
                  "each removal from _map is followed by a decrement of the byte total before the next iteration/return",
                  "a removal from _map is not matched by a byte-total decrement on some path", ctx.path_witness(put, p))
    ctx.floor("C15.ACCT", "removals from _map in put", n_rm, 1)
    # the final byte total is committed: every normal exit after an insert passes an assignment to self._bytes
    inserts = _growing_inserts(ctx, put, "_map")
    ctx.floor("C15.ACCT", "inserts into _map", len(inserts), 2)

    def sets_bytes(x):
        return x.kind == "stmt" and isinstance(x.ast, (ast.Assign, ast.AugAssign)) and any(
            _self_attr(t, "_bytes") for t in (x.ast.targets if isinstance(x.ast, ast.Assign) else [x.ast.target]))

    cost_p = put.params[3] if len(put.params) >= 4 else None

    def adds_cost(x) -> bool:
        # self._bytes = <... cost ...>   or   self._bytes += <... cost ...>
        if not sets_bytes(x):
            return False
        if isinstance(x.ast, ast.AugAssign):
            return isinstance(x.ast.op, ast.Add) and cost_p in (rd.slice([x.ast.value], x).params | {y.id for y in ast.walk(x.ast.value) if isinstance(y, ast.Name)})
        return True

    for n, t in inserts:
        p = must_pass(cfg, [n], lambda x: x is cfg.exit, adds_cost, edge_ok=no_exc, include_start=False)
        ctx.check(p is None, "C15.ACCT", f"{put.qual}/insert-commits-bytes:{'upd' if _is_update_branch(ctx, put, n, '_map') else 'new'}", put.loc(n.ast),
                  "every path from the insert to return commits the new byte total to self._bytes",
                  "an insert can return without committing the byte total", ctx.path_witness(put, p))
        if _is_update_branch(ctx, put, n, "_map"):
            # old cost is subtracted on the update branch before the overwrite
            decs = [x for x in cfg.nodes if x.kind == "stmt" and isinstance(x.ast, ast.AugAssign) and isinstance(x.ast.op, ast.Sub)
                    and _self_attr(x.ast.target, "_bytes") and cfg.dominates(x, n)]
            ctx.check(bool(decs), "C15.ACCT", f"{put.qual}/update-subtracts-old-cost", put.loc(n.ast),
                      "the update branch subtracts the old cost before storing the new one",
                      "the update branch overwrites the entry without subtracting its old cost")
    # the committed total includes the new item's cost
    commits = [x for x in cfg.nodes if sets_bytes(x) and (isinstance(x.ast, ast.Assign) or (isinstance(x.ast, ast.AugAssign) and isinstance(x.ast.op, ast.Add)))]
    okc = False
    for x in commits:
        sl = rd.slice([x.ast.value], x)
        params = sl.params | {y.id for y in ast.walk(x.ast.value) if isinstance(y, ast.Name)}
        if len(put.params) >= 4 and put.params[3] in params:
            okc = True
    # re-entrancy: the eviction loop calls the user's on_evict, which may put into this same cache.  A running total kept in
    # a local and written back after the loop (`self._bytes = local`) overwrites what that nested put accounted for.
    cb_nodes = [x for x in cfg.nodes if any(isinstance(c.func, ast.Attribute) and c.func.attr == "on_evict" for c in node_calls(x))]
    writeback = [x for x in cfg.nodes if sets_bytes(x) and isinstance(x.ast, ast.Assign) and isinstance(x.ast.value, ast.Name) and rd.is_local(x.ast.value.id)
                 and any(x in cfg.reach([c], include_start=False) for c in cb_nodes)]
    ctx.check(not writeback, "C15.ACCT", f"{put.qual}/no-write-back-after-callback", put.loc(writeback[0].ast) if writeback else put.loc(),
              "the byte total lives on the instance while the eviction loop (and its on_evict callback) runs",
              (f"`{src(writeback[0].ast)}` writes a local running total back after the eviction loop has called on_evict: a callback that puts into this cache updates self._bytes in between and that "
               "update is overwritten - the cache then holds more bytes than max_bytes while size_bytes() says it does not") if writeback else "")
    ctx.check(okc, "C15.ACCT", f"{put.qual}/total-includes-new-cost", put.loc(),
              "the committed byte total depends on the new item's cost", "the committed byte total ignores the new item's cost")
    # zero capacities short-circuit before any insert (all containers that must act disabled)
    for cq2, meth, cont, caps, idiom in CONTAINERS:
        fn = ctx.prog.methods(cq2)[meth]
        for n, t in _growing_inserts(ctx, fn, cont):
            ok = False
            for e, pol, at in implied_atoms(ctx, fn, n):
                s = src(e)
                if pol and s == "self.enabled":
                    ok = True
                if (not pol) and all(c in s for c in caps) and ("== 0" in s or "<= 0" in s):
                    ok = True
                if pol and all(c in s for c in caps) and "> 0" in s:
                    ok = True
            ctx.check(ok, "C15.ACCT", f"{fn.qual}/disabled-short-circuit:{src(t)[:30]}", fn.loc(n.ast),
                      "inserts are dominated by the capacity>0 / enabled test (zero capacity acts as disabled)",
                      "an insert is reachable with zero capacity")


# ------------------------------------------------------------------ MERGE
def rule_merge(ctx) -> None:
    fn = ctx.func(CACHE + ":merge_caches_deterministic")
    cfg = ctx.cfg(fn)
    rd = ctx.rd(fn)
    fors = [n for n in cfg.nodes if n.kind == "iter"]
    ctx.floor("C15.MERGE", "loops in merge_caches_deterministic", len(fors), 2)
    params = fn.params
    for n in fors:
        it = n.ast.iter
        inl = rd.inline(it, n)
        ok = False
        why = src(inl)[:80]
        keyname = None
        if isinstance(inl, ast.Call) and dotted(inl.func) == "sorted" and kwarg(inl, "key") is not None:
            ok = True
            keyname = src(kwarg(inl, "key"))
        elif isinstance(it, ast.Name):
            # list sorted in place before the loop: a .sort(key=...) on the same name dominates the loop
            for x in cfg.nodes:
                if x.kind == "stmt" and isinstance(x.ast, ast.Expr) and isinstance(x.ast.value, ast.Call):
                    c = x.ast.value
                    if isinstance(c.func, ast.Attribute) and c.func.attr == "sort" and isinstance(c.func.value, ast.Name) \
                            and c.func.value.id == it.id and kwarg(c, "key") is not None and cfg.dominates(x, n):
                        ok = True
                        keyname = src(kwarg(c, "key"))
        ctx.check(ok, "C15.MERGE", f"{fn.qual}/sorted-iteration:{src(n.ast.target)}", fn.loc(n.ast),
                  f"iterates in sorted order (key={keyname})", f"iterates `{why}` without sorting: merge order depends on the caller's order")
        if ok and keyname:
            uses_param = any(p in keyname for p in params if p.endswith("_key"))
            ctx.check(uses_param, "C15.MERGE", f"{fn.qual}/order-key-param:{src(n.ast.target)}", fn.loc(n.ast),
                      "the sort key is the caller-supplied order key", f"the sort key `{keyname}` ignores the supplied order-key parameter")
    puts = find_calls(ctx, fn, lambda c, nm: call_tail(c) == "put")
    ctx.floor("C15.MERGE", "target.put sites", len(puts), 1)
    for n, c in puts:
        ok = False
        for e, pol, at in implied_atoms(ctx, fn, n):
            if (not pol) and isinstance(e, ast.Compare) and isinstance(e.ops[0], ast.In):
                ok = True
        ctx.check(ok, "C15.MERGE", f"{fn.qual}/first-wins", fn.loc(c), "target.put only when the key is not yet in target (first wins)",
                  "target.put can overwrite an earlier worker's value")


def eviction_loops(ctx) -> List[Tuple[str, Func, ast.While, Tuple[str, ...], str]]:
    """(class qual, method, loop, capacity attrs, container attr) for every `while` of the bounded containers that pops"""
    from .. import hazards
    out = []
    for cq, meth, cont, caps, idiom in CONTAINERS:
        for mname, fn in sorted(ctx.prog.methods(cq).items()):
            for lp in [x for x in walk_no_defs(fn.node) if isinstance(x, ast.While)]:
                if hazards.pops_in_loop(lp):
                    out.append((cq, fn, lp, caps, cont))
    return out


def rule_ring_pairing(ctx) -> None:
    """DedupeRing keeps a deque of slots and a reference count per value; membership is answered from the counts.  The two stay
    consistent ("internally consistent for every sequence of operations") only if every method that lowers or drops a count also
    takes a slot out of the deque, and every method that raises a count puts one in."""
    RING = "clematis.engine.util.ring:DedupeRing"
    n_m = 0
    meths = ctx.prog.methods(RING)

    def _local(fn):
        lowers = bool([x for x in walk_no_defs(fn.node) if isinstance(x, ast.Call) and isinstance(x.func, ast.Attribute) and x.func.attr in ("pop", "clear") and src(x.func.value) == "self._ref"])
        # c = self._ref.get(x) ...; c -= 1 / c - 1 ...; self._ref[x] = c   (a store of a decremented count)
        dec = any(isinstance(x, ast.AugAssign) and isinstance(x.op, ast.Sub) for x in walk_no_defs(fn.node)) or any(isinstance(x, ast.BinOp) and isinstance(x.op, ast.Sub) and "_ref" in src(x) for x in walk_no_defs(fn.node))
        raises_ = any(isinstance(x, ast.Assign) and any(isinstance(t, ast.Subscript) and src(t.value) == "self._ref" for t in x.targets) and isinstance(x.value, ast.BinOp) and isinstance(x.value.op, ast.Add)
                      for x in walk_no_defs(fn.node))
        q_out = any(isinstance(x, ast.Call) and isinstance(x.func, ast.Attribute) and x.func.attr in ("popleft", "remove", "clear", "pop") and src(x.func.value) == "self._q" for x in walk_no_defs(fn.node))
        q_in = any(isinstance(x, ast.Call) and isinstance(x.func, ast.Attribute) and x.func.attr in ("append", "appendleft") and src(x.func.value) == "self._q" for x in walk_no_defs(fn.node))
        calls = {x.func.attr for x in walk_no_defs(fn.node) if isinstance(x, ast.Call) and isinstance(x.func, ast.Attribute) and isinstance(x.func.value, ast.Name) and x.func.value.id == "self" and x.func.attr in meths}
        return [lowers, dec, raises_, q_out, q_in], calls

    loc = {m: _local(f) for m, f in meths.items()}
    # a private helper (`_set_ref`) that other methods call is judged as part of its callers: flags are closed over self-calls
    called_by_sibling = {c for m, (_, cs) in loc.items() for c in cs if c != m}

    def _closed(m, seen=()):
        fl = list(loc[m][0])
        for c in loc[m][1]:
            if c not in seen and c != m and c.startswith("_") and not c.startswith("__"):
                fl = [a or b for a, b in zip(fl, _closed(c, seen + (m,)))]
        return fl

    for mname, fn in sorted(meths.items()):
        if mname in ("__init__", "contains", "__contains__", "__len__", "tolist", "extend"):
            continue
        if mname.startswith("_") and not mname.startswith("__") and mname in called_by_sibling:
            continue
        lowers, dec, raises_, q_out, q_in = _closed(mname)
        if not (lowers or dec or raises_):
            continue
        n_m += 1
        ok = (not (lowers or dec) or q_out) and (not raises_ or q_in)
        ctx.check(ok, "C15.ACCT", f"{fn.qual}/count-and-slot-move-together", fn.loc(),
                  "every change of a reference count is paired with the slot entering / leaving the deque",
                  f"{mname} lowers a reference count without taking a slot out of the deque (or raises one without adding a slot): the dead slot is evicted later and lowers the count of a live copy "
                  "again, so membership is lost for a value that is physically in the ring")
    ctx.floor("C15.ACCT", "DedupeRing methods that change reference counts", n_m, 3)


def rule_evict_completes(ctx) -> None:
    """the eviction loop is what restores `size <= cap`; it does so only if it runs until its own condition is false.  A break,
    a return, or an exception from the user's eviction callback that is swallowed by a handler *around* the loop (instead of
    around the callback) ends it early: put() returns normally and the container stays over capacity."""
    from .. import hazards
    loops = eviction_loops(ctx)
    ctx.floor("C15.EVICT", "eviction loops of the bounded containers", len(loops), 5)
    for cq, fn, lp, caps, cont in loops:
        ctx.analysed_funcs.add(fn.qual)
        esc = hazards.loop_escapes(ctx, fn, lp)
        key = f"{fn.qual}/eviction-runs-to-its-condition"
        if esc:
            kind, node = esc[0]
            why = {"break": "a `break` leaves the loop", "return": "a `return` leaves the loop",
                   "swallowed-exception": f"`{src(node)[:40]}` (a caller-supplied callback) can raise, and the handler that swallows the exception encloses the whole loop"}[kind]
            ctx.violation("C15.EVICT", key, fn.loc(node), f"{why} while `{src(lp.test)[:60]}` may still be true: the remaining evictions are skipped, the method returns normally and "
                          f"self.{cont} stays above its capacity")
        else:
            ctx.holds("C15.EVICT", key, fn.loc(lp), "the loop ends only when its condition is false (no break / return; callbacks are guarded inside the body)")
    ctx.info("C15.EVICT", "positive-control/loop-escapes", "sa/hazards.py", hazards.controls(ctx, "clematis.engine.health", ["loop"]))


def rule_capacity_domain(ctx) -> None:
    """"act as disabled when capacities are zero, for every sequence of operations" and all capacity settings: the eviction loop
    `while len(c) > cap: pop` is only safe for cap >= 0 - for a negative capacity it pops from an empty container and raises.
    Sibling agreement: every bounded container keeps its capacity attributes >= 0 by construction (`max(0, int(cap))`), or
    its loop test implies the container is non-empty.  And the namespaced manager's lookup does not allocate: get() must not
    create the namespace object it is asked about (a disabled manager otherwise grows without bound under reads)."""
    from .. import hazards
    n = 0
    for cq, fn, lp, caps, cont in eviction_loops(ctx):
        lb = hazards.init_lower_bounds(ctx, cq)
        for cap in caps:
            attr = f"self.{cap}"
            if attr not in src(lp.test):
                continue
            n += 1
            nonneg = lb.get(attr, -1) >= 0
            implied = hazards.nonempty_implied(lp.test, f"self.{cont}", nonneg=[a for a, b in lb.items() if b >= 0], pos=[a for a, b in lb.items() if b >= 1])
            ctx.check(nonneg or implied, "C15.EVICT", f"{fn.qual}/capacity-is-never-negative:{cap}", fn.loc(lp), f"{attr} is kept >= 0 by the constructor (or the loop implies a non-empty container)",
                      f"{attr} is taken from the constructor argument as it is: for a negative capacity `{src(lp.test)[:60]}` stays true on the empty container and the pop raises IndexError / KeyError - "
                      "the sibling containers clamp with max(0, int(cap)) and act as disabled")
    ctx.floor("C15.EVICT", "capacity attributes guarding an eviction loop", n, 5)
    mg = ctx.prog.methods(CACHE + ":CacheManager")
    g = mg.get("get")
    if g is None:
        raise AnalysisError("anchor-vanished: CacheManager.get")
    allocs = [x for x in walk_no_defs(g.node) if isinstance(x, ast.Call) and ((r := ctx.prog.callee(g, x)) and r[1] in ctx.prog.funcs
              and any(isinstance(y, ast.Assign) and any(isinstance(t, ast.Subscript) and src(t.value) == "self._ns" for t in y.targets) for y in walk_no_defs(ctx.prog.funcs[r[1]].node)))]
    allocs += [x for x in walk_no_defs(g.node) if isinstance(x, ast.Assign) and any(isinstance(t, ast.Subscript) and src(t.value) == "self._ns" for t in x.targets)]
    ctx.check(not allocs, "C15.EVICT", f"{g.qual}/lookup-does-not-allocate", g.loc(allocs[0]) if allocs else g.loc(), "get() reads the namespace table without adding to it",
              f"`{src(allocs[0])[:50] if allocs else ''}` creates and keeps a namespace cache for whatever name get() is asked about: a manager - also one built with max_entries=0, 'disabled' - grows by one "
              "retained object per distinct name under reads alone")


def run(ctx) -> None:
    rule_capacity_domain(ctx)
    rule_evict_completes(ctx)
    rule_ring_pairing(ctx)
    rule_lock(ctx)
    rule_clock(ctx)
    rule_ttl_stamp(ctx)
    rule_evict(ctx)
    rule_recency_ops(ctx)
    rule_acct(ctx)
    rule_zero_config(ctx)
    rule_merge(ctx)
