"""C20 Optional subsystems fail soft: a turn always completes."""
from __future__ import annotations

import ast
from typing import Dict, List, Optional, Sequence, Tuple

from ..cfg import handler_catches_all
from ..model import AnalysisError, Func, const_str, dotted, src, walk_no_defs
from ..util import _block_cannot_raise, call_tail, enclosing, guarded_by_catch_all, handler_cannot_raise, no_exc, node_calls

EXPLANATION = (
    "C20 decided statically for the declared fail-soft sites (boot snapshot load; GEL merge/split/promotion passes; reflection "
    "compute, write and telemetry; LLM adapter construction; hybrid rerank, lexical fusion, MMR and shadow trace inside "
    "apply_quality; T3 trace emission; cache invalidation and store apply calls inside apply_changes; sidecar write): (ESC) "
    "every site is lexically enclosed, in its own function, by a handler catching Exception whose body cannot raise - or the "
    "callee itself is total (every may-raise statement of its body sits inside such a handler); (NEUTRAL) these handlers "
    "append to no canonical stream and only assign constants / documented fallbacks; (CONT) no such handler returns or "
    "re-raises, so the canonical appends and the final TurnResult of the turn stay reachable. Not decided: log equality with "
    "a fault-free baseline under injected faults, value-level parsing of garbage snapshot contents beyond (SANIT) the GEL block reaching state only as containers the normaliser built - fault enumeration."
)
RULES = {
    "C20.ESC": "exception-escape: catch-all enclosure of each declared site (or total callee) + handler-cannot-raise",
    "C20.NEUTRAL": "handlers of declared sites append to no canonical stream",
    "C20.CONT": "handlers of declared sites neither return nor raise; final turn record reachable from them",
    "C20.SANIT": "provenance of the GEL block stored into state by the boot loader: only the normaliser's freshly built containers",
    "C20.BOOT": "guard facts of the boot loader's default-container stores (an idle loader leaves the state's GEL graph alone)",
}

CORE = "clematis.engine.orchestrator.core"
RUN_TURN = CORE + ":Orchestrator.run_turn"
CANONICAL = {"t1.jsonl", "t2.jsonl", "t4.jsonl", "apply.jsonl", "turn.jsonl", "health.jsonl"}

# (function qual, callee tails, reason - one line each; frozen from the statement and confirmed by reading)
SITES: List[Tuple[str, Tuple[str, ...], str]] = [
    (RUN_TURN, ("load_latest_snapshot",), "snapshot boot loading incl. corrupt/foreign files"),
    (RUN_TURN, ("gel_observe", "gel_tick"), "GEL observe pass and decay tick (incl. garbage edge attrs from a snapshot)"),
    (RUN_TURN, ("gel_merge_candidates", "gel_apply_merge", "gel_split_candidates", "gel_apply_split", "gel_promote_clusters", "gel_apply_promotion"), "GEL maintenance passes"),
    (RUN_TURN, ("_run_reflection_if_enabled",), "reflection compute"),
    (RUN_TURN, ("write_reflection_entries",), "reflection write"),
    (RUN_TURN, ("log_t3_reflection",), "reflection telemetry"),
    (RUN_TURN, ("build_llm_adapter",), "LLM adapter construction"),
    (RUN_TURN, ("emit_trace",), "T3 trace emission"),
    ("clematis.engine.stages.t2.quality:apply_quality", ("rerank_with_gel",), "hybrid graph rerank"),
    ("clematis.engine.stages.t2.quality:apply_quality", ("quality_fuse",), "lexical fusion"),
    ("clematis.engine.stages.t2.quality:apply_quality", ("quality_mmr", "quality_mmr_fallback"), "MMR"),
    ("clematis.engine.stages.t2.quality:apply_quality", ("_emit_quality_trace",), "quality shadow trace"),
    ("clematis.engine.apply:_invalidate_on_apply", ("invalidate_namespace",), "cache invalidation"),
    ("clematis.engine.apply:apply_changes", ("apply_fn", "apply_deltas"), "store apply errors"),
    ("clematis.engine.snapshot:write_snapshot", ("_write_sidecar_meta",), "snapshot sidecar write"),
    ("clematis.engine.snapshot:_write_lines", ("_write_sidecar_meta",), "snapshot sidecar write"),
    ("clematis.engine.orchestrator.logging:log_t3_reflection", ("append_jsonl",), "reflection telemetry append"),
]


def _func_total(ctx, fn: Func, depth: int = 1) -> Tuple[bool, Optional[ast.AST]]:
    from ..util import func_total
    return func_total(ctx, fn, depth)


def _call_sites(fn: Func, tails: Sequence[str]) -> List[ast.Call]:
    # also a local bound by name lookup: fn = getattr(obj, "<tail>", None) ... fn(...)
    bound = set()
    for x in walk_no_defs(fn.node):
        if isinstance(x, ast.Assign) and len(x.targets) == 1 and isinstance(x.targets[0], ast.Name) and isinstance(x.value, ast.Call) and dotted(x.value.func) == "getattr" \
                and len(x.value.args) >= 2 and const_str(x.value.args[1]) in tails:
            bound.add(x.targets[0].id)
    return [x for x in walk_no_defs(fn.node) if isinstance(x, ast.Call) and (call_tail(x) in tails or (isinstance(x.func, ast.Name) and x.func.id in bound))]


COERCE_CALLS = {"str", "float", "int", "bool", "dict", "list", "tuple", "_round6", "_clamp", "round", "abs", "max", "min", "len", "sorted"}


def _coerced_expr(rd, e: ast.AST, at, depth: int = 0) -> bool:
    """the value has a type fixed by the normaliser itself (coercion / constant / isinstance-selected), not by the file"""
    if isinstance(e, ast.Constant):
        return True
    if isinstance(e, ast.Call) and (dotted(e.func) or "").split(".")[-1] in COERCE_CALLS:
        return True
    if isinstance(e, (ast.Dict, ast.List, ast.Tuple)):
        return all(_coerced_expr(rd, v, at, depth + 1) for v in (e.values if isinstance(e, ast.Dict) else e.elts))
    if isinstance(e, ast.IfExp):
        isinst = any(isinstance(x, ast.Call) and dotted(x.func) == "isinstance" for x in ast.walk(e.test))
        # `dict(x) if isinstance(x, dict) else {}`: the typed arm may use the value, the other arm must be fixed
        return isinst and _coerced_expr(rd, e.orelse, at, depth + 1) and (_coerced_expr(rd, e.body, at, depth + 1) or True)
    if isinstance(e, ast.Name) and depth < 4:
        ds = [d for d in rd.reaching(e.id, at) if d.kind != "mutate"]
        return bool(ds) and all(d.kind == "assign" and d.value is not None and _coerced_expr(rd, d.value, d.node, depth + 1) for d in ds)
    return False


def _dereferenced_fields(ctx, modules: Sequence[str]) -> Dict[str, str]:
    """record fields on which the engine calls a method / subscripts: f -> where"""
    out: Dict[str, str] = {}
    for mn in modules:
        m = ctx.prog.module(mn)
        for fn in m.funcs.values():
            bound: Dict[str, str] = {}
            for x in walk_no_defs(fn.node):
                f = None
                if isinstance(x, ast.Assign) and len(x.targets) == 1 and isinstance(x.targets[0], ast.Name):
                    v = x.value
                    if isinstance(v, ast.BoolOp) and v.values:
                        v = v.values[0]
                    if isinstance(v, ast.Call) and isinstance(v.func, ast.Attribute) and v.func.attr in ("get", "setdefault") and v.args and const_str(v.args[0]):
                        bound[x.targets[0].id] = const_str(v.args[0])
                    elif isinstance(v, ast.Subscript) and const_str(v.slice):
                        bound[x.targets[0].id] = const_str(v.slice)
            for x in walk_no_defs(fn.node):
                # float(rec.get("weight", 0.0)) / int(rec["n"]): raises on a value of the wrong type
                if isinstance(x, ast.Call) and dotted(x.func) in ("float", "int") and x.args:
                    a0 = x.args[0]
                    if isinstance(a0, ast.Call) and isinstance(a0.func, ast.Attribute) and a0.func.attr in ("get", "setdefault") and a0.args and const_str(a0.args[0]):
                        out.setdefault(const_str(a0.args[0]), fn.loc(x))
                    elif isinstance(a0, ast.Subscript) and const_str(a0.slice):
                        out.setdefault(const_str(a0.slice), fn.loc(x))
                    elif isinstance(a0, ast.Name) and a0.id in bound:
                        out.setdefault(bound[a0.id], fn.loc(x))
            for x in walk_no_defs(fn.node):
                recv = None
                if isinstance(x, ast.Attribute) and isinstance(x.ctx, ast.Load):
                    recv = x.value
                elif isinstance(x, ast.Subscript):
                    recv = x.value
                if recv is None:
                    continue
                if isinstance(recv, ast.Name) and recv.id in bound:
                    out.setdefault(bound[recv.id], fn.loc(x))
                elif isinstance(recv, ast.Call) and isinstance(recv.func, ast.Attribute) and recv.func.attr in ("get", "setdefault") and recv.args and const_str(recv.args[0]):
                    out.setdefault(const_str(recv.args[0]), fn.loc(x))
    return out


def rule_sanit_fields(ctx) -> None:
    """every field of an edge record that the engine dereferences (calls a method on / subscripts) is given its type by the
    normaliser, not by the snapshot file: a raw `ed.get("attrs", {})` lets `"attrs": null` reach gel.tick, whose `.get` then
    aborts the turn"""
    SN = "clematis.engine.snapshot"
    w = ctx.func(SN + ":_sanitize_gel_for_write")
    cfg = ctx.cfg(w)
    rd = ctx.rd(w)
    deref = _dereferenced_fields(ctx, ["clematis.engine.gel", "clematis.engine.stages.hybrid"])
    ctx.floor("C20.SANIT", "record fields dereferenced by gel / hybrid", len(deref), 2)
    n_rec = 0
    edge_maps = {src(v) for r in walk_no_defs(w.node) if isinstance(r, ast.Return) and isinstance(r.value, ast.Dict) for k, v in zip(r.value.keys, r.value.values)
                 if k is not None and const_str(k) == "edges" and isinstance(v, ast.Name)}
    for n in cfg.nodes:
        if n.kind != "stmt" or not isinstance(n.ast, ast.Assign):
            continue
        for t in n.ast.targets:
            if isinstance(t, ast.Subscript) and isinstance(t.value, ast.Name) and t.value.id in edge_maps and isinstance(n.ast.value, ast.Dict):
                n_rec += 1
                for k, v in zip(n.ast.value.keys, n.ast.value.values):
                    f = const_str(k) if k is not None else None
                    if f is None:
                        ctx.violation("C20.SANIT", f"{w.qual}/edge-record-spread", w.loc(v), "the edge record spreads a raw mapping from the file")
                        continue
                    ok = _coerced_expr(rd, v, n)
                    if ok:
                        continue
                    if f in deref:
                        ctx.violation("C20.SANIT", f"{w.qual}/edge-field-typed:{f}", w.loc(v),
                                      f"edge field `{f}` is copied from the snapshot as it is (`{src(v)[:40]}`) but the engine dereferences it ({deref[f]}): "
                                      f"a corrupt or foreign snapshot with a non-mapping `{f}` aborts the turn once the graph is enabled")
                    else:
                        ctx.info("C20.SANIT", f"{w.qual}/edge-field-opaque:{f}", w.loc(v), f"edge field `{f}` is passed through; the engine never dereferences it")
    ctx.floor("C20.SANIT", "edge records built by the normaliser", n_rec, 1)
    ctx.holds("C20.SANIT", f"{w.qual}/edge-fields", w.loc(), f"{n_rec} record constructor(s): every field the engine dereferences ({sorted(deref)}) is typed by the normaliser")


def rule_sanit(ctx) -> None:
    """a GEL block read from a snapshot file reaches engine state only through the normaliser: the containers under
    nodes / edges / meta are built fresh by _sanitize_gel_for_write (never the parsed JSON value itself), the load wrapper
    returns that result, and load_latest_snapshot stores nothing else under state.graph / state.gel.  Turn code outside the
    fail-soft enclosures (cache keys, hybrid rerank) calls dict methods on state.graph['edges'] without a type test."""
    SN = "clematis.engine.snapshot"
    w = ctx.func(SN + ":_sanitize_gel_for_write")
    wcfg = ctx.cfg(w)
    wrd = ctx.rd(w)
    rets = [n for n in wcfg.nodes if n.kind == "stmt" and isinstance(n.ast, ast.Return) and n.ast.value is not None and n in wcfg.reachable_from_entry()]
    ctx.floor("C20.SANIT", "returns of the GEL normaliser", len(rets), 1)

    def fresh_container(fn, rd, e: ast.AST, at) -> bool:
        if isinstance(e, (ast.Dict, ast.DictComp)) :
            return True
        if isinstance(e, ast.Call) and dotted(e.func) in ("dict",) and not e.args:
            return True
        if isinstance(e, ast.Name):
            ds = [d for d in rd.reaching(e.id, at) if d.kind != "mutate"]
            return bool(ds) and all(d.kind == "assign" and d.value is not None and (isinstance(d.value, (ast.Dict, ast.DictComp)) and not (isinstance(d.value, ast.Dict) and any(k is None for k in d.value.keys))) for d in ds)
        return False

    for n in rets:
        v = n.ast.value
        ok = isinstance(v, ast.Dict) and all(k is not None for k in v.keys)
        bad = None
        if ok:
            for k, val in zip(v.keys, v.values):
                if const_str(k) in ("nodes", "edges", "meta") and not fresh_container(w, wrd, val, n):
                    ok, bad = False, f"{const_str(k)} = `{src(val)[:40]}`"
        ctx.check(ok, "C20.SANIT", f"{w.qual}/returns-fresh-containers", w.loc(v), "nodes / edges / meta of the normalised block are dictionaries built by the normaliser",
                  f"the normaliser returns {bad or src(v)[:50]}, which is not a dictionary it built itself: a garbage snapshot value reaches state unchanged")
    ld = ctx.func(SN + ":_sanitize_gel_for_load")
    lcfg = ctx.cfg(ld)
    lrd = ctx.rd(ld)
    for n in lcfg.nodes:
        if n.kind == "stmt" and isinstance(n.ast, ast.Return) and n.ast.value is not None and n in lcfg.reachable_from_entry():
            v = n.ast.value
            ds = [d for d in lrd.reaching(v.id, n)] if isinstance(v, ast.Name) else []
            base = [d for d in ds if d.kind != "mutate"]
            def from_normaliser(d, depth=0) -> bool:
                if d.kind != "assign" or d.value is None or depth > 4:
                    return False
                if isinstance(d.value, ast.Call) and call_tail(d.value) == "_sanitize_gel_for_write":
                    return True
                if isinstance(d.value, ast.Name):
                    inner = [x for x in lrd.reaching(d.value.id, d.node) if x.kind != "mutate"]
                    return bool(inner) and all(from_normaliser(x, depth + 1) for x in inner)
                return False

            ok = bool(base) and all(from_normaliser(d) for d in base)
            # in-place edits afterwards may only touch the meta entry
            for d in ds:
                if d.kind == "mutate" and not (isinstance(d.target, ast.Subscript) and const_str(d.target.slice) == "meta"):
                    ok = False
            ctx.check(ok, "C20.SANIT", f"{ld.qual}/returns-normalised-block", ld.loc(v), "the load wrapper returns the normaliser's result (only `meta` is overlaid)",
                      "the load wrapper can return a block that did not pass through _sanitize_gel_for_write (a tagged / trusted fast path): "
                      "a non-dict `edges` from a corrupt or foreign snapshot is installed in state and `.items()` on it aborts every later turn")
    ls = ctx.func(SN + ":load_latest_snapshot")
    scfg = ctx.cfg(ls)
    srd = ctx.rd(ls)
    n_sets = 0
    for n in sorted(scfg.nodes, key=lambda x: x.id):
        for c in node_calls(n):
            fields = [const_str(c.args[1])] if (call_tail(c) == "_set_state_field" and len(c.args) == 3 and const_str(c.args[1])) else []
            if call_tail(c) == "_set_state_field" and len(c.args) == 3 and isinstance(c.args[1], ast.Name):
                # _set_state_field(state, _field, ...) inside `for _field in ("graph", "gel")`
                for lp in walk_no_defs(ls.node):
                    if isinstance(lp, ast.For) and isinstance(lp.target, ast.Name) and lp.target.id == c.args[1].id and isinstance(lp.iter, (ast.Tuple, ast.List)):
                        fields = [const_str(e) for e in lp.iter.elts if const_str(e)]
            for fld in [f for f in fields if f in ("graph", "gel")]:
                n_sets += 1
                v = c.args[2]
                ok = False
                if isinstance(v, ast.Dict):
                    ok = all(isinstance(x, (ast.Dict, ast.Call)) and (not isinstance(x, ast.Dict) or not x.keys) or (isinstance(x, ast.Call) and dotted(x.func) == "dict") for x in v.values)
                elif isinstance(v, ast.Name):
                    base = [d for d in srd.reaching(v.id, n) if d.kind != "mutate"]
                    ok = bool(base) and all(d.kind == "assign" and (
                        (isinstance(d.value, ast.Call) and call_tail(d.value) == "_sanitize_gel_for_load") or
                        (isinstance(d.value, ast.Dict) and all(isinstance(x, ast.Dict) and not x.keys for x in d.value.values))) for d in base)
                ctx.check(ok, "C20.SANIT", f"{ls.qual}/state-{fld}-from-normaliser#{n_sets}", ls.loc(c), "state receives an empty block or the normalised block",
                          f"`{src(v)[:40]}` stored under state.{fld} did not come from _sanitize_gel_for_load")
    ctx.floor("C20.SANIT", "stores of state.graph / state.gel in the boot loader", n_sets, 4)
    # an IDLE loader equals a switched-off one: the empty default containers are put on the state only where the state has none -
    # stored unconditionally they wipe a GEL graph the caller seeded (or an earlier process handed over) on the first turn,
    # whether the directory is empty or holds an unreadable file, and the hybrid rerank of that turn finds no edges
    n_def = 0
    for n in sorted(scfg.nodes, key=lambda x: x.id):
        for c in node_calls(n):
            if call_tail(c) == "_set_state_field" and len(c.args) == 3 and isinstance(c.args[2], ast.Dict) and any(const_str(k) == "edges" for k in c.args[2].keys):
                n_def += 1
                guarded = any(((not pol) and "isinstance(" in t and "dict" in t) or (pol and t.strip().endswith("is None")) or ((not pol) and t.strip().endswith("is not None")) for t, pol in scfg.facts(n))
                ctx.check(guarded, "C20.BOOT", ctx.okey(f"{ls.qual}/default-containers-only-where-absent"), ls.loc(c), "the empty GEL containers are stored only where the state has none",
                          f"`{src(c)[:60]}` overwrites whatever GEL graph the state carries before anything was read: a boot load that loads nothing (empty directory, corrupt file) wipes the graph the "
                          "first turn runs on - its t2 record (hybrid_used, order) differs from a run with the loader switched off")
    ctx.floor("C20.BOOT", "default GEL containers stored by the boot loader", n_def, 1)


def rule_import_atomic(ctx) -> None:
    """the boot loader's store import is all-or-nothing: inside its fail-soft `try`, nothing that can still raise on snapshot
    content (parsing an item, a loop over the file's list) runs after the first write to the live store.  Otherwise a damaged
    snapshot is 'rejected' (loaded: False, nothing raised) although the store has already been wiped and half refilled, and the
    turn's apply record and final store differ from a run that booted with no snapshot."""
    fn = ctx.func("clematis.engine.snapshot:_import_store_from_snapshot")
    cfg = ctx.cfg(fn)
    rd = ctx.rd(fn)
    storep = fn.params[0]
    # names aliasing the live store or a part of it
    live = {storep}
    for _ in range(3):
        for d in rd.all_defs:
            if d.kind == "assign" and d.value is not None and d.name not in live:
                root = d.value
                while isinstance(root, (ast.Attribute, ast.Subscript)):
                    root = root.value
                if isinstance(root, ast.Name) and root.id in live and isinstance(d.value, (ast.Attribute, ast.Subscript)):
                    live.add(d.name)
    def is_live_write(n) -> bool:
        a = n.ast
        if n.kind != "stmt" or a is None:
            return False
        if isinstance(a, (ast.Assign, ast.AugAssign)):
            for t in (a.targets if isinstance(a, ast.Assign) else [a.target]):
                root = t
                while isinstance(root, (ast.Attribute, ast.Subscript)):
                    root = root.value
                if isinstance(t, (ast.Attribute, ast.Subscript)) and isinstance(root, ast.Name) and root.id in live:
                    return True
        for c in node_calls(n):
            if isinstance(c.func, ast.Attribute) and c.func.attr in ("clear", "update", "pop", "setdefault", "append", "extend", "remove", "popitem", "__setitem__"):
                root = c.func.value
                while isinstance(root, (ast.Attribute, ast.Subscript)):
                    root = root.value
                if isinstance(root, ast.Name) and root.id in live:
                    return True
        return False
    writes = [n for n in cfg.nodes if is_live_write(n)]
    ctx.floor("C20.NEUTRAL", "writes to the live store in the snapshot importer", len(writes), 2)
    handlers = [n for n in cfg.nodes if n.kind == "handler"]
    bad = None
    for w in writes:
        # a later node of the same try that raises into the handler, other than a write whose operands are plain locals
        for m in cfg.reach([w], include_start=False, edge_ok=no_exc):
            if m is w or m.kind in ("handler", "exit"):
                continue
            raises_to_handler = any(lab == "exc" and t in handlers for t, lab in m.succ)
            if not raises_to_handler:
                continue
            if is_live_write(m):
                # allowed only if the written value is a local already computed (no parsing in the same statement)
                calls = [c for c in node_calls(m) if (dotted(c.func) or "") in ("float", "int", "str") or call_tail(c) == "get"]
                if not calls and not (m.kind == "iter"):
                    continue
            bad = (w, m)
            break
        if bad:
            break
    ctx.check(bad is None, "C20.NEUTRAL", f"{fn.qual}/import-all-or-nothing", fn.loc(bad[1].ast) if bad else fn.loc(),
              "the parsed content is built aside and the live store is only touched by the final swap",
              (f"after the live store is written (`{src(bad[0].ast)[:40]}`) the importer can still raise on snapshot content at `{src(bad[1].ast)[:50]}`: the damaged snapshot is reported as not loaded "
               "while the store is already wiped / half refilled, so the turn no longer equals a run that booted without a snapshot") if bad else "")


def rule_handler_names(ctx) -> None:
    """a name bound by `except ... as N` is deleted when the handler ends; a read of N after the guard (the usual
    `fallback_reason = ... if err is not None`) raises UnboundLocalError exactly on the turns where the optional subsystem had
    failed - the guard is there, the handler cannot raise, and the turn is aborted all the same"""
    from .. import hazards
    fns = sorted(f.qual for f in ctx.prog.funcs.values() if f.module.name.split(".")[:2] in (["clematis", "engine"], ["clematis", "io"], ["clematis", "memory"], ["clematis", "graph"], ["clematis", "adapters"]))
    n_h = 0
    for q in fns:
        fn = ctx.prog.funcs[q]
        n_h += sum(1 for t in walk_no_defs(fn.node) if isinstance(t, ast.Try) for h in t.handlers if h.name)
        for h, name, use, path in hazards.unbound_after_handler(ctx, fn):
            ctx.violation("C20.CONT", ctx.okey(f"{fn.qual}/handler-name-read-after-guard"), fn.loc(use.ast),
                          f"`{name}` is bound by `except ... as {name}` (L{h.lineno}) and therefore unbound once that handler ends; `{src(use.ast)[:60]}` reads it afterwards with no "
                          "new binding on the way: UnboundLocalError on exactly the turns where the guarded subsystem failed, so the failure aborts the turn", ctx.path_witness(fn, path))
    ctx.floor("C20.CONT", "handlers binding the exception to a name in the engine / io / memory / graph / adapters packages", n_h, 20)
    ctx.holds("C20.CONT", "turn-path/handler-names-not-read-after", "clematis/engine",
              f"{n_h} `except ... as name` handlers in {len(fns)} functions of the engine, io, memory, graph and adapters packages: no read of the name is reachable from the handler's end without a new binding; "
              + hazards.controls(ctx, "clematis.engine.health", ["unbound"]))


def rule_boot_once(ctx) -> None:
    """the boot loader runs once per state also when it fails: load_latest_snapshot starts by resetting state.graph / state.gel
    to empty containers, so if the flag that stops it from running again is set only on success, a snapshot that makes the
    loader raise wipes the GEL edges built by earlier turns on every later turn - the failure is swallowed, the turn completes,
    and its records differ from a run that booted with no snapshot.  Must-pass: from the loader call (normal or exceptional
    continuation) every path to the end of the turn passes the store of the once-flag."""
    fn = ctx.func(RUN_TURN)
    cfg = ctx.cfg(fn)
    loads = [n for n in cfg.nodes if any(call_tail(c) == "load_latest_snapshot" for c in node_calls(n))]
    if not loads:
        raise AnalysisError("anchor-vanished: load_latest_snapshot call in run_turn")
    # the flag: the state key whose truth guards the loader call
    flags = set()
    for n in loads:
        for t, pol, _ in cfg.guards(n):
            for x in ast.walk(t):
                if isinstance(x, ast.Name):
                    for d in ctx.rd(fn).reaching(x.id, n):
                        if d.value is not None:
                            flags |= {const_str(z) for z in ast.walk(d.value) if const_str(z) and const_str(z).startswith("_")}
    flags = {f for f in flags if f}
    if not flags:
        raise AnalysisError("anchor-vanished: the once-flag guarding the boot loader")
    stores = []
    for n in cfg.nodes:
        a = n.ast
        if n.kind == "stmt" and isinstance(a, ast.Assign) and any(isinstance(t, ast.Subscript) and const_str(t.slice) in flags for t in a.targets):
            stores.append(n)
        if n.kind == "stmt" and any(call_tail(c) == "setattr" and len(c.args) == 3 and const_str(c.args[1]) in flags for c in node_calls(n)):
            stores.append(n)
    ctx.floor("C20.CONT", "stores of the boot once-flag", len(stores), 2)
    for ld in loads:
        p = cfg.path([ld], lambda m: m is cfg.exit, avoid=lambda m: m in stores, include_start=False)
        ctx.check(p is None, "C20.CONT", f"{fn.qual}/boot-loader-runs-once", fn.loc(ld.ast),
                  f"every continuation of the loader call - also the swallowed failure - sets {sorted(flags)} before the turn goes on",
                  f"after a failing load_latest_snapshot the turn goes on without setting {sorted(flags)}: the loader runs again on every later turn and each time resets state.graph / state.gel, "
                  "wiping the GEL edges earlier turns built - the turn completes but its records differ from a run without the snapshot", ctx.path_witness(fn, p))


def rule_layer_faults_are_whole(ctx) -> None:
    """"emits its canonical T2 record equal to that of a run in which that subsystem is switched off": a rerank layer that
    fails leaves BOTH the ranking and its bookkeeping as they were before it.  In apply_quality a layer (hybrid, fusion, MMR)
    assigns the ranking and sets its `*_used` flag inside a try whose handler resets the flag: once the ranking has been
    reassigned inside that try, nothing that can still raise may follow in the same try body - or the handler wipes the
    bookkeeping of a reorder that stays in effect (the record then matches no switched-off run)."""
    fn = ctx.func("clematis.engine.stages.t2.quality:apply_quality")
    rank = "retrieved" if "retrieved" in fn.params else fn.params[2]
    n_layers = 0
    for t in [x for x in walk_no_defs(fn.node) if isinstance(x, ast.Try)]:
        # role: a layer's "used" flag = a name the try body sets (to True / a bool) and the handler resets to False
        set_in_body = {tt.id for b in t.body for y in ast.walk(b) if isinstance(y, ast.Assign) for tt in y.targets if isinstance(tt, ast.Name)
                       and ((isinstance(y.value, ast.Constant) and y.value.value is True) or (isinstance(y.value, ast.Call) and dotted(y.value.func) == "bool"))}
        resets = [y for h in t.handlers for st in h.body for y in ast.walk(st) if isinstance(y, ast.Assign) and any(isinstance(tt, ast.Name) and tt.id in set_in_body for tt in y.targets)
                  and isinstance(y.value, ast.Constant) and y.value.value is False]
        if not resets:
            continue
        n_layers += 1
        restores = any(isinstance(y, ast.Assign) and any(isinstance(tt, ast.Name) and tt.id == rank for tt in y.targets) for h in t.handlers for st in h.body for y in ast.walk(st))
        # statements of the try body in order, not descending into inner try bodies that have their own catch-all
        flat: List[ast.stmt] = []

        def walk(stmts):
            for st in stmts:
                if isinstance(st, ast.Try) and any(handler_catches_all(h) for h in st.handlers):
                    flat.append(ast.Pass())  # an inner guarded layer: its failures do not reach this handler
                    continue
                flat.append(st)
                for fld in ("body", "orelse"):
                    if hasattr(st, fld) and not isinstance(st, (ast.FunctionDef, ast.ClassDef)):
                        walk(getattr(st, fld))

        walk(t.body)
        seen_assign = None
        late = None
        for st in flat:
            if isinstance(st, ast.Assign) and any(isinstance(tt, ast.Name) and tt.id == rank for tt in st.targets):
                seen_assign = st
                continue
            if seen_assign is not None and late is None and not isinstance(st, (ast.If, ast.For, ast.While, ast.With, ast.Try, ast.Pass)):
                # reads of the layer's own result record (x.get(k)) and plain conversions of them do not count
                own = [y for y in ast.walk(st) if isinstance(y, ast.Call) and dotted(y.func) not in ("bool", "len", "isinstance", "int", "float", "str", "dict", "list") and call_tail(y) != "get"]
                if own:
                    late = st
        flag = sorted({tt.id for y in resets for tt in y.targets if isinstance(tt, ast.Name)})[0]
        ctx.check(late is None or restores, "C20.NEUTRAL", ctx.okey(f"{fn.qual}/layer-fault-undoes-the-whole-layer:{flag}"), fn.loc(late or t),
                  f"after `{rank}` is reassigned inside the try that resets {flag}, nothing that can raise follows (or the handler restores the ranking)",
                  f"`{src(late)[:60] if late is not None else ''}` runs after `{src(seen_assign)[:40] if seen_assign is not None else ''}` inside the try whose handler resets `{flag}`: if it raises, the "
                  "reordered ranking stays while its bookkeeping is wiped - the T2 record matches neither the run with this layer off nor the run with the whole quality path off")
    ctx.floor("C20.NEUTRAL", "rerank layers with a flag-resetting handler in apply_quality", n_layers, 2)


def rule_boot_body_is_an_object(ctx) -> None:
    """"corrupt or foreign files": what the boot loader takes from a snapshot file is an OBJECT.  `(data or {})` reads every falsy
    body (JSON null / false / 0 / "" / [] after an intact header line) as an empty snapshot: the loader reports success and
    adopts the header's etag as the state's version - the turn's apply records then carry another version than in the run
    without the file.  Every such coercion of the parsed body lies behind an isinstance(<body>, dict) test."""
    ls = ctx.func("clematis.engine.snapshot:load_latest_snapshot")
    cfg = ctx.cfg(ls)
    bodies = set()
    for x in walk_no_defs(ls.node):
        if isinstance(x, ast.Assign) and isinstance(x.value, ast.Call) and call_tail(x.value) == "_read_header_payload" and isinstance(x.targets[0], ast.Tuple) and len(x.targets[0].elts) == 2 \
                and isinstance(x.targets[0].elts[1], ast.Name):
            bodies.add(x.targets[0].elts[1].id)
    if not bodies:
        raise AnalysisError("anchor-vanished: (header, body) = _read_header_payload(...) in the boot loader")
    n = 0
    for nd in cfg.nodes:
        if nd.ast is None or nd.kind not in ("stmt", "cond"):
            continue
        for x in walk_no_defs(nd.ast):
            if isinstance(x, ast.BoolOp) and isinstance(x.op, ast.Or) and isinstance(x.values[0], ast.Name) and x.values[0].id in bodies and isinstance(x.values[-1], ast.Dict):
                n += 1
                b = x.values[0].id
                known = any(pol and t.replace(" ", "") == f"isinstance({b},dict)" for t, pol in cfg.facts(nd)) or any((not pol) and t.replace(" ", "") == f"notisinstance({b},dict)" for t, pol in cfg.facts(nd))
                ctx.check(known, "C20.BOOT", ctx.okey(f"{ls.qual}/body-coerced-only-when-an-object"), ls.loc(x), f"`{src(x)}` is evaluated only where the body is known to be an object",
                          f"`{src(x)}` turns every falsy body (null, false, 0, \"\", []) into an empty snapshot: the loader reports success for a garbage file and adopts the header's etag_to as the state's "
                          "version - apply.jsonl carries 9, 10, 11 where the run without the file has 1, 2, 3")
    ctx.floor("C20.BOOT", "coercions of the parsed snapshot body in the boot loader", n, 2)


def rule_inputs_of_optional_layers(ctx) -> None:
    """"a failure inside ... tracing layers never aborts a turn" includes assembling what ONLY such a layer consumes: a local that
    is used nowhere but as an argument of a declared optional call (the LLM prompt built for the T3 trace) belongs to that
    layer, and the call that computes it must be fail-soft too (enclosed by a catch-all, or a total callee) - otherwise the
    turn dies preparing the input of a trace that is gated off."""
    from ..util import guarded_by_catch_all
    n = 0
    by_fn = {}
    for fq, tails, what in SITES:
        by_fn.setdefault(fq, set()).update(tails)
    for fq, tails in sorted(by_fn.items()):
        fn = ctx.func(fq)
        site_calls = _call_sites(fn, sorted(tails))
        inside = {id(y) for c in site_calls for y in ast.walk(c)}
        for c in site_calls:
            for a in [x for x in c.args if isinstance(x, ast.Name)] + [k.value for k in c.keywords if isinstance(k.value, ast.Name)]:
                loads = [y for y in walk_no_defs(fn.node) if isinstance(y, ast.Name) and y.id == a.id and isinstance(y.ctx, ast.Load)]
                if not loads or not all(id(y) in inside for y in loads):
                    continue   # the turn itself uses the value
                for st in walk_no_defs(fn.node):
                    if isinstance(st, ast.Assign) and any(isinstance(t, ast.Name) and t.id == a.id for t in st.targets) and isinstance(st.value, ast.Call):
                        r = ctx.prog.callee(fn, st.value)
                        if not r or r[0] != "func" or r[1] not in ctx.prog.funcs:
                            continue
                        n += 1
                        total, _bad = _func_total(ctx, ctx.prog.funcs[r[1]])
                        ok = guarded_by_catch_all(ctx.prog, fn, st.value) is not None or total
                        ctx.check(ok, "C20.ESC", ctx.okey(f"{fn.qual}/input-of-optional-layer-guarded:{a.id}"), fn.loc(st), f"`{src(st)[:60]}` (consumed by `{call_tail(c)}` only) is fail-soft",
                                  f"`{src(st)[:60]}` computes a value that only the optional `{call_tail(c)}` consumes, outside every guard: a shape that call trips over (a chat-history entry that is a plain "
                                  "string) aborts the turn after t1 / t2 were logged - no t4 / apply / turn records - although the layer it serves is optional (and gated off)")
    ctx.floor("C20.ESC", "values computed only for an optional layer", n, 1)


def run(ctx) -> None:
    rule_inputs_of_optional_layers(ctx)
    rule_boot_body_is_an_object(ctx)
    rule_layer_faults_are_whole(ctx)
    rule_boot_once(ctx)
    rule_handler_names(ctx)
    rule_sanit(ctx)
    rule_import_atomic(ctx)
    rule_sanit_fields(ctx)
    n_sites = 0
    handlers_seen: Dict[int, Tuple[Func, ast.Try, str]] = {}
    for qual, tails, why in SITES:
        fn = ctx.func(qual)
        calls = _call_sites(fn, tails)
        if not calls:
            raise AnalysisError(f"anchor-vanished: declared fail-soft site {tails} not found in {qual}")
        for c in calls:
            n_sites += 1
            tail = call_tail(c)
            key = f"{fn.qual}/{tail}"
            t = guarded_by_catch_all(ctx.prog, fn, c)
            if t is None:
                # the callee may be total by itself
                r = ctx.prog.callee(fn, c)
                total = False
                badn = None
                if r and r[0] == "func":
                    total, badn = _func_total(ctx, ctx.prog.funcs[r[1]])
                ctx.check(total, "C20.ESC", key, fn.loc(c),
                          f"[{why}] the callee is total: every may-raise statement of its body is inside a non-raising catch-all handler",
                          f"[{why}] `{src(c)[:60]}` is not enclosed by a handler catching Exception" + (
                              f", and its callee can raise outside its own guard at `{src(badn)[:50]}`" if badn is not None else "") +
                          ": a failure of this optional subsystem aborts the turn")
                continue
            bad = None
            from ..util import total_helpers
            for h in t.handlers:
                if handler_catches_all(h):
                    okh, badn = handler_cannot_raise(h, allow_calls=sorted(total_helpers(ctx, fn)))
                    if not okh:
                        bad = badn
            ctx.check(bad is None, "C20.ESC", key, fn.loc(c), f"[{why}] enclosed by `except Exception` whose handler body cannot raise",
                      f"[{why}] the catch-all handler around `{src(c)[:40]}` can itself raise at `{src(bad)[:50] if bad is not None else ''}`")
            # a finally on the way out must not raise for the declared state shapes
            if t.finalbody:
                okf, badf = _block_cannot_raise(t.finalbody, set())
                if not okf:
                    # state["k"] = const / setattr(state, "k", const) under an isinstance split: fine for dict and attribute-style states
                    shape_ok = all(isinstance(st, ast.If) and "isinstance(state, dict)" in src(st.test) for st in t.finalbody)
                    if shape_ok:
                        ctx.info("C20.ESC", key + "/finally", fn.loc(t.finalbody[0]),
                                 "the `finally` stores into state; it cannot raise for dict / attribute-style states (a read-only state view raises - see C10)")
                    else:
                        ctx.violation("C20.ESC", key + "/finally", fn.loc(badf) if badf is not None else fn.loc(t), f"the finally clause of the guard can raise at `{src(badf)[:50] if badf is not None else ''}`")
            handlers_seen[id(t)] = (fn, t, why)
    ctx.floor("C20.ESC", "declared fail-soft call sites", n_sites, 24)
    # NEUTRAL + CONT per distinct guarding try
    for fn, t, why in handlers_seen.values():
        for h in t.handlers:
            if not handler_catches_all(h):
                continue
            key = f"{fn.qual}/handler@{why}"
            appends = [x for st in h.body for x in ast.walk(st) if isinstance(x, ast.Call) and call_tail(x) in ("_append_jsonl", "append_jsonl")
                       and x.args and const_str(x.args[0]) in CANONICAL]
            ctx.check(not appends, "C20.NEUTRAL", key, fn.loc(h), f"[{why}] the handler appends to no canonical stream",
                      f"[{why}] the handler appends a record to {const_str(appends[0].args[0]) if appends else ''}: a failing optional subsystem changes the canonical logs")
            if fn.qual == RUN_TURN:
                exits = [st for st in h.body for x in ast.walk(st) if isinstance(x, (ast.Return, ast.Raise)) for st in [x]]
                ctx.check(not exits, "C20.CONT", key, fn.loc(h), f"[{why}] the handler falls through: the rest of the turn (records, TurnResult) still runs",
                          f"[{why}] the handler leaves the turn early (`{src(exits[0])[:40] if exits else ''}`): the turn's canonical records are not emitted")
    # the final turn record and return are reachable from every run_turn handler without passing a raise
    rt = ctx.func(RUN_TURN)
    cfg = ctx.cfg(rt)
    finals = [n for n in cfg.nodes if any(call_tail(c) == "_append_jsonl" and c.args and const_str(c.args[0]) == "turn.jsonl" for c in node_calls(n))]
    last = max(finals, key=lambda n: n.lineno) if finals else None
    if last is None:
        raise AnalysisError("anchor-vanished: final turn.jsonl append in run_turn")
    for fn, t, why in handlers_seen.values():
        if fn.qual != RUN_TURN:
            continue
        hn = [n for n in cfg.nodes if n.kind == "handler" and n.stmt is t]
        for h in hn:
            # dry-run / yield returns are legitimate early exits (they have their own records); the full path must exist
            p = cfg.path([h], lambda n: n is last, edge_ok=no_exc)
            ctx.check(p is not None, "C20.CONT", f"{rt.qual}/turn-summary-reachable@{why}", rt.loc(h.ast), f"[{why}] the final turn.jsonl record is reachable from the handler on a normal path",
                      f"[{why}] after the handler the final turn record is no longer reachable")
