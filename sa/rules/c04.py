"""C04 Apply commits exactly the approved deltas, once, with version discipline."""
from __future__ import annotations

import ast
from typing import List, Optional, Tuple

from ..cfg import handler_catches_all
from ..events import Events
from ..model import AnalysisError, arg, const_str, dotted, src, walk_no_defs
from ..paths import PathEval
from ..typestate import explore
from ..util import (call_tail, enclosing, find_calls, gate_on, implied_atoms, guarded_by_catch_all, handler_cannot_raise, must_pass, no_exc,
                    node_calls, strip_wrappers)

EXPLANATION = (
    "C04 decided statically: (ONCE) on every CFG path of apply_changes to a normal return the version bump is called "
    "exactly once; (BATCH) the store receives t4.approved_deltas unfiltered/unreordered in one batch call, per-delta "
    "calls are reachable only through the handler of the batch try and pass one-element lists of the same deltas; "
    "(ESC) every store call is enclosed by a catch-all handler that cannot raise; (BUST) invalidate_namespace is "
    "reached exactly under cache_bust_mode=='on-apply' and iterates the configured namespaces; (CAD) snapshots are "
    "written exactly under turn % max(1,n) == 0; (KILL) in run_turn t4_filter, the t4/apply log appends, "
    "apply_changes and the GEL passes are dominated by the t4.enabled test, and every other caller of apply_changes "
    "is cross-checked against the same switch. Not decided: the observation at a recording store double and version "
    "monotonicity over whole histories (follow by a pencil argument from ONCE+BATCH+ESC, not executed)."
)
RULES = {
    "C04.ONCE": "typestate counter over all CFG paths (exception edges included) of apply_changes",
    "C04.BATCH": "def-use shape of the batch argument + dominance of the fallback loop by the batch handler",
    "C04.ESC": "exception-escape: lexical catch-all enclosure of every store call + handler-cannot-raise",
    "C04.BUST": "guard facts of every invalidate_namespace site + provenance of the iterated namespaces",
    "C04.CAD": "expression shape of _should_snapshot + guard dominance / must-pass of write_snapshot",
    "C04.KILL": "guard dominance by cfg:t4.enabled in run_turn + sibling cross-check of all apply_changes callers",
}

APPLY = "clematis.engine.apply:apply_changes"
CORE = "clematis.engine.orchestrator.core"
RUN_TURN = CORE + ":Orchestrator.run_turn"


def _is_store_apply(ctx, fn, call: ast.Call, node) -> bool:
    f = call.func
    if isinstance(f, ast.Attribute) and f.attr == "apply_deltas":
        return True
    if isinstance(f, ast.Name):
        rd = ctx.rd(fn)
        for d in rd.reaching(f.id, node):
            v = d.value
            if v is None:
                continue
            for x in walk_no_defs(v):
                if isinstance(x, ast.Call) and dotted(x.func) == "getattr" and len(x.args) >= 2 and const_str(x.args[1]) == "apply_deltas":
                    return True
                if isinstance(x, ast.Attribute) and x.attr == "apply_deltas":
                    return True
    return False


def rule_once(ctx) -> None:
    fn = ctx.func(APPLY)
    cfg = ctx.cfg(fn)

    def classify(f, call, nm):
        return "BUMP" if nm.endswith(":_bump_version_etag") else None

    ev = Events(ctx, classify, depth=3)
    bumps = [n for n in cfg.nodes if "BUMP" in ev.at(fn, n)]
    if not bumps:
        ctx.violation("C04.ONCE", f"{APPLY}/bump-missing", fn.loc(),
                      "apply_changes never calls _bump_version_etag (directly or through a helper): the state version is not advanced")
        return

    def step(n, s, lab, t):
        if n.kind in ("branch", "join"):
            return [s]
        k = ev.at(fn, n).count("BUMP")
        if lab == "exc":
            return [s]
        return [min(2, s + k)]

    def bad(n, s):
        if n is cfg.exit and s != 1:
            return f"normal return with the version bumped {s if s < 2 else '>=2'} times"
        return None

    visited, wit = explore(cfg, [0], step, bad)
    rets = [n for n in cfg.nodes if n.kind == "stmt" and isinstance(n.ast, ast.Return)]
    ctx.floor("C04.ONCE", "return statements in apply_changes", len(rets), 1)
    key = f"{APPLY}/bump-exactly-once"
    if wit:
        msg, path = wit[0]
        ctx.violation("C04.ONCE", key, fn.loc(), msg, ctx.path_witness(fn, [n for n, _ in path]))
    else:
        ctx.holds("C04.ONCE", key, fn.loc(),
                  f"all paths to the {len(rets)} return statements pass exactly one of the {len(bumps)} bump sites "
                  f"({len(visited)} product states explored)")
    # the bump itself: new value derives from the old one + 1
    b = ctx.func("clematis.engine.apply:_bump_version_etag")
    bcfg = ctx.cfg(b)
    sets = find_calls(ctx, b, lambda c, nm: nm.endswith(":_state_set") or call_tail(c) == "setattr")
    ok_inc = False
    for x in walk_no_defs(b.node):
        if isinstance(x, ast.BinOp) and isinstance(x.op, ast.Add) and isinstance(x.right, ast.Constant) and x.right.value == 1:
            ok_inc = True
    ctx.check(bool(sets) and ok_inc, "C04.ONCE", f"{b.qual}/increments", b.loc(),
              "the bump stores int(current)+1 under version_etag", "the bump does not store current+1")
    # "advances the state version by exactly one" for every version: the old value reaches the + 1 as an exact integer.  A
    # detour through float (int(float(v)), round(float(v))) drops the low bits of a version >= 2**53 before the increment: the
    # version then stays put or jumps.  Followed into the module helpers the left operand is computed by.
    lossy = None
    for x in walk_no_defs(b.node):
        if isinstance(x, ast.BinOp) and isinstance(x.op, ast.Add) and isinstance(x.right, ast.Constant) and x.right.value == 1:
            scope = list(ast.walk(x.left))
            for y in list(scope):
                if isinstance(y, ast.Call):
                    r = ctx.prog.callee(b, y)
                    if r and r[1] in ctx.prog.funcs and ctx.prog.funcs[r[1]].module.name == b.module.name:
                        scope += list(ast.walk(ctx.prog.funcs[r[1]].node))
            lossy = lossy or next((y for y in scope if isinstance(y, ast.Call) and dotted(y.func) in ("float", "round", "math.floor", "math.ceil", "math.trunc") and y.args), None)
            lossy = lossy or next((y for y in scope if isinstance(y, ast.BinOp) and isinstance(y.op, ast.Div)), None)
    ctx.check(lossy is None, "C04.ONCE", f"{b.qual}/increment-is-exact", b.loc(lossy) if lossy is not None else b.loc(), "the old version reaches the increment as an exact integer (int(), no float detour)",
              f"`{src(lossy)[:40] if lossy is not None else ''}` takes the old version through a float before the + 1: for a version at or above 2**53 (a time_ns seed, a 64-bit revision id) the low bits "
              "are dropped, so a committed turn leaves the version where it was or moves it by something other than one")


def rule_batch(ctx) -> None:
    fn = ctx.func(APPLY)
    cfg = ctx.cfg(fn)
    rd = ctx.rd(fn)
    t4_param = fn.params[2] if len(fn.params) >= 3 else None
    batch: List[Tuple] = []
    single: List[Tuple] = []
    for n in cfg.nodes:
        for c in node_calls(n):
            if _is_store_apply(ctx, fn, c, n) and len(c.args) >= 2:
                a = c.args[1]
                if isinstance(a, ast.List) and len(a.elts) == 1:
                    single.append((n, c))
                else:
                    batch.append((n, c))
    if not batch:
        ctx.violation("C04.BATCH", f"{APPLY}/batch-missing", fn.loc(), "no batch call of the store's apply_deltas with the delta list")
        return
    ctx.floor("C04.BATCH", "store apply call sites", len(batch) + len(single), 2)
    # (a) provenance of the batch argument
    for n, c in batch:
        inl = rd.inline(c.args[1], n)
        core = strip_wrappers(inl, names=("list", "tuple"))
        if isinstance(core, ast.BoolOp) and isinstance(core.op, ast.Or):
            core = core.values[0]
        ok = isinstance(core, ast.Attribute) and core.attr == "approved_deltas" and isinstance(core.value, ast.Name) and core.value.id == t4_param
        ctx.check(ok, "C04.BATCH", f"{APPLY}/batch-arg", fn.loc(c),
                  f"batch argument is {src(inl)}: the approved list itself, unfiltered and in order",
                  f"batch argument {src(inl)} is not exactly t4.approved_deltas (filtered, sliced, re-sorted or other source)")
        ctx.check(not cfg.in_loop(n), "C04.BATCH", f"{APPLY}/batch-once", fn.loc(c),
                  "batch call is outside any loop", "batch call sits on a CFG cycle (may run more than once)")
    # at most one batch call per path
    bn = {n for n, _ in batch}

    def step(n, s, lab, t):
        if n in bn and lab != "exc":
            return [min(2, s + 1)]
        return [s]

    visited, wit = explore(cfg, [0], step, lambda n, s: "two batch calls on one path" if (n is cfg.exit and s >= 2) else None)
    ctx.check(not wit, "C04.BATCH", f"{APPLY}/batch-at-most-once", fn.loc(), "no path performs two batch calls",
              "a path performs the batch call twice", ctx.path_witness(fn, [x for x, _ in wit[0][1]]) if wit else None)
    # (c) per-delta calls only via the batch handler, iterating the same list
    batch_try = None
    for n, c in batch:
        t = guarded_by_catch_all(ctx.prog, fn, c)
        if t is not None:
            batch_try = t
    for n, c in single:
        key = f"{APPLY}/fallback-under-batch-handler"
        hnodes = [h for h in cfg.nodes if h.kind == "handler" and batch_try is not None and h.stmt is batch_try]
        dom = any(cfg.dominates(h, n) for h in hnodes)
        if not dom:
            # helper extraction: the call lives in a helper invoked from the handler
            pass
        ctx.check(dom, "C04.BATCH", key, fn.loc(c),
                  "per-delta call is dominated by the handler of the try that contains the batch call (runs only if the batch call failed)",
                  "per-delta apply is reachable without the batch call having raised: deltas can be applied twice")
        # isolation: a failing delta must not stop the remaining ones - the catch-all try sits *inside* the loop
        chain = enclosing(ctx.prog, fn, c)
        i_try = next((i for i, (st, part) in enumerate(chain) if isinstance(st, ast.Try) and part == "body" and any(handler_catches_all(h) for h in st.handlers)), None)
        i_for = next((i for i, (st, part) in enumerate(chain) if isinstance(st, (ast.For, ast.While)) and part == "body"), None)
        ctx.check(i_try is not None and i_for is not None and i_try < i_for, "C04.BATCH", f"{APPLY}/fallback-per-delta-isolated", fn.loc(c),
                  "each per-delta call has its own catch-all handler inside the loop: one failing delta does not stop the others",
                  "the per-delta fallback loop is guarded as a whole (or not at all): the first delta that raises ends the loop and every "
                  "approved delta after it is never handed to the store")
        # element provenance: [d] with d iterating the same list as the batch
        el = c.args[1].elts[0]
        okp = False
        if isinstance(el, ast.Name):
            for d in rd.reaching(el.id, n):
                if d.kind == "for" and d.value is not None:
                    a1 = src(rd.inline(d.value, d.node))
                    a2 = src(rd.inline(batch[0][1].args[1], batch[0][0]))
                    okp = a1 == a2
        ctx.check(okp, "C04.BATCH", f"{APPLY}/fallback-same-deltas", fn.loc(c),
                  "fallback iterates the very list passed to the batch call, one element per call",
                  "fallback does not iterate the batch list element-wise")
    # "once more one by one": EVERY approved delta is offered - the per-delta loop has no early exit (a circuit breaker that gives up
    # after some consecutive failures never hands the remaining deltas to the store at all)
    for lp in [x for x in walk_no_defs(fn.node) if isinstance(x, ast.For)]:
        if not any(part == "handler" for st, part in enclosing(ctx.prog, fn, lp)):
            continue
        if not any(isinstance(y, ast.Call) and _is_store_apply(ctx, fn, y, None) if False else (isinstance(y, ast.Call) and (call_tail(y) == "apply_deltas" or (isinstance(y.func, ast.Name) and y.func.id in {"apply_fn"}))) for st in lp.body for y in ast.walk(st)):
            continue
        exits = [y for st in lp.body for y in ast.walk(st) if isinstance(y, (ast.Break, ast.Return, ast.Raise))]
        ctx.check(not exits, "C04.BATCH", f"{APPLY}/fallback-offers-every-delta", fn.loc(exits[0]) if exits else fn.loc(lp), "the one-by-one fallback has no early exit: every approved delta is offered to the store",
                  f"the one-by-one fallback can leave its loop early (`{src(exits[0])[:30] if exits else ''}`): the approved deltas after that point are never handed to the store although the turn commits "
                  "(version bump, snapshot) as if they had been")
    # "only if that batch call fails": nothing else inside the batch try may raise into the replaying handler - reading the
    # store's counters there (`int(res["edits"])`, `key in res`) turns an oddly shaped *successful* result into a replay
    if batch_try is not None:
        from ..util import _block_cannot_raise, total_helpers
        allow = total_helpers(ctx, fn)
        seen_call = False
        n_after = 0
        for st in batch_try.body:
            has = any(c is bc for _, bc in batch for c in [x for x in walk_no_defs(st) if isinstance(x, ast.Call)])
            if has:
                seen_call = True
                # the statement holding the call: only the call itself (res = apply_fn(...))
                inner = [x for x in walk_no_defs(st) if isinstance(x, ast.Call) and not any(x is bc for _, bc in batch)]
                bad_inner = [x for x in inner if dotted(x.func) not in allow]
                ctx.check(not bad_inner, "C04.BATCH", f"{APPLY}/batch-try-holds-only-the-call", fn.loc(st), "the statement of the batch call does nothing else that can raise",
                          f"`{src(bad_inner[0])[:50] if bad_inner else ''}` shares the statement (and the replaying handler) with the batch call")
                continue
            if seen_call:
                n_after += 1
                ok, badn = _block_cannot_raise([st], allow)
                ctx.check(ok, "C04.BATCH", ctx.okey(f"{APPLY}/after-batch-cannot-raise"), fn.loc(st),
                          "bookkeeping after the batch call inside its try cannot raise",
                          f"`{src(badn)[:60] if badn is not None else src(st)[:60]}` runs after the batch call has SUCCEEDED but inside the try whose handler replays the deltas one by one: "
                          "if it raises (a store returning None, a bare int, or a counter int() rejects) every approved delta is handed to the store a second time")
        ok, badn = _block_cannot_raise(batch_try.orelse, allow)
        ctx.check(ok, "C04.ESC", f"{APPLY}/batch-else-cannot-raise", fn.loc(badn) if badn is not None else fn.loc(batch_try),
                  "the counters of a successful batch are read outside the guard through helpers that cannot raise",
                  f"`{src(badn)[:60] if badn is not None else ''}` in the else branch of the batch try can raise: an oddly shaped store result aborts the turn and skips the version bump")


def rule_esc(ctx) -> None:
    from ..util import total_helpers
    n_sites = 0
    bf, _h = _bust_fn(ctx)
    for fn in ([ctx.func(APPLY)] + ([bf] if bf.qual != APPLY else [])):
        n_sites += _esc_sites(ctx, fn, total_helpers(ctx, fn))
    ctx.floor("C04.ESC", "store/cache call sites in apply_changes", n_sites, 3)


def rule_esc_snapshot_reads(ctx) -> None:
    """"errors inside the store never abort the turn" also where the snapshot reads the store: on cadence turns apply_changes
    calls write_snapshot AFTER the deltas were applied and the version bumped, and the export walks the store again.  Every
    expression of the export that touches the store (getattr on it, calling what it handed out, iterating / converting its
    weights) sits under a catch-all - otherwise a store fault there propagates out of run_turn with no apply / turn record."""
    ex = ctx.prog.funcs.get("clematis.engine.snapshot:_export_store_for_snapshot")
    if ex is None:
        raise AnalysisError("anchor-vanished: _export_store_for_snapshot")
    ctx.analysed_funcs.add(ex.qual)
    # it is reached from apply_changes through write_snapshot
    ws = ctx.func("clematis.engine.snapshot:write_snapshot")
    if not any(isinstance(x, ast.Call) and call_tail(x) == ex.name for x in walk_no_defs(ws.node)) or not any(isinstance(x, ast.Call) and call_tail(x) == "write_snapshot" for x in walk_no_defs(ctx.func(APPLY).node)):
        raise AnalysisError("anchor-vanished: apply_changes -> write_snapshot -> _export_store_for_snapshot")
    rd = ctx.rd(ex)
    tainted = {ex.params[0]}
    changed = True
    while changed:
        changed = False
        for d in rd.all_defs:
            if d.name not in tainted and d.value is not None and any(isinstance(y, ast.Name) and y.id in tainted for y in ast.walk(d.value)):
                tainted.add(d.name)
                changed = True
            if d.name not in tainted and d.kind in ("for", "unpack") and d.value is not None and any(isinstance(y, ast.Name) and y.id in tainted for y in ast.walk(d.value)):
                tainted.add(d.name)
                changed = True
    touches = []
    for x in walk_no_defs(ex.node):
        if isinstance(x, ast.Call) and dotted(x.func) not in ("isinstance", "callable", "str", "len") and \
                (any(isinstance(y, ast.Name) and y.id in tainted for a in x.args for y in ast.walk(a)) or (isinstance(x.func, ast.Attribute) and any(isinstance(y, ast.Name) and y.id in tainted for y in ast.walk(x.func.value)))
                 or (isinstance(x.func, ast.Name) and x.func.id in tainted)):
            touches.append(x)
    ctx.floor("C04.ESC", "store reads of the snapshot export", len(touches), 4)
    for x in touches:
        t = guarded_by_catch_all(ctx.prog, ex, x)
        ctx.check(t is not None, "C04.ESC", ctx.okey(f"{ex.qual}/store-read-guarded"), ex.loc(x), f"`{src(x)[:40]}` reads the store under a catch-all",
                  f"`{src(x)[:50]}` reads the store outside any try: on a snapshot turn a store fault here (a weight view that raises, a non-numeric weight) leaves apply_changes after the deltas were "
                  "applied and the version bumped - the turn aborts without apply / turn records")


def _esc_sites(ctx, fn, allow) -> int:
    cfg = ctx.cfg(fn)
    n_sites = 0
    for n in cfg.nodes:
        for c in node_calls(n):
            is_store = _is_store_apply(ctx, fn, c, n)
            is_inval = call_tail(c) in ("invalidate_namespace", "invalidate_all")
            if not (is_store or is_inval):
                continue
            n_sites += 1
            t = guarded_by_catch_all(ctx.prog, fn, c)
            key = f"{APPLY}/{'store' if is_store else 'cache'}-call-guarded:{src(c)[:40]}"
            if t is None:
                ctx.violation("C04.ESC", key, fn.loc(c),
                              f"`{src(c)[:70]}` is not enclosed by a handler catching Exception: an error inside the "
                              f"{'store' if is_store else 'cache manager'} aborts the turn / skips the version bump")
                continue
            bad = None
            for h in t.handlers:
                if handler_catches_all(h):
                    ok, badn = handler_cannot_raise(h, allow_calls=sorted(allow))
                    if not ok:
                        bad = badn
            ctx.check(bad is None, "C04.ESC", key, fn.loc(c),
                      "enclosed by `except Exception` whose handler body cannot raise",
                      f"the catch-all handler can itself raise at `{src(bad)[:60] if bad is not None else ''}`")
    # looking a method up on the store is a use of the store too: a store that resolves its methods lazily (a remote proxy)
    # fails in __getattr__ with whatever the transport raises
    if fn.qual == APPLY:
        stores = {x.targets[0].id for x in walk_no_defs(fn.node) if isinstance(x, ast.Assign) and len(x.targets) == 1 and isinstance(x.targets[0], ast.Name) and isinstance(x.value, ast.Call)
                  and x.value.args and any(const_str(a) == "store" for a in x.value.args[1:2])}
        looks = [x for x in walk_no_defs(fn.node)
                 if (isinstance(x, ast.Call) and dotted(x.func) in ("getattr", "hasattr") and x.args and isinstance(x.args[0], ast.Name) and x.args[0].id in stores)
                 or (isinstance(x, ast.Attribute) and isinstance(x.value, ast.Name) and x.value.id in stores)]
        if not stores:
            raise AnalysisError("anchor-vanished: the local that holds the store in apply_changes")
        for i, x in enumerate(looks, 1):
            n_sites += 1
            t = guarded_by_catch_all(ctx.prog, fn, x)
            ctx.check(t is not None, "C04.ESC", ctx.okey(f"{APPLY}/store-lookup-guarded"), fn.loc(x), f"`{src(x)[:50]}` is enclosed by a handler catching Exception",
                      f"`{src(x)[:50]}` looks a method up on the store outside any handler: a store that resolves its methods lazily (a remote proxy whose __getattr__ connects) raises right here - "
                      "the turn aborts and the version bump is skipped")
    return n_sites


def _bust_fn(ctx):
    """the function that holds the on-apply invalidation: apply_changes itself or the module helper it calls"""
    ap = ctx.func(APPLY)
    if find_calls(ctx, ap, lambda c, nm: call_tail(c) == "invalidate_namespace"):
        return ap, None
    for n, c in find_calls(ctx, ap, lambda c, nm: True):
        r = ctx.prog.callee(ap, c)
        if r and r[0] == "func" and r[1].startswith("clematis.engine.apply:") and r[1] in ctx.prog.funcs:
            g = ctx.prog.funcs[r[1]]
            if any(isinstance(x, ast.Call) and call_tail(x) == "invalidate_namespace" for x in walk_no_defs(g.node)):
                return g, g.name
    return ap, None


def rule_bust(ctx) -> None:
    fn, helper = _bust_fn(ctx)
    ctx.analysed_funcs.add(fn.qual)
    cfg = ctx.cfg(fn)
    rd = ctx.rd(fn)
    pe = PathEval(ctx)
    # "a committed turn ... invalidates the configured cache namespaces": every path of apply_changes that bumps the version
    # (also the no-store / no-batch-API tails) reaches the invalidation before it returns
    ap = ctx.func(APPLY)
    acfg = ctx.cfg(ap)
    bumps = [n for n in acfg.nodes if any(call_tail(c) == "_bump_version_etag" for c in node_calls(n))]
    inval = [n for n in acfg.nodes if any(call_tail(c) == (helper or "invalidate_namespace") for c in node_calls(n))]
    if helper is None:
        inval += [n for n in acfg.nodes if n.kind == "cond" and "cache_bust_mode" in src(ctx.rd(ap).inline(n.ast, n)) or (n.kind == "cond" and "bust_mode" in src(n.ast))]
    ctx.floor("C04.BUST", "version bumps in apply_changes", len(bumps), 1)
    for b in bumps:
        p = acfg.path([b], lambda m: m is acfg.exit, avoid=lambda m: m in inval, edge_ok=no_exc, include_start=False)
        ctx.check(p is None, "C04.BUST", ctx.okey(f"{ap.qual}/bump-is-followed-by-invalidation"), ap.loc(b.ast),
                  "every return after this version bump passes the on-apply invalidation",
                  "apply_changes can bump the version and return without running the on-apply cache invalidation (an early-return tail): with cache busting on, the configured namespaces keep "
                  "their entries across a turn that otherwise commits", ctx.path_witness(ap, p))
    sites = find_calls(ctx, fn, lambda c, nm: call_tail(c) == "invalidate_namespace")
    if not sites:
        ctx.violation("C04.BUST", f"{APPLY}/invalidate-missing", fn.loc(),
                      "apply_changes never invalidates the configured cache namespaces (cache_bust_mode='on-apply' has no effect)")
        return
    for n, c in sites:
        ok = False
        for e, pol, at in implied_atoms(ctx, fn, n):
            if not pol or not isinstance(e, ast.Compare) or len(e.ops) != 1 or not isinstance(e.ops[0], ast.Eq):
                continue
            sides = [e.left, e.comparators[0]]
            if any(const_str(x) == "on-apply" for x in sides):
                other = [x for x in sides if const_str(x) != "on-apply"][0]
                if "cfg:t4.cache_bust_mode" in pe.atoms(fn, other, at):
                    ok = True
        ctx.check(ok, "C04.BUST", f"{APPLY}/invalidate-guard", fn.loc(c),
                  "invalidate_namespace is dominated by cfg:t4.cache_bust_mode == 'on-apply'",
                  "invalidate_namespace is not guarded by the on-apply bust mode")
        # namespaces provenance
        a0 = c.args[0] if c.args else None
        atoms = pe.atoms(fn, a0, n) if a0 is not None else set()
        ctx.check("cfg:t4.cache.namespaces" in atoms or any(a.startswith("cfg:t4.cache.namespaces") for a in atoms),
                  "C04.BUST", f"{APPLY}/invalidate-namespaces", fn.loc(c),
                  "the invalidated namespace iterates cfg:t4.cache.namespaces", f"invalidated namespace derives from {sorted(atoms)}")
    # the invalidation itself completes: the fail-soft guard around it would hide a RuntimeError from a container edited
    # while it is being walked (an "expire while counting" pass), leaving the namespace populated after a committed turn
    from .. import hazards
    n_cf = 0
    for cf in ctx.prog.module("clematis.engine.cache").funcs.values():
        n_cf += 1
        for lp, hit, cont in hazards.mutation_during_iteration(ctx, cf):
            ctx.violation("C04.BUST", ctx.okey(f"{cf.qual}/walk-does-not-resize"), cf.loc(hit),
                          f"`{src(hit)[:40]}` resizes `{cont}` inside a loop that walks it directly: the first removal raises RuntimeError (changed size during iteration); apply_changes "
                          "swallows it (fail-soft), so the turn commits and bumps the version while the namespace keeps its entries")
    ctx.floor("C04.BUST", "functions of the cache manager scanned for walk-and-resize", n_cf, 15)
    ctx.info("C04.BUST", "positive-control/walk-and-resize", "sa/hazards.py", hazards.controls(ctx, "clematis.engine.health", ["iter"]))
    # must: on the on-apply branch with a cache manager, an invalidate site is reached


def rule_cad(ctx) -> None:
    sh = ctx.func("clematis.engine.apply:_should_snapshot")
    scfg = ctx.cfg(sh)
    rd = ctx.rd(sh)
    pe = PathEval(ctx, roots={"cfg": "t4cfg"})
    rets = [n for n in scfg.nodes if n.kind == "stmt" and isinstance(n.ast, ast.Return) and n.ast.value is not None]
    ctx.floor("C04.CAD", "returns of _should_snapshot", len(rets), 1)
    for r in rets:
        inl = rd.inline(r.ast.value, r)
        ok = False
        why = src(inl)
        e = inl
        if isinstance(e, ast.Compare) and len(e.ops) == 1 and isinstance(e.ops[0], ast.Eq) and isinstance(e.comparators[0], ast.Constant) and e.comparators[0].value == 0:
            l = e.left
            if isinstance(l, ast.BinOp) and isinstance(l.op, ast.Mod):
                la = pe.atoms(sh, r.ast.value, r, roots=("cfg", "ctx", "t4cfg"))
                ok = "ctx:turn_id" in la and any(a.endswith("snapshot_every_n_turns") for a in la)
        ctx.check(ok, "C04.CAD", f"{sh.qual}/cadence-expr", sh.loc(r.ast),
                  f"returns `{why}`: turn % n == 0 over ctx.turn_id and snapshot_every_n_turns",
                  f"cadence predicate is `{why}`, not turn % every == 0 over ctx.turn_id / snapshot_every_n_turns")
    fn = ctx.func(APPLY)
    cfg = ctx.cfg(fn)
    frd = ctx.rd(fn)
    ws = find_calls(ctx, fn, lambda c, nm: nm.endswith(":write_snapshot"))
    if not ws:
        ctx.violation("C04.CAD", f"{APPLY}/snapshot-missing", fn.loc(), "apply_changes never writes a snapshot")
        return
    ctx.floor("C04.CAD", "write_snapshot sites", len(ws), 1)

    def is_cadence_test(test: ast.AST, at) -> bool:
        inl = frd.inline(test, at)
        return isinstance(inl, ast.Call) and (dotted(inl.func) or "").endswith("_should_snapshot")

    for n, c in ws:
        g = [(t, p, b) for t, p, b in cfg.guards(n) if p and is_cadence_test(t, b.pred[0][0])]
        ctx.check(bool(g), "C04.CAD", f"{APPLY}/snapshot-guarded", fn.loc(c),
                  "write_snapshot is dominated by the true branch of _should_snapshot(ctx, cfg)",
                  "write_snapshot is not guarded by the cadence predicate (snapshot off-cadence)")
    # every normal path consults the cadence, and its true branch must write
    cad_nodes = [n for n in cfg.nodes if n.kind == "cond" and is_cadence_test(n.ast, n)]
    # extract-function refactor: a tail moved into a helper (`return _finish_without_apply(...)`) consults the cadence there -
    # a call to a repository function all of whose normal paths pass a cadence test counts as the consultation
    def _helper_consults(h) -> bool:
        hcfg, hrd = ctx.cfg(h), ctx.rd(h)

        def _t(test, at):
            inl = hrd.inline(test, at)
            return isinstance(inl, ast.Call) and (dotted(inl.func) or "").endswith("_should_snapshot")

        hc = [n for n in hcfg.nodes if n.kind == "cond" and _t(n.ast, n)]
        return bool(hc) and must_pass(hcfg, [hcfg.entry], lambda n: n is hcfg.exit, lambda n: n in hc, edge_ok=no_exc) is None

    _seen_h: Dict[str, bool] = {}
    for n in cfg.nodes:
        if n.ast is None or n.kind not in ("stmt", "cond"):
            continue
        for c in [x for x in ast.walk(n.ast) if isinstance(x, ast.Call)] if not isinstance(n.ast, (ast.FunctionDef, ast.ClassDef)) else []:
            r = ctx.prog.callee(fn, c)
            if r and r[0] == "func" and r[1] in ctx.prog.funcs and r[1] != fn.qual and ctx.prog.funcs[r[1]].module is fn.module:
                if r[1] not in _seen_h:
                    _seen_h[r[1]] = _helper_consults(ctx.prog.funcs[r[1]])
                if _seen_h[r[1]]:
                    cad_nodes.append(n)
    p = must_pass(cfg, [cfg.entry], lambda n: n is cfg.exit, lambda n: n in cad_nodes, edge_ok=no_exc)
    ctx.check(p is None, "C04.CAD", f"{APPLY}/cadence-consulted", fn.loc(),
              f"every normal path passes one of the {len(cad_nodes)} cadence tests",
              "a normal return is reachable without consulting the snapshot cadence", ctx.path_witness(fn, p))
    wnodes = {n for n, _ in ws}
    for cn in cad_nodes:
        tb = [t for t, l in cn.succ if l == "T"]
        p = must_pass(cfg, tb, lambda n: n is cfg.exit, lambda n: n in wnodes, edge_ok=no_exc)
        ctx.check(p is None, "C04.CAD", f"{APPLY}/cadence-true-writes:{len(ctx.results)}", fn.loc(cn.ast),
                  "on the cadence-true branch every normal path writes the snapshot",
                  "cadence-true branch can return without writing the snapshot", ctx.path_witness(fn, p))


# ------------------------------------------------------------------- KILL
def _kill_guard(ctx, fn, node, pe) -> bool:
    return gate_on(ctx, fn, node, pe, "cfg:t4.enabled")


def rule_kill(ctx) -> None:
    fn = ctx.func(RUN_TURN)
    cfg = ctx.cfg(fn)
    pe = PathEval(ctx)
    gated = []
    for n in cfg.reachable_from_entry():
        for c in node_calls(n):
            nm = ctx.prog.callee_name(fn, c)
            tail = call_tail(c)
            what = None
            if tail == "t4_filter" or nm.endswith(":t4_filter"):
                what = "t4_filter"
            elif tail == "apply_changes" or nm.endswith(":apply_changes"):
                what = "apply_changes"
            elif nm.startswith("clematis.engine.gel:") and nm.rsplit(":", 1)[1] in ("tick", "apply_merge", "apply_split", "apply_promotion"):
                what = "gel:" + nm.rsplit(":", 1)[1]
            elif tail == "_append_jsonl" and c.args and const_str(c.args[0]) in ("t4.jsonl", "apply.jsonl"):
                what = "log:" + const_str(c.args[0])
            if what:
                gated.append((n, c, what))
    kinds = {w for _, _, w in gated}
    for need in ("t4_filter", "apply_changes", "log:t4.jsonl", "log:apply.jsonl"):
        if need not in kinds:
            raise AnalysisError(f"anchor-vanished: run_turn has no {need} site")
    ctx.floor("C04.KILL", "kill-switch-governed sites in run_turn", len(gated), 8)
    for n, c, what in gated:
        ctx.check(_kill_guard(ctx, fn, n, pe), "C04.KILL", f"{RUN_TURN}/{what}", fn.loc(c),
                  f"{what} is dominated by the true branch of the cfg:t4.enabled test",
                  f"{what} is reachable with the T4 kill switch off")
    # sibling cross-check: every other caller of apply_changes in the engine
    for f2 in ctx.prog.all_funcs("clematis.engine."):
        if f2.qual == RUN_TURN or f2.module.name.startswith("clematis.engine.apply"):
            continue
        sites = []
        c2 = ctx.cfg(f2)
        rd2 = ctx.rd(f2)
        for n in c2.nodes:
            for c in node_calls(n):
                tail = call_tail(c)
                is_apply = tail == "apply_changes" and not isinstance(c.func, ast.Attribute) or ctx.prog.callee_name(f2, c).endswith("apply:apply_changes")
                if not is_apply and isinstance(c.func, ast.Name):
                    for d in rd2.reaching(c.func.id, n):
                        if d.value is not None and any(const_str(x) == "apply_changes" for x in ast.walk(d.value)):
                            is_apply = True
                if is_apply and len(c.args) >= 2:
                    sites.append((n, c))
        for n, c in sites:
            ok = _kill_guard(ctx, f2, n, pe)
            if not ok and f2.parent is not None:
                # a local closure: the kill switch may be tested where the closure is used
                par = f2.parent
                pc = ctx.cfg(par)
                from ..dataflow import node_exprs
                uses = [m for m in pc.nodes for e in node_exprs(m) for x in walk_no_defs(e) if isinstance(x, ast.Name) and x.id == f2.name and isinstance(x.ctx, ast.Load)]
                ok = bool(uses) and all(_kill_guard(ctx, par, m, pe) for m in uses)
            ctx.check(ok, "C04.KILL", f"{f2.qual}/apply_changes", f2.loc(c),
                      "sibling caller of apply_changes honours cfg:t4.enabled",
                      "sibling caller commits through apply_changes without consulting the T4 kill switch (cfg:t4.enabled)")


def _is_apply_call(ctx, f, rd, n, c) -> bool:
    tail = call_tail(c)
    is_apply = tail == "apply_changes" and not isinstance(c.func, ast.Attribute) or ctx.prog.callee_name(f, c).endswith("apply:apply_changes")
    if not is_apply and isinstance(c.func, ast.Name):
        for d in rd.reaching(c.func.id, n):
            if d.value is not None and any(const_str(x) == "apply_changes" for x in ast.walk(d.value)):
                is_apply = True
    return is_apply and len(c.args) >= 2


def _param_multi_called(ctx, h, pname: str) -> Optional[List]:
    """a path in helper `h` on which the callable parameter `pname` is invoked a second time (retry / loop)"""
    cfg = ctx.cfg(h)
    calls = [n for n in cfg.nodes for c in node_calls(n) if isinstance(c.func, ast.Name) and c.func.id == pname]
    for a in calls:
        p = cfg.path([a], lambda m: m in calls, include_start=False)
        if p is not None:
            return [a] + p
    return None


def rule_commit_once(ctx) -> None:
    """sibling committers (the agent batch driver): apply_changes runs at most once per committed buffer - it is not inside
    a retry, and a closure containing it is not handed to a helper that may invoke its argument twice"""
    n_sites = 0
    for f2 in ctx.prog.all_funcs("clematis.engine."):
        if f2.qual == RUN_TURN or f2.module.name.startswith("clematis.engine.apply") or f2.parent is not None:
            continue
        cfg = ctx.cfg(f2)
        rd = ctx.rd(f2)
        inv = []  # (node, description)
        for n in cfg.nodes:
            for c in node_calls(n):
                if _is_apply_call(ctx, f2, rd, n, c):
                    inv.append((n, "direct call"))
        for ch in ctx.prog.all_funcs(f2.qual + "."):
            ccfg = ctx.cfg(ch)
            crd = ctx.rd(ch)
            if not any(_is_apply_call(ctx, ch, crd, n, c) for n in ccfg.nodes for c in node_calls(n)):
                continue
            for n in cfg.nodes:
                for c in node_calls(n):
                    if isinstance(c.func, ast.Name) and c.func.id == ch.name:
                        inv.append((n, f"call of closure {ch.name}"))
                        continue
                    args = list(c.args) + [k.value for k in c.keywords]
                    for i, a in enumerate(c.args):
                        if isinstance(a, ast.Name) and a.id == ch.name:
                            cal = ctx.prog.callee(f2, c)
                            if cal is None or cal[0] != "func" or cal[1] not in ctx.prog.funcs:
                                ctx.undecided("C04.ONCE", f"{f2.qual}/closure-passed:{ch.name}", f2.loc(c), f"closure containing apply_changes is passed to an unresolved callee `{src(c.func)}`")
                                continue
                            h = ctx.prog.funcs[cal[1]]
                            hp = [p for p in h.params if p not in ("self", "cls")] if h.cls is not None else list(h.params)
                            if i >= len(hp):
                                continue
                            w = _param_multi_called(ctx, h, hp[i])
                            ctx.check(w is None, "C04.ONCE", f"{f2.qual}/closure-run-once:{ch.name}->{h.name}", f2.loc(c),
                                      f"{h.name} invokes its callable argument at most once per call",
                                      f"the closure `{ch.name}` contains apply_changes and is handed to `{h.name}`, which can invoke `{hp[i]}` a second time (retry after an exception): "
                                      "the same approved batch reaches the store twice and the version is bumped twice for one turn",
                                      ctx.path_witness(h, w) if w else None)
                            inv.append((n, f"closure {ch.name} via {h.name}"))
        if not inv:
            continue
        n_sites += len(inv)
        nodes = [n for n, _ in inv]
        for n, desc in inv:
            # the loops this invocation sits in (the buffer loop): advancing one of them takes the next buffer
            heads = [h for h in cfg.nodes if h.kind == "iter" and isinstance(h.ast, (ast.For, ast.AsyncFor)) and n.ast is not None and any(y is n.ast for st in h.ast.body for y in ast.walk(st))]
            p = cfg.path([n], lambda m: m in nodes, avoid=lambda m: m in heads, include_start=False)
            ctx.check(p is None, "C04.ONCE", f"{f2.qual}/commit-once@{desc.split(' ')[0]}", f2.loc(n.ast),
                      f"apply_changes ({desc}) cannot run again before the next buffer is taken",
                      f"apply_changes ({desc}) can be reached again without advancing to the next buffer: a batch is committed twice", ctx.path_witness(f2, [n] + p) if p else None)
    ctx.floor("C04.ONCE", "apply_changes invocation sites in sibling committers", n_sites, 1)


def rule_snapshot_written(ctx) -> None:
    """a cadence turn's snapshot is really written: every normal return of write_snapshot lies behind the atomic body write
    (no 'already up to date' shortcut keyed on the version counter, which is not a content hash)"""
    fn = ctx.func("clematis.engine.snapshot:write_snapshot")
    cfg = ctx.cfg(fn)
    writes = [n for n in cfg.nodes if any(call_tail(c) in ("atomic_write_text", "atomic_write_bytes", "atomic_write_json") for c in node_calls(n))]
    ctx.floor("C04.CAD", "body write sites of write_snapshot", len(writes), 1)
    # the body write: the first atomic write (the sidecar comes after it)
    p = cfg.path([cfg.entry], lambda x: x is cfg.exit, avoid=lambda x: x in writes, edge_ok=no_exc)
    ctx.check(p is None, "C04.CAD", f"{fn.qual}/every-return-behind-the-write", fn.loc(), "every normal return of write_snapshot follows the atomic body write",
              "write_snapshot can return a snapshot path without writing the body: apply_changes reports a snapshot for the cadence turn while the file still holds another state "
              "(the version etag is a counter, not a content hash)", ctx.path_witness(fn, p))


def _config_holders(fn: Func, ctxp: str) -> Set[str]:
    """attribute names of the ctx object from which fn takes the configuration: ctx.cfg / ctx.config / getattr(ctx, "<name>") /
    `for attr in ("cfg", "config")`"""
    out: Set[str] = set()
    for x in walk_no_defs(fn.node):
        if isinstance(x, ast.Attribute) and isinstance(x.value, ast.Name) and x.value.id == ctxp and x.attr in ("cfg", "config"):
            out.add(x.attr)
        if isinstance(x, ast.Call) and dotted(x.func) in ("getattr", "hasattr") and len(x.args) >= 2 and isinstance(x.args[0], ast.Name) and x.args[0].id == ctxp:
            k = const_str(x.args[1])
            if k in ("cfg", "config"):
                out.add(k)
            elif isinstance(x.args[1], ast.Name):
                for y in walk_no_defs(fn.node):
                    if isinstance(y, ast.For) and isinstance(y.target, ast.Name) and y.target.id == x.args[1].id and isinstance(y.iter, (ast.Tuple, ast.List)):
                        out |= {const_str(e) for e in y.iter.elts if const_str(e) in ("cfg", "config")}
    return out


def holder_shape_gaps(fn: Func, ctxp: str) -> List[Tuple[ast.AST, str]]:
    """(node, section) for every section of the configuration that fn takes from the holder by ATTRIBUTE only (getattr(H, "t4") /
    H.t4 with H = getattr(ctx, "cfg" / "config") or a local bound to it) while never looking the same section up as a mapping
    key (H.get("t4") / H["t4"]).  configs.validate returns a plain dict and run_turn's accessor accepts one: a reader that
    knows only the attribute shape silently falls back to its built-in defaults for such a ctx."""
    holders: Set[str] = set()

    def is_holder(e: ast.AST) -> bool:
        if isinstance(e, ast.Name) and e.id in holders:
            return True
        if isinstance(e, ast.Attribute) and isinstance(e.value, ast.Name) and e.value.id == ctxp and e.attr in ("cfg", "config"):
            return True
        return isinstance(e, ast.Call) and dotted(e.func) == "getattr" and len(e.args) >= 2 and isinstance(e.args[0], ast.Name) and e.args[0].id == ctxp \
            and (const_str(e.args[1]) in ("cfg", "config") or isinstance(e.args[1], ast.Name))

    for _ in range(2):
        for x in walk_no_defs(fn.node):
            if isinstance(x, ast.Assign) and len(x.targets) == 1 and isinstance(x.targets[0], ast.Name) and is_holder(x.value):
                holders.add(x.targets[0].id)
    by_attr, by_key = {}, set()
    for x in walk_no_defs(fn.node):
        if isinstance(x, ast.Call) and dotted(x.func) == "getattr" and len(x.args) >= 2 and is_holder(x.args[0]) and const_str(x.args[1]):
            by_attr.setdefault(const_str(x.args[1]), x)
        elif isinstance(x, ast.Attribute) and is_holder(x.value) and x.attr not in ("get", "items", "keys", "__dict__"):
            by_attr.setdefault(x.attr, x)
        elif isinstance(x, ast.Call) and isinstance(x.func, ast.Attribute) and x.func.attr == "get" and is_holder(x.func.value) and x.args and const_str(x.args[0]):
            by_key.add(const_str(x.args[0]))
        elif isinstance(x, ast.Subscript) and is_holder(x.value) and const_str(x.slice):
            by_key.add(const_str(x.slice))
    return [(n, sec) for sec, n in sorted(by_attr.items()) if sec not in by_key]


def rule_config_holders(ctx) -> None:
    """"the configured cadence / cache busting": one turn has one configuration.  run_turn reads it (kill switch, every stage
    gate) from ctx.cfg or ctx.config, the snapshot writer from both; the apply stage must look in the same places - a ctx that
    carries its validated config in ctx.cfg only (what run_smoke_turn and the console build) otherwise commits with apply's
    built-in defaults: snapshot cadence 1 instead of the configured one, no cache busting."""
    core = ctx.func("clematis.engine.orchestrator.core:_get_cfg")
    want = _config_holders(core, core.params[0])
    if want != {"cfg", "config"}:
        raise AnalysisError(f"anchor-vanished: run_turn's config accessor reads {sorted(want)}")
    n = 0
    quals = sorted(f.qual for f in ctx.prog.module("clematis.engine.apply").funcs.values() if f.params and _config_holders(f, f.params[0])) + ["clematis.engine.snapshot:_get_cfg"]
    for q in quals:
        fn = ctx.func(q)
        got = _config_holders(fn, fn.params[0])
        if not got:
            continue
        n += 1
        for h in sorted(want - got):
            ctx.violation("C04.CAD", f"{fn.qual}/config-holder:{h}", fn.loc(),
                          f"{fn.name} takes the t4 configuration from ctx.{'/ctx.'.join(sorted(got))} only, while run_turn (kill switch, stage gates) and the snapshot writer also accept ctx.{h}: "
                          f"for a ctx that carries its config in ctx.{h} only, a committed turn uses apply's built-in defaults - a snapshot on every turn instead of the configured cadence and no "
                          "on-apply cache invalidation")
        if not (want - got):
            ctx.holds("C04.CAD", f"{fn.qual}/config-holders", fn.loc(), f"{fn.name} reads the configuration from ctx.cfg and ctx.config like run_turn")
        gaps = holder_shape_gaps(fn, fn.params[0])
        ctx.check(not gaps, "C04.CAD", f"{fn.qual}/config-holder-shape", fn.loc(gaps[0][0] if gaps else None), f"{fn.name} takes its section from an object-shaped and from a dict-shaped holder alike",
                  (f"{fn.name} takes `{gaps[0][1]}` from the config holder by attribute only (`{src(gaps[0][0])[:50]}`): a ctx whose config is the plain dict configs.validate returns (run_turn's accessor "
                   "accepts it) commits with apply's built-in defaults - a snapshot on every turn, no cache busting, weights clamped to [-1, 1] whatever is configured") if gaps else "")
    ctx.floor("C04.CAD", "configuration accessors of the apply / snapshot stage", n, 3)


def run(ctx) -> None:
    rule_config_holders(ctx)
    rule_once(ctx)
    rule_batch(ctx)
    rule_esc(ctx)
    rule_esc_snapshot_reads(ctx)
    rule_bust(ctx)
    rule_cad(ctx)
    rule_snapshot_written(ctx)
    rule_kill(ctx)
    rule_commit_once(ctx)
