"""C12 Propagation follows the documented spreading rule within its budgets."""
from __future__ import annotations

import ast
from typing import List, Optional, Set, Tuple

from ..effects import Effects
from ..model import AnalysisError, Func, const_str, dotted, kwarg, src, walk_no_defs
from ..util import call_tail, enclosing, find_calls, no_exc, node_calls

EXPLANATION = (
    "C12 decided statically on clematis/engine/stages/t1.py (+ graph/store.py): (RO) t1_propagate and its callees perform "
    "no mutating operation on the graph store, its graphs or the engine state (receiver classes resolved through the store "
    "hint); (LOOP) the work loop is guarded by pops < effective budget with the counter incremented once per iteration "
    "before any continue, effective budgets reach the guards only via min(config, slice cap), radius and layer tests dominate "
    "every accumulation, the relaxation cap is tested after every increment and leaves both loops, the node budget gates "
    "expansion; (PAIR) each accumulation is paired with propagations += 1 and each skip with its counter, reported iters = "
    "min(layers processed, cap); (RULE) a contribution is exactly popped weight x edge weight x relation multiplier x "
    "_compute_decay(dist[u]+1); (SEED/OUT) seeds are added only under `label.lower() in text` in sorted order, deltas are one "
    "per id from sorted(acc.items()); (CACHEKEY) every budget that bounds the computation is part of the result-cache key, "
    "so a cached result never outlives a tighter cap. Not decided: agreement with a reference model on all graphs, EPS numerics."
)
RULES = {
    "C12.RO": "effect analysis of t1_propagate with the store receiver resolved to InMemoryGraphStore",
    "C12.LOOP": "guard facts / dominance of budget tests over the accumulation, increment-before-continue, break-out shape",
    "C12.PAIR": "must-pass pairing of accumulation and skip branches with their counters",
    "C12.RULE": "factor provenance of the contribution product",
    "C12.SEED": "seeding condition and iteration order",
    "C12.OUT": "delta construction from sorted accumulators",
    "C12.CACHEKEY": "free budget variables of the guarded loop are contained in the def-use slice of the cache key",
}

T1 = "clematis.engine.stages.t1"
INNER = T1 + ":t1_propagate._t1_one_graph"
STORE = "clematis.graph.store:InMemoryGraphStore"


def rule_ro(ctx) -> None:
    fn = ctx.func(T1 + ":t1_propagate")
    ef = Effects(ctx, depth=5, hints={"store": STORE})
    effs = ef.of(fn)
    bad = [e for e in effs if e.kind == "mutate" and e.origin.startswith(("param:state", "param:ctx", "param:text"))]
    # resolved store methods reached (so that the hint actually bit)
    reached = {q for q, _ in ef._memo if q.startswith("clematis.graph.store:")}
    ctx.floor("C12.RO", "graph-store methods resolved from t1_propagate", len(reached), 3)
    if not bad:
        ctx.holds("C12.RO", f"{fn.qual}/store-untouched", fn.loc(),
                  f"no mutation rooted at state/store/ctx through {len(ef._memo)} reached functions (store API used: {sorted(x.split('.')[-1] for x in reached)})")
    for e in bad:
        ctx.violation("C12.RO", f"{fn.qual}/{e.origin}:{e.desc[:40]}", e.where, f"propagation modifies the graph store / engine state: {e.fmt()}")
    # read API of the store must not create graphs
    for mname in ("get_graph", "csr", "csc", "version_etag"):
        m = ctx.func(f"{STORE}.{mname}")
        es = [e for e in Effects(ctx, depth=3).of(m) if e.kind == "mutate" and e.origin == "self"]
        ctx.check(not es, "C12.RO", f"{m.qual}/read-does-not-create", m.loc(), f"store.{mname} writes nothing",
                  f"store.{mname} mutates the store ({es[0].fmt() if es else ''}): reading an unknown graph creates it")


def _outer_by_key(ctx, key: str, want_slice: Optional[str] = None) -> Optional[str]:
    """local of t1_propagate whose definition reads the configuration / slice key `key`"""
    outer = ctx.func(T1 + ":t1_propagate")
    best = None
    for d in ctx.rd(outer).all_defs:
        if d.kind in ("assign", "walrus") and d.value is not None and any(const_str(z) == key for z in ast.walk(d.value)):
            if best is None:
                best = d.name
    return best


def _derived_from_key(ctx, name: Optional[str], key: str, depth: int = 4) -> bool:
    """the definition of local `name` of t1_propagate (transitively) reads the configuration / slice key `key`"""
    if not name:
        return False
    outer = ctx.func(T1 + ":t1_propagate")
    rd = ctx.rd(outer)
    seen, work = set(), [name]
    for _ in range(depth):
        nxt = []
        for nm in work:
            if nm in seen:
                continue
            seen.add(nm)
            for d in rd.all_defs:
                if d.name == nm and d.value is not None and d.kind in ("assign", "walrus"):
                    if any(const_str(z) == key for z in ast.walk(d.value)):
                        return True
                    nxt += [y.id for y in ast.walk(d.value) if isinstance(y, ast.Name)]
        work = nxt
    return False


_ROLES: dict = {}


def roles(ctx) -> dict:
    """variable roles of the propagation kernel, resolved structurally (no spelling of a local is assumed)"""
    key = id(ctx.prog)
    if _ROLES.get("_prog") == key:
        return _ROLES
    _ROLES.clear()
    _ROLES["_prog"] = key
    fn = ctx.func(INNER)
    cfg = ctx.cfg(fn)
    rd = ctx.rd(fn)
    R = _ROLES
    # accumulator: acc = defaultdict(float)
    for x in walk_no_defs(fn.node):
        if isinstance(x, (ast.Assign, ast.AnnAssign)) and x.value is not None and isinstance(x.value, ast.Call) and call_tail(x.value) == "defaultdict":
            t = x.targets[0] if isinstance(x, ast.Assign) else x.target
            if isinstance(t, ast.Name):
                R.setdefault("acc", t.id)
    # contribution: acc[...] += <name> inside the work loop
    for wst in [x for x in walk_no_defs(fn.node) if isinstance(x, ast.While)]:
        for x in ast.walk(wst):
            if isinstance(x, ast.AugAssign) and isinstance(x.target, ast.Subscript) and src(x.target.value) == R.get("acc") and isinstance(x.value, ast.Name):
                R.setdefault("contrib", x.value.id)
    # work loop: while <pops> < <budget> and ...
    whiles = [n for n in cfg.nodes if n.kind == "cond" and isinstance(n.stmt, ast.While)]
    if whiles:
        test = whiles[0].ast
        for v in (test.values if isinstance(test, ast.BoolOp) else [test]):
            if isinstance(v, ast.Compare) and len(v.ops) == 1 and isinstance(v.ops[0], ast.Lt) and isinstance(v.left, ast.Name) and isinstance(v.comparators[0], ast.Name):
                if any(isinstance(y, ast.AugAssign) and src(y.target) == v.left.id for y in walk_no_defs(fn.node)):
                    R.setdefault("pops", v.left.id)
                    R.setdefault("queue_cap", v.comparators[0].id)
    # heap item: (_, key, u, w) = heapq.heappop(...)
    for x in walk_no_defs(fn.node):
        if isinstance(x, ast.Assign) and isinstance(x.value, ast.Call) and dotted(x.value.func) == "heapq.heappop" and isinstance(x.targets[0], ast.Tuple) and len(x.targets[0].elts) == 4:
            R.setdefault("u", src(x.targets[0].elts[2]))
            R.setdefault("w", src(x.targets[0].elts[3]))
    # hop distance: d = dist[u] + 1
    for d in rd.all_defs:
        v = d.value
        if d.kind == "assign" and isinstance(v, ast.BinOp) and isinstance(v.op, ast.Add):
            for a, b in ((v.left, v.right), (v.right, v.left)):
                if isinstance(a, ast.Subscript) and isinstance(a.value, ast.Name) and src(a.slice) == R.get("u") and isinstance(b, ast.Constant) and b.value == 1:
                    R.setdefault("d", d.name)
                    R.setdefault("dist", a.value.id)
    # caps (free variables defined in t1_propagate)
    R["radius_cap"] = _outer_by_key(ctx, "radius_cap")
    R["node_budget"] = _outer_by_key(ctx, "node_budget")
    R["relax_cap"] = _outer_by_key(ctx, "relax_cap")
    R["base_queue"] = _outer_by_key(ctx, "queue_budget")
    R["base_layers"] = _outer_by_key(ctx, "iter_cap_layers")
    # layer cap: the other bound the hop distance is compared with inside the kernel
    for y in walk_no_defs(fn.node):
        if isinstance(y, ast.Compare) and len(y.ops) == 1 and isinstance(y.ops[0], ast.Gt) and src(y.left) == R.get("d") and isinstance(y.comparators[0], ast.Name) and y.comparators[0].id != R["radius_cap"]:
            R.setdefault("layer_cap", y.comparators[0].id)
    R["queue_cap_outer"] = R.get("queue_cap") if _derived_from_key(ctx, R.get("queue_cap"), "t1_pops") else None
    if R.get("layer_cap") and not _derived_from_key(ctx, R["layer_cap"], "t1_iters"):
        R["layer_cap_unclamped"] = True
    # relaxation counter: the name compared with the relaxation cap
    for n in cfg.nodes:
        if n.kind == "cond":
            for y in ast.walk(n.ast):
                if isinstance(y, ast.Compare) and len(y.ops) == 1 and isinstance(y.ops[0], ast.GtE) and isinstance(y.left, ast.Name) and src(y.comparators[0]) == R.get("relax_cap"):
                    R.setdefault("propagations", y.left.id)
    # result cache
    outer = ctx.func(T1 + ":t1_propagate")
    for x in walk_no_defs(outer.node):
        if isinstance(x, ast.Assign) and isinstance(x.value, ast.Call) and call_tail(x.value) == "_get_cache" and isinstance(x.targets[0], ast.Tuple) and isinstance(x.targets[0].elts[0], ast.Name):
            R.setdefault("cache", x.targets[0].elts[0].id)
    need = ("acc", "contrib", "pops", "queue_cap", "u", "w", "d", "dist", "radius_cap", "node_budget", "relax_cap", "layer_cap", "propagations", "cache")
    missing = [k for k in need if not R.get(k)]
    if missing:
        raise AnalysisError(f"anchor-vanished: roles of the propagation kernel not found: {missing}")
    return R


def _aug(n, name: str, op=ast.Add) -> bool:
    return n.kind == "stmt" and isinstance(n.ast, ast.AugAssign) and isinstance(n.ast.op, op) and src(n.ast.target) == name


def rule_loop(ctx) -> None:
    fn = ctx.func(INNER)
    cfg = ctx.cfg(fn)
    whiles = [n for n in cfg.nodes if n.kind == "cond" and isinstance(n.stmt, ast.While)]
    ctx.floor("C12.LOOP", "work loops in _t1_one_graph", len(whiles), 1)
    wl = whiles[0]
    test = wl.ast
    R = roles(ctx)
    conj = [src(v) for v in (test.values if isinstance(test, ast.BoolOp) and isinstance(test.op, ast.And) else [test])]
    ctx.check(f"{R['pops']} < {R['queue_cap']}" in conj and R["queue_cap"] == R.get("queue_cap_outer"), "C12.LOOP", f"{fn.qual}/pop-budget-guard", fn.loc(test),
              "the work loop runs only while pops < effective (slice-clamped) queue budget", f"work-loop test `{src(test)}` does not conjoin pops < the slice-clamped queue budget")
    body_t = [t for t, l in wl.succ if l == "T"][0]
    incs = [n for n in cfg.nodes if _aug(n, R["pops"]) and cfg.dominates(body_t, n)]
    conts = [n for n in cfg.nodes if n.kind == "stmt" and isinstance(n.ast, ast.Continue) and cfg.dominates(body_t, n)
             and not any(isinstance(st, ast.For) for st, part in enclosing(ctx.prog, fn, n.ast) if part == "body" and st is not wl.stmt and any(x is n.ast for x in ast.walk(st)))]
    ok = len(incs) == 1 and isinstance(incs[0].ast.value, ast.Constant) and incs[0].ast.value.value == 1 and all(cfg.dominates(incs[0], c) for c in conts)
    # also every path from loop body start back to the head passes the increment
    p = cfg.path([body_t], lambda n: n is wl, avoid=lambda n: n in incs, include_start=False) if incs else [wl]
    ctx.check(ok and p is None, "C12.LOOP", f"{fn.qual}/pop-counted-once-per-iteration", fn.loc(incs[0].ast) if incs else fn.loc(),
              f"pops += 1 dominates all {len(conts)} continue statements and lies on every iteration",
              "an iteration of the work loop can complete (or continue) without counting a pop: the pop budget does not bound the work",
              ctx.path_witness(fn, p) if p else None)
    # accumulation guarded by radius and layer caps
    accs = [n for n in cfg.nodes if n.kind == "stmt" and isinstance(n.ast, ast.AugAssign) and isinstance(n.ast.target, ast.Subscript) and src(n.ast.target.value) == R["acc"]
            and cfg.dominates(body_t, n)]
    ctx.floor("C12.LOOP", "accumulation sites inside the work loop", len(accs), 1)
    for a in accs:
        facts = cfg.facts(a)
        dname = None
        for ftxt, pol in facts:
            if ftxt.endswith("> " + R["radius_cap"]) and not pol:
                dname = ftxt.split(" ")[0]
        ok_r = dname is not None
        ok_l = dname is not None and (f"{dname} > {R['layer_cap']}", False) in facts
        ctx.check(ok_r, "C12.LOOP", f"{fn.qual}/radius-guard", fn.loc(a.ast), f"acc[...] += contrib only where not ({dname} > radius_cap)",
                  "a contribution is accumulated without the radius-cap test: nodes beyond the radius are touched")
        ctx.check(ok_l, "C12.LOOP", f"{fn.qual}/layer-guard", fn.loc(a.ast), f"acc[...] += contrib only where not ({dname} > effective_iter_cap_layers)",
                  "a contribution is accumulated without the (slice-clamped) layer-cap test")
        if dname:
            rd = ctx.rd(fn)
            ds = [d for d in rd.reaching(dname, a) if d.kind != "mutate"]
            okd = bool(ds) and all(d.value is not None and src(d.value).replace(" ", "") in (f"{R['dist']}[{R['u']}]+1", f"1+{R['dist']}[{R['u']}]") for d in ds)
            ctx.check(okd, "C12.LOOP", f"{fn.qual}/distance-is-hops", fn.loc(a.ast), f"{dname} = dist[u] + 1 (hop distance of the target)",
                      f"the capped distance `{dname}` is not dist[u] + 1")
    # node budget gates expansion
    csr_names = {d.name for d in ctx.rd(fn).all_defs if d.value is not None and isinstance(d.value, ast.Call) and call_tail(d.value) == "csr"}
    fors = [n for n in cfg.nodes if n.kind == "iter" and any(isinstance(y, ast.Name) and y.id in csr_names for y in ast.walk(n.ast.iter)) and cfg.dominates(body_t, n)]
    ctx.floor("C12.LOOP", "edge-expansion loops", len(fors), 1)
    for f in fors:
        facts = cfg.facts(f)
        ok = any((not pol) and a.startswith(f"abs({R['acc']}[") and a.endswith(">= " + R["node_budget"]) for a, pol in facts)
        ctx.check(ok, "C12.LOOP", f"{fn.qual}/node-budget-gates-expansion", fn.loc(f.ast), "a node is expanded only where abs(acc[u]) < node_budget",
                  "expansion of a node is not gated by the per-node budget")
    # relaxation cap: tested after every increment of propagations, leaves both loops
    pincs = [n for n in cfg.nodes if _aug(n, R["propagations"]) and cfg.dominates(body_t, n)]
    ctx.floor("C12.LOOP", "propagation increments", len(pincs), 1)
    rtests = [n for n in cfg.nodes if n.kind == "cond" and f"{R['propagations']} >= {R['relax_cap']}" in src(n.ast)]
    for pi in pincs:
        heads = [h for h in cfg.nodes if h.kind == "iter" or h is wl]
        p2 = cfg.path([pi], lambda n: n in heads, avoid=lambda n: n in rtests, edge_ok=no_exc, include_start=False)
        ctx.check(bool(rtests) and p2 is None, "C12.LOOP", f"{fn.qual}/relax-cap-tested-after-increment", fn.loc(pi.ast),
                  "every relaxation is followed by the relax_cap test before the next edge",
                  "a relaxation can be followed by another one without the relax_cap test", ctx.path_witness(fn, p2))
    for rt in rtests:
        tb = [t for t, l in rt.succ if l == "T"][0]
        # from the true branch no further accumulation is reachable without leaving the while loop
        # flags set to True under the cap-hit branch steer the enclosing `if flag: break` (path-sensitive on that flag only)
        flags = {t.id for m in cfg.nodes if m.kind == "stmt" and cfg.dominates(tb, m) and isinstance(m.ast, ast.Assign)
                 and isinstance(m.ast.value, ast.Constant) and m.ast.value.value is True for t in m.ast.targets if isinstance(t, ast.Name)}
        resets = [m for m in cfg.nodes if m.kind == "stmt" and isinstance(m.ast, ast.Assign) and isinstance(m.ast.value, ast.Constant)
                  and m.ast.value.value is False and any(isinstance(t, ast.Name) and t.id in flags for t in m.ast.targets)]
        def infeasible(n):
            return n.kind == "branch" and n.label == "F" and isinstance(n.ast, ast.Name) and n.ast.id in flags
        p3 = cfg.path([tb], lambda n: n in accs, avoid=infeasible)
        if p3 is not None and any(m in p3 for m in resets) is False and not flags:
            pass
        ctx.check(p3 is None, "C12.LOOP", f"{fn.qual}/relax-cap-stops-work", fn.loc(rt.ast), "once the relaxation cap is hit no further accumulation is reachable",
                  "after the relaxation cap is hit another accumulation is still reachable (only the inner loop is left)", ctx.path_witness(fn, p3))
    # effective budgets come from min(config, slice)
    outer = ctx.func(T1 + ":t1_propagate")
    ord_ = ctx.rd(outer)
    for role, name, cfgkey, key in (("effective-queue-budget", R["queue_cap"], "queue_budget", "t1_pops"), ("effective-layer-cap", R["layer_cap"], "iter_cap_layers", "t1_iters")):
        ds = [d for d in ord_.all_defs if d.name == name and d.kind == "assign"]
        ok = False
        why = "no definition"
        for d in ds:
            v = d.value
            mins = [x for x in ast.walk(v) if isinstance(x, ast.Call) and dotted(x.func) == "min" and len(x.args) == 2]
            why = "no min(config cap, slice cap)"
            for mcall in mins:
                names = [a for a in mcall.args if isinstance(a, ast.Name)]
                base = [a.id for a in names if _derived_from_key(ctx, a.id, cfgkey)]
                slc = [a for a in mcall.args if any(isinstance(y, ast.Name) and _derived_from_key(ctx, y.id, key) for y in ast.walk(a))]
                if not base or not slc:
                    continue
                if isinstance(v, ast.IfExp):
                    ok = src(v.body) == base[0] or src(v.orelse) == base[0]
                    why = "the unclamped arm is not the configured cap"
                else:
                    ok = True
        ctx.check(ok and len(ds) == 1, "C12.LOOP", f"{outer.qual}/{role}", outer.loc(ds[0].value) if ds else outer.loc(),
                  f"{name} = configured {cfgkey} or min(configured {cfgkey}, slice cap {key})", f"{name} is not min(configured {cfgkey}, slice cap {key}) ({why}): a tighter per-slice cap does not bind")


def rule_pair(ctx) -> None:
    fn = ctx.func(INNER)
    cfg = ctx.cfg(fn)
    R = roles(ctx)
    heads = [h for h in cfg.nodes if h.kind == "iter" or (h.kind == "cond" and isinstance(h.stmt, ast.While))]
    accs = [n for n in cfg.nodes if n.kind == "stmt" and isinstance(n.ast, ast.AugAssign) and isinstance(n.ast.target, ast.Subscript) and src(n.ast.target.value) == R["acc"]
            and src(n.ast.value) == R["contrib"]]
    pincs = [n for n in cfg.nodes if _aug(n, R["propagations"])]
    for a in accs:
        p = cfg.path([a], lambda n: n in heads or n is cfg.exit, avoid=lambda n: n in pincs, edge_ok=no_exc, include_start=False)
        ctx.check(p is None, "C12.PAIR", f"{fn.qual}/accumulate-counts-propagation", fn.loc(a.ast), "each accumulation is followed by propagations += 1 in the same iteration",
                  "an accumulation is not counted as a propagation on some path (counters do not match the work done)", ctx.path_witness(fn, p))
    for pi in pincs:
        ok = any(cfg.dominates(a, pi) for a in accs)
        ctx.check(ok, "C12.PAIR", f"{fn.qual}/propagation-only-with-accumulate", fn.loc(pi.ast), "propagations is incremented only after an accumulation",
                  "propagations is incremented without an accumulation")
    for role, cap, mkey in (("radius-skip-counter", R["radius_cap"], "radius_cap_hits"), ("layer-skip-counter", R["layer_cap"], "layer_cap_hits")):
        # the counter: what the per-graph result reports under `mkey`
        counters = {src(v) for dct in walk_no_defs(fn.node) if isinstance(dct, ast.Dict) for k, v in zip(dct.keys, dct.values) if k is not None and const_str(k) == mkey and isinstance(v, ast.Name)}
        incs = [n for n in cfg.nodes if any(_aug(n, c) for c in counters)]
        ok = bool(incs) and all(any(pol and a.endswith(f"> {cap}") for a, pol in cfg.facts(n)) for n in incs)
        ctx.check(ok, "C12.PAIR", f"{fn.qual}/{role}", fn.loc(incs[0].ast) if incs else fn.loc(), f"the reported {mkey} counts exactly the `> {cap}` skips",
                  f"the reported {mkey} is not incremented on the `> {cap}` skip branch")
    # reported iters
    rm = [x for x in walk_no_defs(fn.node) if isinstance(x, ast.Dict) and any(const_str(k) == "iters" for k in x.keys if k is not None)]
    ok = any(isinstance(v, ast.Call) and dotted(v.func) == "min" and len(v.args) == 2 and isinstance(v.args[0], ast.Name) and src(v.args[1]) == R["layer_cap"]
             for d in rm for k, v in zip(d.keys, d.values) if k is not None and const_str(k) == "iters")
    ctx.check(ok, "C12.PAIR", f"{fn.qual}/iters-reported", fn.loc(), "reported iters = min(layers_processed, effective_iter_cap_layers)",
              "reported iters is not min(layers processed, effective layer cap)")
    okp = any(src(v) == R["pops"] for d in rm for k, v in zip(d.keys, d.values) if k is not None and const_str(k) == "pops")
    ctx.check(okp, "C12.PAIR", f"{fn.qual}/pops-reported", fn.loc(), "reported pops is the loop counter", "reported pops is not the loop counter")


def _factors(e: ast.AST) -> List[ast.AST]:
    if isinstance(e, ast.BinOp) and isinstance(e.op, ast.Mult):
        return _factors(e.left) + _factors(e.right)
    return [e]


def rule_rule(ctx) -> None:
    fn = ctx.func(INNER)
    cfg = ctx.cfg(fn)
    rd = ctx.rd(fn)
    R = roles(ctx)
    accs = [n for n in cfg.nodes if n.kind == "stmt" and isinstance(n.ast, ast.AugAssign) and isinstance(n.ast.target, ast.Subscript) and src(n.ast.target.value) == R["acc"]
            and src(n.ast.value) == R["contrib"]]
    ctx.floor("C12.RULE", "contribution accumulations", len(accs), 1)
    edge_mult = _outer_by_key(ctx, "edge_type_mult")
    cfg_t1 = next((d.name for d in ctx.rd(ctx.func(T1 + ":t1_propagate")).all_defs if d.value is not None and src(d.value).endswith(".t1")), "cfg_t1")
    for a in accs:
        ds = [d for d in rd.reaching(R["contrib"], a) if d.kind != "mutate"]
        ok = len(ds) == 1 and ds[0].value is not None
        why = "contrib has several definitions"
        if ok:
            d = ds[0]
            # the edge variable: the loop variable whose .weight enters the product
            evars = {y.value.id for y in ast.walk(d.value) if isinstance(y, ast.Attribute) and y.attr == "weight" and isinstance(y.value, ast.Name)}
            ev = next(iter(evars), "e")
            fac = _factors(rd.inline(d.value, d.node, stop=(R["w"], ev, R["u"], R["d"], cfg_t1, edge_mult or "edge_mult", R["dist"])))
            txt = sorted(src(x).replace(" ", "") for x in fac)
            has_w = any(t == R["w"] for t in txt)
            has_ew = any(t in (f"float({ev}.weight)", f"{ev}.weight") for t in txt)
            has_mult = any(f"{edge_mult}.get({ev}.rel" in t for t in txt)
            has_decay = any(t.startswith("_compute_decay(") and cfg_t1 in t for t in txt)
            # decay distance is the capped hop distance
            dec = [x for x in fac if isinstance(x, ast.Call) and call_tail(x) == "_compute_decay"]
            dec_ok = bool(dec) and src(dec[0].args[0]).replace(" ", "") in (R["d"], f"{R['dist']}[{R['u']}]+1")
            ok = has_w and has_ew and has_mult and has_decay and dec_ok and len(fac) == 4
            why = f"factors are {txt}"
        ctx.check(ok, "C12.RULE", f"{fn.qual}/contribution-product", fn.loc(a.ast),
                  "contrib = popped weight * edge weight * relation multiplier * _compute_decay(hop distance)",
                  f"the contribution is not weight x relation multiplier x distance decay of the popped activation: {why}")
    # the popped weight is the 4th heap field pushed as the contribution
    pops_ = [n for n in cfg.nodes if n.kind == "stmt" and isinstance(n.ast, ast.Assign) and isinstance(n.ast.value, ast.Call) and dotted(n.ast.value.func) == "heapq.heappop"]
    okp = any(isinstance(n.ast.targets[0], ast.Tuple) and len(n.ast.targets[0].elts) == 4 and src(n.ast.targets[0].elts[3]) == R["w"] and src(n.ast.targets[0].elts[2]) == R["u"] for n in pops_)
    ctx.check(okp, "C12.RULE", f"{fn.qual}/heap-item-shape", fn.loc(), "heap items are (-|w|, key, node, w): w and u come from the popped item", "popped item is not unpacked as (_, key, u, w)")
    dc = ctx.func(T1 + ":_compute_decay")
    rets = [x for x in walk_no_defs(dc.node) if isinstance(x, ast.Return)]
    # canonical spelling: locals read from decay.<key> become <key>, the distance parameter becomes <d>
    ren = {dc.params[0]: "<d>"}
    for d in ctx.rd(dc).all_defs:
        if d.kind == "assign" and d.value is not None:
            ks = [const_str(z) for z in ast.walk(d.value) if isinstance(z, ast.Constant) and isinstance(z.value, str) and z.value in ("rate", "floor", "alpha")]
            if ks:
                ren[d.name] = f"<{ks[0]}>"
    import copy

    class _Ren(ast.NodeTransformer):
        def visit_Name(self, node):
            return ast.copy_location(ast.Name(id=ren.get(node.id, node.id), ctx=node.ctx), node)

    shapes = sorted(ast.unparse(_Ren().visit(copy.deepcopy(r.value))).replace(" ", "") for r in rets if r.value is not None)
    ok = any("<d>**2" in s and s.startswith("1.0/") and "<alpha>" in s for s in shapes) and any(s.startswith("max(<rate>**<d>,<floor>)") for s in shapes)
    ctx.check(ok, "C12.RULE", f"{dc.qual}/decay-modes", dc.loc(), "decay = 1/(1+alpha*d^2) (attn_quad) or max(rate^d, floor) (exp_floor)", f"decay modes are {shapes}")


def _with_callees(ctx, fn, depth: int = 2):
    """fn and the repository functions it calls (resolved, same package), to `depth` levels - so that a block moved into a
    helper is still examined"""
    out, seen, frontier = [fn], {fn.qual}, [fn]
    for _ in range(depth):
        nxt = []
        for f in frontier:
            for c in walk_no_defs(f.node):
                if isinstance(c, ast.Call):
                    r = ctx.prog.callee(f, c)
                    if r is not None and r[0] == "func" and r[1] not in seen and ctx.prog.has_func(r[1]):
                        seen.add(r[1])
                        g = ctx.func(r[1])
                        out.append(g)
                        nxt.append(g)
        frontier = nxt
    return out


def rule_tag_values(ctx) -> None:
    """"seeds exactly the nodes whose label or tag occurs in the input text": a tag is a whole string.  Where the tags of a
    node are taken from its attrs and walked, a value that is itself a str is ONE tag - `list("zebra")` walks its characters,
    and the text "a" then seeds a node that is tagged "zebra"."""
    n_l = 0
    # the collection loop may live in a helper the per-graph walk calls (extract-function refactor): same rule there
    for fn in _with_callees(ctx, ctx.func(INNER)):
      rd = ctx.rd(fn)
      cfg = ctx.cfg(fn)
      for lp in [x for x in walk_no_defs(fn.node) if isinstance(x, ast.For) and isinstance(x.iter, ast.Name)]:
          hn = [h for h in cfg.nodes if h.kind == "iter" and h.ast is lp]
          if not hn:
              continue
          sl = rd.slice([lp.iter], hn[0])
          if not any(isinstance(c, ast.Call) and call_tail(c) == "get" and c.args and const_str(c.args[0]) == "tags" for c in sl.calls()):
              continue
          n_l += 1
          narrowed = any(isinstance(c, ast.Call) and dotted(c.func) == "isinstance" and len(c.args) == 2 and "str" in src(c.args[1]) for c in sl.calls())
          ctx.check(narrowed, "C12.SEED", ctx.okey(f"{fn.qual}/string-tag-is-one-tag"), fn.loc(lp), "a tags value that is a plain string is wrapped, not iterated",
                    f"the tags walked by `for {src(lp.target)} in {src(lp.iter)}` come from attrs['tags'] through list(..) with no test for a plain string: a node tagged \"zebra\" gets the tags "
                    "'z','e','b','r','a' and is seeded by the text \"a\"")
    ctx.floor("C12.SEED", "loops over a node's tags", n_l, 1)


def rule_seed_out(ctx) -> None:
    mk = ctx.func(T1 + ":_match_keywords")
    cfg = ctx.cfg(mk)
    loops = [x for x in walk_no_defs(mk.node) if isinstance(x, ast.For)]
    ok_sorted = any(isinstance(l.iter, ast.Call) and dotted(l.iter.func) == "sorted" for l in loops)
    ctx.check(ok_sorted, "C12.SEED", f"{mk.qual}/sorted-iteration", mk.loc(), "labels are visited in sorted order", "labels are not visited in sorted order")
    seed_names = {r.value.id for r in walk_no_defs(mk.node) if isinstance(r, ast.Return) and isinstance(r.value, ast.Name)}
    stores = [n for n in cfg.nodes if n.kind == "stmt" and isinstance(n.ast, ast.Assign) and any(isinstance(t, ast.Subscript) and src(t.value) in seed_names for t in n.ast.targets)]
    ctx.floor("C12.SEED", "seed stores", len(stores), 1)
    # the same case folding on both sides, and a context-free one: str.lower() is context sensitive (word-final capital sigma),
    # so `label.lower() in text.lower()` misses a label that occurs verbatim inside a longer word; casefold() on one side and
    # lower() on the other miss sharp s / ligatures.  Required: text.casefold() and label.casefold().
    FOLDS = ("casefold",)
    folded = {d.name: call_tail(d.value) for d in ctx.rd(mk).all_defs if d.kind == "assign" and d.value is not None and isinstance(d.value, ast.Call) and call_tail(d.value) in ("lower", "casefold", "upper")
              and isinstance(d.value.func, ast.Attribute) and isinstance(d.value.func.value, ast.Name) and d.value.func.value.id in mk.params}
    for st in stores:
        facts = cfg.facts(st)
        ok = False
        why = "a seed is stored without the `label.casefold() in text` test: nodes whose label does not occur in the input are seeded"
        for a, pol in facts:
            if not pol or " in " not in a:
                continue
            left, _, right = a.rpartition(" in ")
            if right in folded:
                lf = next((f for f in ("casefold", "lower", "upper") if left.endswith(f".{f}()")), None)
                if lf is None:
                    continue
                if lf == folded[right] and lf in FOLDS:
                    ok = True
                elif lf != folded[right]:
                    why = f"the label is folded with .{lf}() but the text with .{folded[right]}(): the two foldings disagree on sharp s, final sigma, micro sign and ligatures, so a label that occurs verbatim is not seeded"
                else:
                    why = f"label and text are both folded with .{lf}(), which is context sensitive (a word-final capital sigma lowers differently): a label that occurs verbatim inside a longer word is not seeded"
        ctx.check(ok, "C12.SEED", f"{mk.qual}/seed-only-if-occurs", mk.loc(st.ast), "a node is seeded only where its case-folded label occurs in the case-folded text (casefold on both sides)", why)
    ctx.check(any(v in FOLDS for v in folded.values()), "C12.SEED", f"{mk.qual}/text-lowered", mk.loc(), "the matched text is text.casefold()", "the matched text is not the case-folded input")
    fn = ctx.func(INNER)
    # labels list built from node labels and string tags only
    lab_args = {src(c.args[1]) for c in walk_no_defs(fn.node) if isinstance(c, ast.Call) and call_tail(c) == "_match_keywords" and len(c.args) > 1}
    apps = [x for x in walk_no_defs(fn.node) if isinstance(x, ast.Call) and call_tail(x) == "append" and src(x.func.value) in lab_args]
    # the list may be built by a helper (`labels = _collect_labels(g)`): the same shape is required of the list the helper returns
    _builders = [d.value for d in ctx.rd(fn).all_defs if d.kind == "assign" and d.name in lab_args and isinstance(d.value, ast.Call)]
    # ... or passed straight through: _match_keywords(text, _seed_phrases(g))
    _builders += [c.args[1] for c in walk_no_defs(fn.node) if isinstance(c, ast.Call) and call_tail(c) == "_match_keywords" and len(c.args) > 1 and isinstance(c.args[1], ast.Call)]
    for _bv in _builders:
        if True:
            r = ctx.prog.callee(fn, _bv)
            if r is not None and r[0] == "func" and ctx.prog.has_func(r[1]):
                h = ctx.func(r[1])
                rn = {x.value.id for x in walk_no_defs(h.node) if isinstance(x, ast.Return) and isinstance(x.value, ast.Name)}
                apps += [x for x in walk_no_defs(h.node) if isinstance(x, ast.Call) and call_tail(x) == "append" and src(x.func.value) in rn]
    okl = len(apps) >= 2 and all(isinstance(a.args[0], ast.Tuple) and isinstance(a.args[0].elts[0], ast.Attribute) and a.args[0].elts[0].attr == "id" for a in apps)
    ctx.check(okl, "C12.SEED", f"{fn.qual}/label-sources", fn.loc(), "seed candidates are (node id, label) and (node id, string tag) pairs of the graph's own nodes",
              "seed candidates are not built from the graph's node labels/tags")
    # output
    outl = [x for x in walk_no_defs(fn.node) if isinstance(x, ast.For) and isinstance(x.iter, ast.Call) and dotted(x.iter.func) == "sorted" and f"{roles(ctx)['acc']}.items()" in src(x.iter)]
    ctx.check(bool(outl), "C12.OUT", f"{fn.qual}/sorted-deltas", fn.loc(), "deltas are emitted while iterating sorted(acc.items())", "deltas are not emitted in sorted id order")
    for l in outl:
        app = [x for x in ast.walk(l) if isinstance(x, ast.Call) and call_tail(x) == "append"]
        okd = len(app) == 1 and isinstance(app[0].args[0], ast.Dict) and any(const_str(k) == "id" and isinstance(v, ast.Name) for k, v in zip(app[0].args[0].keys, app[0].args[0].values))
        ctx.check(okd, "C12.OUT", f"{fn.qual}/one-delta-per-id", fn.loc(l), "one upsert delta per accumulator key", "deltas are not one-per-accumulator-key")


def rule_cachekey(ctx) -> None:
    fn = ctx.func(INNER)
    cfg = ctx.cfg(fn)
    rd = ctx.rd(fn)
    # budget variables: free names compared inside the loops
    local = rd.local_names
    _R = roles(ctx)
    _budget_names = {v for k, v in _R.items() if k in ("queue_cap", "layer_cap", "radius_cap", "node_budget", "relax_cap") and v}
    # perf caps read by the closure as free variables (frontier / visited / dedupe): definitions in t1_propagate that read a cfg key ending in cap/window/budget
    for d in ctx.rd(ctx.func(T1 + ":t1_propagate")).all_defs:
        if d.kind == "assign" and d.value is not None and any(isinstance(z, ast.Constant) and isinstance(z.value, str) and (z.value.endswith(("_cap", "cap", "_window", "frontier", "visited", "_budget")) or z.value in ("caps",)) for z in ast.walk(d.value)):
            _budget_names.add(d.name)
    budget_vars: Set[str] = set()
    for x in walk_no_defs(fn.node):
        if isinstance(x, ast.Compare) and any(isinstance(st, (ast.While, ast.For)) for st, _ in enclosing(ctx.prog, fn, x)) or (
                isinstance(x, ast.Compare) and isinstance(ctx.prog.parents(fn.node).get(id(x)), (ast.While, ast.BoolOp))):
            for y in ast.walk(x):
                if isinstance(y, ast.Name) and y.id not in local and y.id in _budget_names:
                    budget_vars.add(y.id)
    ctx.floor("C12.CACHEKEY", "budget variables guarding the loop", len(budget_vars), 4)
    R = roles(ctx)
    puts = find_calls(ctx, fn, lambda c, nm: call_tail(c) == "put" and src(c.func.value) == R["cache"])
    gets = find_calls(ctx, fn, lambda c, nm: call_tail(c) == "get" and src(c.func.value) == R["cache"])
    ctx.floor("C12.CACHEKEY", "cache get/put sites", len(puts) + len(gets), 2)
    for n, c in gets + puts:
        sl = rd.slice([c.args[0]], n)
        names = sl.names() | sl.free
        # free variables of the closure: continue the slice in the enclosing function
        outer0 = ctx.func(T1 + ":t1_propagate")
        ord0 = ctx.rd(outer0)
        ocfg = ctx.cfg(outer0)
        work = [x for x in sl.free]
        seen_free = set()
        while work:
            nm = work.pop()
            if nm in seen_free:
                continue
            seen_free.add(nm)
            for d in ord0.all_defs:
                if d.name == nm and d.value is not None and d.kind in ("assign", "walrus", "aug", "unpack"):
                    sl2 = ord0.slice([d.value], d.node)
                    names |= sl2.names() | sl2.free
        # derived budgets are covered when all their own inputs are in the key
        missing = []
        outer = ctx.func(T1 + ":t1_propagate")
        ord_ = ctx.rd(outer)
        for b in sorted(budget_vars):
            if b in names:
                continue
            ds = [d for d in ord_.all_defs if d.name == b and d.kind == "assign" and d.value is not None]
            inputs = set()
            for d in ds:
                inputs |= {y.id for y in ast.walk(d.value) if isinstance(y, ast.Name) and y.id not in ("min", "int", "None", "max", "float")}
            roots = {"ctx", "state", "cfg", "store"} | {d.name for d in ord_.all_defs if d.value is not None and src(d.value).endswith((".t1", ".cfg"))} | {p for p in outer.params}
            if ds and inputs and not (inputs & roots) and inputs <= names | {"perf_enabled"}:
                continue
            missing.append(b)
        ctx.check(not missing, "C12.CACHEKEY", f"{fn.qual}/key-covers-budgets:{call_tail(c)}", fn.loc(c),
                  f"the cache key depends on every loop budget ({sorted(budget_vars)})",
                  f"the result-cache key does not depend on {missing}: a result computed under a looser cap is served to a call with a tighter "
                  "(e.g. per-slice) cap, which then reports more pops/layers than its budget allows")


def rule_key_unambiguous(ctx) -> None:
    """a cached propagation is reported for the call at hand only if the key tells its seeds apart: the seed ids enter the key
    as a tuple (or another encoding that keeps element boundaries), never folded through a separator an id may contain."""
    from .c05 import lossy_key_parts
    fn = ctx.func(INNER)
    R = roles(ctx)
    gets = find_calls(ctx, fn, lambda c, nm: call_tail(c) == "get" and src(c.func.value) == R["cache"])
    if not gets:
        raise AnalysisError("anchor-vanished: T1 cache lookup")
    n, c = gets[0]
    bad = lossy_key_parts(ctx, fn, c.args[0], n, ctx.func(T1 + ":t1_propagate"))
    ctx.check(not bad, "C12.CACHEKEY", f"{fn.qual}/key-tells-seed-sets-apart", fn.loc(bad[0][1] if bad else c), "every collection in the key keeps its element boundaries",
              (f"`{src(bad[0][1])[:60]}` folds ids into one string for the key: seed sets such as {{'cat', 'dog'}} and {{'cat|dog'}} share it, and the second text is answered with the "
               "first one's deltas - nodes unreachable from its own seeds, and counters for work not done") if bad else "")


def rule_perf_caps_engage(ctx) -> None:
    """"with and without perf caps ... counters that match the work done": the dedupe window and the visited cap are optional
    containers (None when not configured).  Their classes define __len__, so an instance is falsy while it is empty: a guard
    `if ring:` skips the very branch that would put the first element in, the container stays empty for the whole call, the
    cap never engages and its counters (t1_dedup_hits, t1_visited_evicted) are 0 by construction.  Optional containers are
    tested for None."""
    from .. import hazards
    n_fn = 0
    for fn in ctx.prog.module(T1).funcs.values():
        n_fn += 1
        for op, nm, cls in hazards.optional_container_truthiness(ctx, fn):
            ctx.violation("C12.PAIR", ctx.okey(f"{fn.qual}/optional-container-tested-for-none:{cls}"), fn.loc(op),
                          f"`{nm}` is None or a {cls}, and is tested by truthiness: {cls} defines __len__, so right after construction it is falsy, the guarded add() is never reached, the "
                          "container stays empty and the configured window / cap never engages - the run equals the one without perf caps and the cap's counters stay 0")
    ctx.holds("C12.PAIR", f"{T1}/optional-containers-tested-for-none", "clematis/engine/stages/t1.py",
              f"{n_fn} functions: no optional sized container is tested by truthiness; " + hazards.controls(ctx, "clematis.engine.health", ["truthy"]))


def rule_caps_reach_the_callers_container(ctx) -> None:
    """"never exceeding its ... budgets" with perf caps: the frontier cap is enforced by replacing the heap with its n smallest
    entries.  Done inside a helper on a PARAMETER (`frontier = nsmallest(cap, frontier)`), the replacement re-binds the helper's
    own name only: the caller keeps popping the untrimmed heap, nodes behind entries that should have been evicted are expanded
    and reported, and the eviction counter counts evictions that never happened."""
    from .. import hazards
    n_fn = 0
    for fn in ctx.prog.module(T1).funcs.values():
        n_fn += 1
        for p, x in hazards.lost_param_rebinding(ctx, fn):
            ctx.violation("C12.LOOP", ctx.okey(f"{fn.qual}/trim-reaches-the-callers-container"), fn.loc(x),
                          f"`{src(x)[:60]}` re-binds the parameter `{p}` after editing the caller's object through it, and the new object is neither returned nor written back (`{p}[:] = ...`): the "
                          "caller's container is never trimmed - the cap this line implements is not enforced while its eviction counter still counts")
    ctx.holds("C12.LOOP", f"{T1}/helpers-do-not-lose-a-rebinding", "clematis/engine/stages/t1.py", f"{n_fn} functions (closures included): no parameter is edited in place and then re-bound without being handed back; "
              + hazards.controls(ctx, "clematis.engine.health", ["rebind"]))


def rule_tallies_accumulate(ctx) -> None:
    """"counters that match the work done": a tally that is folded into a reported total after a loop (`total += tally`) must
    itself be accumulated inside the loop.  A plain assignment there (`tally = ev`, `tally = 1`) keeps the last iteration's
    value only, so the counter under-reports whenever more than one iteration contributes."""
    fn = ctx.func(INNER)
    pm = ctx.prog.parents(fn.node)

    def loop_of(x):
        cur = x
        while id(cur) in pm:
            cur = pm[id(cur)]
            if isinstance(cur, (ast.For, ast.While)):
                return cur
            if isinstance(cur, (ast.FunctionDef, ast.AsyncFunctionDef)):
                return None
        return None

    def folded_name(v):
        if isinstance(v, ast.Name):
            return v.id
        if isinstance(v, ast.Subscript) and isinstance(v.value, ast.Call) and dotted(v.value.func) == "locals" and const_str(v.slice):
            return const_str(v.slice)  # total += locals()['tally']
        return None

    folds = {}
    for x in walk_no_defs(fn.node):
        if isinstance(x, ast.AugAssign) and isinstance(x.op, ast.Add) and isinstance(x.target, ast.Name) and folded_name(x.value):
            folds.setdefault(folded_name(x.value), []).append(x)
    n_t = 0
    rd = ctx.rd(fn)
    cfg = ctx.cfg(fn)
    for name in sorted(folds):
        bad = []
        relevant = False
        for f in folds[name]:
            at = (cfg.node_containing(f) or [None])[0]
            if at is None:
                continue
            for d in rd.reaching(name, at):
                if d.kind not in ("assign", "aug") or d.node.ast is None:
                    continue
                lp = loop_of(d.node.ast)
                if lp is None or _inside(pm, f, lp):
                    continue  # produced outside a loop, or consumed in the iteration that produced it
                relevant = True
                if d.kind == "assign" and not (isinstance(d.value, ast.Constant) and d.value.value in (0, 0.0, None, False)):
                    bad.append(d.node.ast)
        if not relevant:
            continue
        n_t += 1
        ctx.check(not bad, "C12.PAIR", f"{fn.qual}/tally-accumulates:{n_t}", fn.loc(bad[0]) if bad else fn.loc(folds[name][0]),
                  "the per-loop tally is accumulated (+=) before it is folded into the reported total",
                  f"`{src(bad[0])[:40] if bad else ''}` assigns the tally inside the loop and it is folded into a reported total after the loop: only the last iteration counts, so the counter "
                  "does not match the work done when several iterations contribute")
    ctx.floor("C12.PAIR", "loop tallies folded into reported totals after their loop", n_t, 2)


def _inside(pm, node, loop) -> bool:
    cur = node
    while id(cur) in pm:
        cur = pm[id(cur)]
        if cur is loop:
            return True
    return False


def rule_zero_caps(ctx) -> None:
    from ..zero import zero_cap_rule
    zero_cap_rule(ctx, "C12.LOOP", ["clematis.engine.stages.t1:t1_propagate._t1_one_graph"], 1)


def run(ctx) -> None:
    rule_zero_caps(ctx)
    rule_tallies_accumulate(ctx)
    rule_ro(ctx)
    rule_loop(ctx)
    rule_pair(ctx)
    rule_rule(ctx)
    rule_seed_out(ctx)
    rule_cachekey(ctx)
    rule_key_unambiguous(ctx)
    rule_tag_values(ctx)
    rule_perf_caps_engage(ctx)
    rule_caps_reach_the_callers_container(ctx)
