"""C14 Config validation is total, pure, consistent, and admits only runnable configs."""
from __future__ import annotations

import ast
from typing import Dict, List, Optional, Set, Tuple

from ..model import AnalysisError, Func, const_str, dotted, kwarg, src, walk_no_defs
from ..util import call_tail, enclosing, guarded_by_catch_all, node_calls

EXPLANATION = (
    "C14 decided statically on configs/validate.py (+ the engine's config reads): (TOTAL) every operation that can raise on "
    "an arbitrary JSON/YAML value - ordering comparison, arithmetic, len, iteration, membership in a user container, method "
    "call, int()/float() - is applied either to a value that passed a total coercion (_coerce_int/_float/_bool, str, bool, "
    "_ensure_dict), to a key the validator itself stored such a value under, under an isinstance narrowing, or inside "
    "try/except Exception; keys are stringified before any string operation; (PURE) every subscript store / mutating call in "
    "the validator targets a dictionary that is fresh (built by _ensure_dict/_ensure_subdict/_deep_merge/dict()/literal), never "
    "a value read out of the input, and those helpers return fresh dictionaries on all paths; (API) every public variant and "
    "the script obtain their verdict from the one normaliser and catch only the typed error; (DET) no message interpolates or "
    "iterates a set without sorted(); (RANGE) float coercion never yields NaN (or every range check is NaN-closed); (CONTRACT) "
    "config keys the engine subscripts without default, or uses as mapping / sequence / number without a total accessor, are "
    "defaulted or type-checked by the validator. Not decided: that every accepted configuration runs turns (needs execution)."
)
RULES = {
    "C14.TOTAL": "taint of untrusted input values into may-raise sinks with coercions / narrowing / try as sanitisers",
    "C14.PURE": "alias classification (fresh vs read-out-of-input) of every mutated dictionary; freshness summaries of the copy helpers",
    "C14.API": "delegation and handler shape of the API variants and the script",
    "C14.DET": "set-typed values reaching messages or iteration without sorted()",
    "C14.RANGE": "NaN-closure of float coercion / range checks",
    "C14.CONTRACT": "validator <-> engine table agreement for hard subscripts and typed uses of config values",
}

V = "configs.validate"
IMPL = V + ":_validate_config_normalize_impl"
TOTAL_COERCIONS = {"_coerce_int", "_coerce_float", "_coerce_bool", "str", "bool", "_ensure_dict", "_ensure_subdict", "repr", "isinstance", "type", "dict", "_deep_merge"}
FRESH_MAKERS = {"_ensure_dict", "_ensure_subdict", "_deep_merge", "dict", "copy.deepcopy", "deepcopy", "list", "set", "sorted"}


# ------------------------------------------------------------------ PURE
def _returns_fresh(ctx, fn: Func) -> Tuple[bool, Optional[ast.AST]]:
    """every return value is a fresh container (constructor / literal / copy helper / local built from those)"""
    cfg = ctx.cfg(fn)
    rd = ctx.rd(fn)

    def fresh(e: ast.AST, at, depth=0) -> bool:
        if depth > 6:
            return False
        if isinstance(e, (ast.Dict, ast.List, ast.Set, ast.DictComp, ast.ListComp, ast.Constant)):
            return True
        if isinstance(e, ast.Call):
            d = dotted(e.func) or ""
            if d in FRESH_MAKERS or d.split(".")[-1] in FRESH_MAKERS:
                return True
            return False
        if isinstance(e, ast.Name):
            ds = [d for d in rd.reaching(e.id, at) if d.kind != "mutate"]
            return bool(ds) and all(d.kind in ("assign", "walrus") and d.value is not None and fresh(d.value, d.node, depth + 1) for d in ds)
        if isinstance(e, ast.IfExp):
            return fresh(e.body, at, depth + 1) and fresh(e.orelse, at, depth + 1)
        return False

    for n in cfg.nodes:
        if n.kind == "stmt" and isinstance(n.ast, ast.Return) and n.ast.value is not None and n in cfg.reachable_from_entry():
            if not fresh(n.ast.value, n):
                return False, n.ast
    return True, None


def rule_pure(ctx) -> None:
    for h in ("_ensure_dict", "_ensure_subdict", "_deep_merge"):
        f = ctx.func(f"{V}:{h}")
        ok, bad = _returns_fresh(ctx, f)
        ctx.check(ok, "C14.PURE", f"{f.qual}/returns-fresh", f.loc(bad) if bad is not None else f.loc(), f"{h} returns a fresh dictionary on every path",
                  f"{h} can return `{src(bad.value)[:40] if bad is not None else ''}`, an object of the caller's input: every later normalisation store into it mutates the input")
    dm = ctx.func(f"{V}:_deep_merge")
    stores = [x for x in walk_no_defs(dm.node) if isinstance(x, ast.Assign) and any(isinstance(t, ast.Subscript) for t in x.targets)]
    copies = {x.value.id for x in walk_no_defs(dm.node) if isinstance(x, ast.Return) and isinstance(x.value, ast.Name) and x.value.id not in dm.params}
    ctx.check(bool(copies) and all(src(t.value) in copies for x in stores for t in x.targets if isinstance(t, ast.Subscript)), "C14.PURE", f"{dm.qual}/stores-only-into-copy", dm.loc(),
              "_deep_merge stores only into its own copy", "_deep_merge stores into one of its arguments")
    fn = ctx.func(IMPL)
    cfg = ctx.cfg(fn)
    rd = ctx.rd(fn)
    memo: Dict[Tuple[str, int], bool] = {}

    def var_fresh(name: str, at, depth=0) -> bool:
        k = (name, at.id)
        if k in memo:
            return memo[k]
        memo[k] = True
        ok = True
        ds = [d for d in rd.reaching(name, at) if d.kind != "mutate"]
        if not ds:
            ok = False
        for d in ds:
            v = d.value
            if d.kind == "param":
                ok = False
            elif d.kind in ("assign", "walrus") and v is not None:
                if isinstance(v, (ast.Dict, ast.List, ast.Set, ast.DictComp, ast.ListComp)):
                    continue
                if isinstance(v, ast.Call) and ((dotted(v.func) or "").split(".")[-1] in FRESH_MAKERS):
                    continue
                if isinstance(v, ast.Name) and depth < 5 and var_fresh(v.id, d.node, depth + 1):
                    continue
                if isinstance(v, ast.Call) and isinstance(v.func, ast.Attribute) and v.func.attr == "setdefault" and len(v.args) == 2 and isinstance(v.func.value, ast.Name) \
                        and isinstance(v.args[1], (ast.Dict, ast.List)) and not getattr(v.args[1], "keys", getattr(v.args[1], "elts", [])) and depth < 5 and var_fresh(v.func.value.id, d.node, depth + 1):
                    # X.setdefault(k, {}) on a dict that the validator itself built: either the new {} or something the validator stored there
                    continue
                if isinstance(v, ast.IfExp) and all(isinstance(b, (ast.Dict, ast.List)) or (isinstance(b, ast.Call) and (dotted(b.func) or "").split(".")[-1] in FRESH_MAKERS) for b in (v.body, v.orelse)):
                    continue
                ok = False
            else:
                ok = False
        memo[k] = ok
        return ok

    n_sites = 0
    for n in cfg.nodes:
        if n not in cfg.reachable_from_entry():
            continue
        targets: List[Tuple[ast.AST, str]] = []
        if n.kind == "stmt" and isinstance(n.ast, (ast.Assign, ast.AugAssign, ast.AnnAssign, ast.Delete)):
            tg = n.ast.targets if isinstance(n.ast, (ast.Assign, ast.Delete)) else [n.ast.target]
            for t in tg:
                if isinstance(t, ast.Subscript):
                    targets.append((t.value, f"store {src(t)[:40]}"))
        for c in node_calls(n):
            if isinstance(c.func, ast.Attribute) and c.func.attr in ("update", "setdefault", "pop", "clear", "popitem", "append", "extend", "insert", "remove", "sort"):
                if isinstance(c.func.value, ast.Name) and c.func.value.id in ("errors", "warnings"):
                    continue
                targets.append((c.func.value, f"{src(c)[:40]}"))
        for recv, what in targets:
            n_sites += 1
            root = recv
            direct = isinstance(root, ast.Name)
            while isinstance(root, (ast.Subscript, ast.Attribute)):
                root = root.value
            if not isinstance(root, ast.Name):
                ctx.undecided("C14.PURE", f"{fn.qual}/mutation:{what}", fn.loc(recv), "mutation of a non-name receiver")
                continue
            ok = direct and var_fresh(root.id, n)
            if not direct:
                # X["a"]["b"] = v / X["a"].update(..): the inner object was read out of X - fresh only if the validator stored a fresh dict there (not tracked)
                ok = False
            if not ok:
                ctx.violation("C14.PURE", f"{fn.qual}/mutation:{what}", fn.loc(recv),
                              f"`{what}` mutates `{src(recv)[:30]}`, which is not a fresh copy (read out of the input / merged tree by reference): the caller's configuration object is modified")
    ctx.floor("C14.PURE", "mutation sites in the normaliser", n_sites, 100)
    ctx.holds("C14.PURE", f"{fn.qual}/all-stores-into-fresh-dicts", fn.loc(), f"{n_sites} stores / mutating calls examined: every receiver is a dictionary built by a copy helper, dict() or a literal")


# ------------------------------------------------------------------- API
def rule_api(ctx) -> None:
    for name in ("validate_config", "validate_config_api", "validate_config_verbose"):
        f = ctx.func(f"{V}:{name}")
        calls = [x for x in walk_no_defs(f.node) if isinstance(x, ast.Call) and call_tail(x) in ("_validate_config_normalize_impl", "validate_config_verbose")]
        ctx.check(bool(calls), "C14.API", f"{f.qual}/delegates", f.loc(), f"{name} obtains its verdict from the single normaliser", f"{name} does not call the shared normaliser")
        for t in [x for x in walk_no_defs(f.node) if isinstance(x, ast.Try)]:
            covers = any(isinstance(y, ast.Call) and call_tail(y) == "_validate_config_normalize_impl" for st in t.body for y in ast.walk(st))
            if not covers:
                continue
            for h in t.handlers:
                names = [src(h.type)] if h.type is not None else ["*"]
                ok = h.type is not None and all(nm.strip("()").split(".")[-1] == "ConfigError" for nm in (src(e) for e in (h.type.elts if isinstance(h.type, ast.Tuple) else [h.type])))
                ctx.check(ok, "C14.API", f"{f.qual}/catches-only-typed-error", f.loc(h), f"{name} catches only ConfigError around the normaliser",
                          f"{name} catches `{names[0]}` around the normaliser: an internal error would be reported as a validation verdict (variants disagree)")
                # the messages a variant reports are the error's own, unaltered: taken from the error object (its collected list, or
                # its text split at the separator it was joined with) - never after a strip() / other rewrite of the text, which
                # changes messages about keys with surrounding blanks or an embedded newline
                if h.name:
                    scope = [y for st in h.body for y in ast.walk(st)]
                    for y in list(scope):
                        if isinstance(y, ast.Call):
                            r = ctx.prog.callee(f, y)
                            if r and r[1] in ctx.prog.funcs and r[1].startswith(V + ":") and any(isinstance(a, ast.Name) and a.id == h.name for a in y.args):
                                scope += list(ast.walk(ctx.prog.funcs[r[1]].node))
                    uses = [y for y in scope if isinstance(y, ast.Name) and y.id == h.name] 
                    rewrites = [y for y in scope if isinstance(y, ast.Call) and isinstance(y.func, ast.Attribute) and y.func.attr in ("strip", "lstrip", "rstrip", "splitlines", "replace", "lower")
                                and any(isinstance(z, ast.Call) and dotted(z.func) == "str" for z in ast.walk(y.func.value))]
                    # a local holding str(e), then rewritten
                    txt = {t.id for y in scope if isinstance(y, ast.Assign) and any(isinstance(z, ast.Call) and dotted(z.func) == "str" for z in ast.walk(y.value)) and
                           any(isinstance(z, ast.Call) and isinstance(z.func, ast.Attribute) and z.func.attr in ("strip", "lstrip", "rstrip") for z in ast.walk(y.value)) for t in y.targets if isinstance(t, ast.Name)}
                    ctx.check(bool(uses) and not rewrites and not txt, "C14.API", f"{f.qual}/messages-from-error", f.loc(h), "the messages are the error's own (list or text), not rewritten",
                              ("reported messages are not derived from the error" if not uses else
                               f"the variant rebuilds its messages from a rewritten error text (`{src((rewrites or [None])[0])[:50] if rewrites else 'str(e).strip()'}`): a key with a leading / trailing blank "
                               "loses it and a key containing a newline turns one message into two - the variants disagree with the raised ConfigError"))
    # the error object the variants take their messages from carries them per instance: a container bound at class level and
    # extended through self is one object for every error of the process - a verdict then repeats the messages of earlier ones
    from .. import hazards
    em = "clematis.errors"
    n_cls = sum(1 for x in ast.walk(ctx.prog.module(em).tree) if isinstance(x, ast.ClassDef))
    ctx.floor("C14.API", "error classes", n_cls, 3)
    for cls, attr, d, fn, c in hazards.shared_class_state(ctx, em):
        ctx.violation("C14.API", ctx.okey(f"{fn.qual}/error-messages-per-instance"), fn.loc(c),
                      f"`{cls}.{attr}` is a container bound at class level and `{src(c)[:50]}` extends it through the instance: every {cls} of the process shares it, so a variant that reports "
                      "e." + attr + " returns the findings of earlier validations too - the same input gives different messages depending on what was validated before")
    sc = ctx.prog.modules.get("clematis.scripts.validate")
    if sc is None:
        raise AnalysisError("anchor-vanished: clematis.scripts.validate")
    mains = [f for f in sc.funcs.values() if f.name == "main"]
    ctx.floor("C14.API", "script main", len(mains), 1)
    for f in mains:
        calls = [x for x in walk_no_defs(f.node) if isinstance(x, ast.Call) and call_tail(x) in ("validate_config", "validate_config_verbose")]
        ctx.check(bool(calls), "C14.API", f"{f.qual}/delegates", f.loc(), "the script delegates to validate_config(_verbose)", "the script does not delegate to the validator API")
        hs = [h for t in walk_no_defs(f.node) if isinstance(t, ast.Try) and any(isinstance(y, ast.Call) and call_tail(y) in ("validate_config", "validate_config_verbose") for st in t.body for y in ast.walk(st)) for h in t.handlers]
        ctx.check(bool(hs) and all(h.type is not None and src(h.type).split(".")[-1] == "ConfigError" for h in hs), "C14.API", f"{f.qual}/catches-only-typed-error", f.loc(),
                  "the script catches only ConfigError around validation", "the script catches more than ConfigError around validation")


def rule_cli_forwarding(ctx) -> None:
    """"the same verdict ... through all of its API variants and the CLI": the umbrella CLI delegates to the script's main(argv).
    main parses argv[1:] - argv[0] is the program name - so a caller that passes only the user's arguments loses the first one,
    the config path, and the default configs/config.yaml is validated instead (OK, exit 0, for a config the API rejects).
    Call-site / callee protocol agreement."""
    sc = ctx.prog.modules.get("clematis.scripts.validate")
    mains = [f for f in sc.funcs.values() if f.name == "main"] if sc else []
    if not mains:
        raise AnalysisError("anchor-vanished: clematis.scripts.validate:main")
    main = mains[0]
    skips_first = any(isinstance(x, ast.Subscript) and isinstance(x.value, ast.Name) and x.value.id in main.params and isinstance(x.slice, ast.Slice) and isinstance(x.slice.lower, ast.Constant)
                      and x.slice.lower.value == 1 for x in walk_no_defs(main.node))
    n_calls = 0
    cli = ctx.prog.modules.get("clematis.cli.validate")
    if cli is None:
        raise AnalysisError("anchor-vanished: clematis.cli.validate")
    for fn in cli.funcs.values():
        rd = None
        for x in walk_no_defs(fn.node):
            if not (isinstance(x, ast.Call) and x.args):
                continue
            r = ctx.prog.callee(fn, x)
            if not (r and r[0] == "func" and r[1] == main.qual):
                continue
            n_calls += 1
            rd = rd or ctx.rd(fn)
            at = (ctx.cfg(fn).node_containing(x) or [None])[0]
            a = rd.inline(x.args[0], at) if at is not None else x.args[0]
            has_prog = (isinstance(a, ast.List) and a.elts and isinstance(a.elts[0], ast.Constant)) or "sys.argv" in src(a)
            ctx.check((not skips_first) or has_prog, "C14.API", ctx.okey(f"{fn.qual}/forwards-all-arguments"), fn.loc(x),
                      "the delegate receives a program name followed by the user's arguments (it parses argv[1:])",
                      f"`{src(x)[:50]}` hands the delegate the user's arguments only, but main() parses argv[1:]: the first argument - the config path - is dropped and configs/config.yaml is "
                      "validated instead, so the CLI says OK (exit 0) for a config that validate_config and the script reject")
        # the JSON branch parses a slice of the delegate's output: that parse must be guarded
        for x in walk_no_defs(fn.node):
            pass
    ctx.floor("C14.API", "calls of the script's main from the umbrella CLI", n_calls, 1)
    # json.loads on text cut out of the delegate's output is guarded (an error message may contain braces)
    for fn in cli.funcs.values():
        for x in walk_no_defs(fn.node):
            if isinstance(x, ast.Call) and dotted(x.func) == "json.loads":
                from ..util import enclosing as _enc
                guarded = any(isinstance(st, ast.Try) and part == "body" for st, part in _enc(ctx.prog, fn, x))
                ctx.check(guarded, "C14.API", ctx.okey(f"{fn.qual}/json-slice-parse-guarded"), fn.loc(x), "json.loads of the extracted block is inside a try",
                          "the CLI cuts the text between the first '{' and the last '}' of the delegate's output and parses it unguarded: a validation message with braces "
                          "(`must be one of {inmemory,lancedb}`) ends in an uncaught JSONDecodeError instead of the typed verdict")


# ------------------------------------------------------------------- DET
def _set_globals(m) -> Set[str]:
    out = set()
    for name, sts in m.globals_assigned.items():
        for st in sts:
            v = getattr(st, "value", None)
            if isinstance(v, (ast.Set, ast.SetComp)) or (isinstance(v, ast.Call) and dotted(v.func) in ("set", "frozenset")):
                out.add(name)
    return out


def rule_det(ctx) -> None:
    m = ctx.prog.module(V)
    sets = _set_globals(m)
    ctx.floor("C14.DET", "set-typed module tables in the validator", len(sets), 10)
    n = 0
    for fn in m.funcs.values():
        set_params = {a.arg for a in fn.node.args.args if a.annotation is not None and "set" in src(a.annotation).lower()} if hasattr(fn.node, "args") else set()
        names = sets | set_params
        for x in walk_no_defs(fn.node):
            if isinstance(x, ast.FormattedValue):
                inner = x.value
                bad = [y for y in ast.walk(inner) if isinstance(y, ast.Name) and y.id in names]
                wrapped = any(isinstance(y, ast.Call) and dotted(y.func) in ("sorted", "len") for y in ast.walk(inner))
                if bad:
                    n += 1
                    ctx.check(wrapped, "C14.DET", f"{fn.qual}/message-interpolates:{bad[0].id}", fn.loc(x), f"`{src(inner)[:40]}` passes through sorted()",
                              f"a message interpolates the set `{bad[0].id}` directly: its text depends on PYTHONHASHSEED (variants / runs disagree on messages)")
            if isinstance(x, (ast.For, ast.comprehension)) and isinstance(x.iter, ast.Name) and x.iter.id in names:
                n += 1
                ctx.violation("C14.DET", f"{fn.qual}/iterates-set:{x.iter.id}", fn.loc(x.iter), f"iteration over the set `{x.iter.id}` without sorted(): which element wins (suggestions, first error) depends on the hash seed")
            if isinstance(x, ast.Call) and isinstance(x.func, ast.Attribute) and x.func.attr == "join" and x.args and isinstance(x.args[0], ast.Name) and x.args[0].id in names:
                n += 1
                ctx.violation("C14.DET", f"{fn.qual}/joins-set:{x.args[0].id}", fn.loc(x), f"join over the set `{x.args[0].id}` without sorted()")
    sk = ctx.func(f"{V}:_suggest_key")
    loops = [x for x in walk_no_defs(sk.node) if isinstance(x, ast.For)]
    ctx.check(bool(loops) and all(isinstance(l.iter, ast.Call) and dotted(l.iter.func) == "sorted" for l in loops), "C14.DET", f"{sk.qual}/sorted-candidates", sk.loc(),
              "suggestion candidates are visited in sorted order", "the did-you-mean candidates are visited in set order")
    ctx.holds("C14.DET", f"{V}/messages", "configs/validate.py", f"{n} set-in-message / set-iteration sites examined")


# ----------------------------------------------------------------- RANGE
def rule_range(ctx) -> None:
    cf = ctx.func(f"{V}:_coerce_float")
    txt = src(cf.node)
    closed = any(isinstance(x, ast.Compare) and len(x.ops) == 1 and isinstance(x.ops[0], (ast.Eq, ast.NotEq)) and src(x.left) == src(x.comparators[0]) for x in walk_no_defs(cf.node)) \
        or "isnan" in txt or "isfinite" in txt
    if closed:
        ctx.holds("C14.RANGE", f"{cf.qual}/nan-closed", cf.loc(), "_coerce_float never returns NaN: every range check on a coerced float is NaN-closed by construction")
        return
    fn = ctx.func(IMPL)
    cfg = ctx.cfg(fn)
    # otherwise every one-sided negative test on a float-coerced key is a witness
    fl_keys: Set[str] = set()
    for x in walk_no_defs(fn.node):
        if isinstance(x, ast.Assign) and isinstance(x.value, ast.Call) and call_tail(x.value) == "_coerce_float":
            for t in x.targets:
                if isinstance(t, ast.Subscript):
                    fl_keys.add(src(t))
    for n in cfg.nodes:
        if n.kind == "cond":
            for c in [y for y in ast.walk(n.ast) if isinstance(y, ast.Compare) and len(y.ops) == 1 and isinstance(y.ops[0], (ast.Lt, ast.LtE, ast.Gt, ast.GtE))]:
                if src(c.left) in fl_keys and not isinstance(ctx.prog.parents(fn.node).get(id(c)), ast.UnaryOp):
                    ctx.violation("C14.RANGE", f"{fn.qual}/one-sided:{src(c.left)}", fn.loc(c), f"`{src(c)}` is a one-sided range test on a float that may be NaN: NaN makes it false, so NaN is accepted as `{src(c.left)}`")


# ----------------------------------------------------------------- TOTAL
def rule_total(ctx) -> None:
    fn = ctx.func(IMPL)
    cfg = ctx.cfg(fn)
    rd = ctx.rd(fn)
    pm = ctx.prog.parents(fn.node)

    def is_read(e: ast.AST) -> bool:
        """a value read out of a (user-derived) dictionary"""
        if isinstance(e, ast.Call) and isinstance(e.func, ast.Attribute) and e.func.attr == "get" and isinstance(e.func.value, ast.Name):
            return True
        if isinstance(e, ast.Subscript) and isinstance(e.value, ast.Name) and isinstance(e.ctx, ast.Load):
            return True
        return False

    def stored_coerced(e: ast.AST, at) -> bool:
        """D["k"] / D.get("k") where the validator itself stored a coerced value under D["k"] on every path to `at`"""
        if isinstance(e, ast.Subscript):
            D, k = src(e.value), src(e.slice)
        else:
            D, k = src(e.func.value), (src(e.args[0]) if e.args else None)
        if k is None:
            return False
        stores = [m for m in cfg.nodes if m.kind == "stmt" and isinstance(m.ast, ast.Assign) and any(isinstance(t, ast.Subscript) and src(t.value) == D and src(t.slice) == k for t in m.ast.targets)
                  and _total_expr(m.ast.value)]
        if not stores:
            return False
        # every path from the function entry to the read passes one of the coerced stores
        return cfg.path([cfg.entry], lambda t: t is at, avoid=lambda t: t in stores) is None

    def _total_expr(v: ast.AST) -> bool:
        if isinstance(v, ast.Constant):
            return True
        if isinstance(v, ast.Call) and ((dotted(v.func) or "").split(".")[-1] in TOTAL_COERCIONS | {"max", "min", "int", "float", "sorted", "list"}):
            if (dotted(v.func) or "") in ("int", "float", "max", "min", "sorted", "list"):
                return all(_total_expr(a) or isinstance(a, ast.Name) for a in v.args)  # of already-coerced locals
            return True
        if isinstance(v, (ast.Dict, ast.List, ast.ListComp, ast.DictComp, ast.JoinedStr)):
            return True
        if isinstance(v, ast.Name):
            return True  # locals are judged where they are defined
        if isinstance(v, ast.IfExp):
            return _total_expr(v.body) and _total_expr(v.orelse)
        if isinstance(v, ast.BoolOp):
            return all(_total_expr(x) for x in v.values)
        return False

    def raw_name(name: str, at, depth=0) -> bool:
        ds = [d for d in rd.reaching(name, at) if d.kind != "mutate"]
        for d in ds:
            v = d.value
            if d.kind == "for":
                # for k in X.keys() / for k, v in X.items(): elements of a user dict are untrusted
                if isinstance(v, ast.Call) and isinstance(v.func, ast.Attribute) and v.func.attr in ("keys", "items", "values"):
                    return True
                if isinstance(v, ast.Name) and raw_name(v.id, d.node, depth + 1) and depth < 3:
                    return True
                continue
            if v is None:
                continue
            if is_read(v) and not stored_coerced(v, d.node):
                return True
            if isinstance(v, ast.BoolOp) and any(is_read(x) and not stored_coerced(x, d.node) for x in v.values):
                return True
        return False

    def narrowed(e_src: str, node, use: ast.AST) -> bool:
        for t, p in cfg.facts(node):
            if p and t.startswith(f"isinstance({e_src},"):
                return True
        cur = use
        while id(cur) in pm:
            par = pm[id(cur)]
            if isinstance(par, ast.BoolOp):
                idx = next((i for i, vv in enumerate(par.values) if vv is cur or any(x is cur for x in ast.walk(vv))), 0)
                for prev in par.values[:idx]:
                    t, neg = prev, False
                    if isinstance(t, ast.UnaryOp) and isinstance(t.op, ast.Not):
                        t, neg = t.operand, True
                    if isinstance(t, ast.Call) and dotted(t.func) == "isinstance" and t.args and src(t.args[0]) == e_src:
                        if (isinstance(par.op, ast.And) and not neg) or (isinstance(par.op, ast.Or) and neg):
                            return True
            if isinstance(par, ast.IfExp) and cur is par.body:
                t = par.test
                if isinstance(t, ast.Call) and dotted(t.func) == "isinstance" and t.args and src(t.args[0]) == e_src:
                    return True
            if isinstance(par, ast.stmt):
                break
            cur = par
        return False

    n_sinks = 0
    n_raw = 0
    for n in cfg.nodes:
        if n not in cfg.reachable_from_entry() or n.ast is None:
            continue
        from ..dataflow import node_exprs
        for e in node_exprs(n):
            for x in walk_no_defs(e):
                operands: List[Tuple[ast.AST, str]] = []
                if isinstance(x, ast.Compare) and any(isinstance(o, (ast.Lt, ast.LtE, ast.Gt, ast.GtE)) for o in x.ops):
                    operands += [(y, "ordering comparison") for y in [x.left] + list(x.comparators)]
                if isinstance(x, ast.Compare) and any(isinstance(o, (ast.In, ast.NotIn)) for o in x.ops):
                    operands += [(y, "membership test in") for y in x.comparators]
                if isinstance(x, ast.BinOp) and not isinstance(x.op, ast.Mod):
                    operands += [(x.left, "arithmetic"), (x.right, "arithmetic")]
                if isinstance(x, ast.Call):
                    d = dotted(x.func) or ""
                    if d in ("len", "int", "float", "sorted", "min", "max", "sum", "set", "list", "tuple") and x.args:
                        operands.append((x.args[0], f"{d}()"))
                    if isinstance(x.func, ast.Attribute) and x.func.attr in ("lower", "upper", "strip", "split", "startswith", "endswith", "items", "keys", "values", "replace"):
                        operands.append((x.func.value, f".{x.func.attr}()"))
                if isinstance(x, (ast.For, ast.comprehension)):
                    operands.append((x.iter, "iteration"))
                for op, what in operands:
                    n_sinks += 1
                    raw = False
                    e_src = src(op)
                    if is_read(op):
                        raw = not stored_coerced(op, n)
                        # X.get("k") on a dict variable X: .items()/.keys() of the *dict variable itself* is not a raw value
                    elif isinstance(op, ast.Name):
                        raw = raw_name(op.id, n)
                    if not raw:
                        continue
                    if what in (".items()", ".keys()", ".values()") and isinstance(op, ast.Name):
                        continue
                    n_raw += 1
                    ok = narrowed(e_src, n, x) or guarded_by_catch_all(ctx.prog, fn, x) is not None
                    ctx.check(ok, "C14.TOTAL", f"{fn.qual}/{what}:{e_src[:40]}", fn.loc(x), f"{what} on untrusted `{e_src[:40]}` is narrowed by isinstance / inside try-except",
                              f"{what} is applied to `{e_src[:50]}`, a value read from the input without a total coercion, isinstance narrowing or try/except: "
                              f"some JSON/YAML value (list, None, dict, string) makes the validator raise something other than ConfigError")
    ctx.floor("C14.TOTAL", "may-raise operations examined in the normaliser", n_sinks, 200)
    ctx.holds("C14.TOTAL", f"{fn.qual}/sinks", fn.loc(), f"{n_sinks} may-raise operations examined, {n_raw} on untrusted operands (each narrowed / guarded)")
    # string helpers called with keys: the key is stringified first
    sk = ctx.func(f"{V}:_suggest_key")
    ok = any(isinstance(x, ast.Assign) and isinstance(x.value, ast.Call) and dotted(x.value.func) == "str" and src(x.targets[0]) == sk.params[0] for x in walk_no_defs(sk.node)) or \
        all(isinstance(c.args[0], ast.Call) and dotted(c.args[0].func) == "str" for c in walk_no_defs(sk.node) if isinstance(c, ast.Call) and call_tail(c) == "_lev")
    ctx.check(ok, "C14.TOTAL", f"{sk.qual}/key-stringified", sk.loc(), "the unknown key is stringified before the edit-distance helper uses len()/iteration on it",
              "_suggest_key hands a possibly non-string key to _lev (len(5) -> TypeError instead of ConfigError)")


# -------------------------------------------------------------- CONTRACT
def _defaults_tree(m) -> Dict[str, object]:
    for st in m.tree.body:
        if isinstance(st, (ast.Assign, ast.AnnAssign)):
            tg = st.targets if isinstance(st, ast.Assign) else [st.target]
            if any(isinstance(t, ast.Name) and t.id == "DEFAULTS" for t in tg) and isinstance(st.value, ast.Dict):
                def conv(d: ast.Dict):
                    out = {}
                    for k, v in zip(d.keys, d.values):
                        ks = const_str(k) if k is not None else None
                        if ks is not None:
                            out[ks] = conv(v) if isinstance(v, ast.Dict) else True
                    return out
                return conv(st.value)
    raise AnalysisError("anchor-vanished: DEFAULTS table in configs/validate.py")


def rule_contract(ctx) -> None:
    m = ctx.prog.module(V)
    defaults = _defaults_tree(m)
    impl = ctx.func(IMPL)
    impl_src = src(impl.node)
    # keys the validator stores itself:  <sec>["k"] = ...
    stored: Dict[str, Set[str]] = {}
    icfg = ctx.cfg(impl)
    for nd in icfg.nodes:
        x = nd.ast
        if nd.kind == "stmt" and isinstance(x, ast.Assign):
            for t in x.targets:
                if isinstance(t, ast.Subscript) and isinstance(t.value, ast.Name) and const_str(t.slice):
                    k0 = const_str(t.slice)
                    # only unconditional stores make the key always present (not those under `if "k" in sec:`)
                    if any(p and tt == f"'{k0}' in {t.value.id}" for tt, p in icfg.facts(nd)):
                        continue
                    stored.setdefault(t.value.id, set()).add(k0)
    _subs = _validator_subdicts(ctx, impl)
    sec_var = {pth: v for v, (pth, _n) in _subs.items() if pth in ("t1", "t2", "t3", "t4")}
    for _sec in ("t1", "t2", "t3", "t4"):
        sec_var.setdefault(_sec, _sec)
    # (1) hard subscripts on stage config dictionaries in the engine
    engine_subs: List[Tuple[Func, ast.Subscript, str, str]] = []
    roots = {"cfg_t1": "t1", "cfg_t2": "t2", "cfg_t3": "t3", "cfg_t4": "t4"}
    for f in ctx.prog.all_funcs("clematis.engine.stages."):
        for x in walk_no_defs(f.node):
            if isinstance(x, ast.Subscript) and isinstance(x.ctx, ast.Load) and isinstance(x.value, ast.Name) and x.value.id in roots and const_str(x.slice):
                engine_subs.append((f, x, roots[x.value.id], const_str(x.slice)))
    t4f = ctx.func("clematis.engine.stages.t4:t4_filter")
    for x in walk_no_defs(t4f.node):
        if isinstance(x, ast.Subscript) and isinstance(x.ctx, ast.Load) and isinstance(x.value, ast.Name) and x.value.id == "cfg" and const_str(x.slice):
            engine_subs.append((t4f, x, "t4", const_str(x.slice)))
    for f, x, sec, k in engine_subs:
        dflt = isinstance(defaults.get(sec), dict) and k in defaults[sec]
        own_default = False
        if f.qual.startswith("clematis.engine.stages.t4"):
            g = ctx.prog.funcs.get("clematis.engine.stages.t4:_get_cfg")
            own_default = g is not None and f'"{k}"' in g.module.src[g.node.col_offset:] and k in src(g.node)
        ctx.check(dflt or own_default or k in stored.get(sec_var.get(sec, sec), set()), "C14.CONTRACT", f"{f.qual}/hard-subscript:{sec}.{k}", f.loc(x),
                  f"{sec}.{k} is subscripted without default, but is always present (validator default / stage-local default table)",
                  f"the engine subscripts {sec}['{k}'] without a default, but the validator neither defaults nor requires {sec}.{k}: an accepted config (e.g. {{}}) raises KeyError in a turn")
    # (2) typed uses of config values in the stages vs. validator checks
    uses: List[Tuple[str, str, str, Func, ast.AST]] = []  # (section, key, kind, fn, node)
    for f in ctx.prog.all_funcs("clematis.engine.stages."):
        for x in walk_no_defs(f.node):
            if isinstance(x, ast.Call):
                d = dotted(x.func) or ""
                inner = x.args[0] if x.args else None
                # int(cfg.get("k", d)) / float(...) / list(...)
                if d in ("int", "float", "list") and isinstance(inner, ast.Call) and isinstance(inner.func, ast.Attribute) and inner.func.attr == "get" \
                        and isinstance(inner.func.value, ast.Name) and inner.func.value.id in roots and inner.args and const_str(inner.args[0]):
                    if guarded_by_catch_all(ctx.prog, f, x) is None:
                        uses.append((roots[inner.func.value.id], const_str(inner.args[0]), {"int": "number", "float": "number", "list": "sequence"}[d], f, x))
                # cfg.get("k", {}).get(..) / .items()
                if isinstance(x.func, ast.Attribute) and x.func.attr in ("get", "items", "keys") and isinstance(x.func.value, ast.Call):
                    iv = x.func.value
                    if isinstance(iv.func, ast.Attribute) and iv.func.attr == "get" and isinstance(iv.func.value, ast.Name) and iv.func.value.id in roots and iv.args and const_str(iv.args[0]):
                        if guarded_by_catch_all(ctx.prog, f, x) is None:
                            uses.append((roots[iv.func.value.id], const_str(iv.args[0]), "mapping", f, x))
    # values bound to a local first:  v = cfg.get("k", d) [or {}]  ...  v.get(..) / v.items() / for x in v / int(v)
    def _cfg_read(e: ast.AST) -> Optional[Tuple[str, str]]:
        if isinstance(e, ast.BoolOp) and isinstance(e.op, ast.Or) and e.values:
            e = e.values[0]
        if isinstance(e, ast.Call) and isinstance(e.func, ast.Attribute) and e.func.attr == "get" and isinstance(e.func.value, ast.Name) and e.func.value.id in roots and e.args and const_str(e.args[0]):
            return roots[e.func.value.id], const_str(e.args[0])
        return None

    for f in ctx.prog.all_funcs("clematis.engine.stages."):
        bound: Dict[str, Tuple[str, str]] = {}
        g: Optional[Func] = f
        while g is not None:
            for y in walk_no_defs(g.node):
                if isinstance(y, ast.Assign) and len(y.targets) == 1 and isinstance(y.targets[0], ast.Name):
                    r = _cfg_read(y.value)
                    if r and y.targets[0].id not in bound:
                        bound[y.targets[0].id] = r
            g = g.parent
        if not bound:
            continue
        for x in walk_no_defs(f.node):
            kind = None
            nm = None
            if isinstance(x, ast.Call) and isinstance(x.func, ast.Attribute) and isinstance(x.func.value, ast.Name) and x.func.value.id in bound and x.func.attr in ("get", "items", "keys", "values"):
                kind, nm = "mapping", x.func.value.id
            elif isinstance(x, ast.Call) and dotted(x.func) in ("int", "float") and x.args and isinstance(x.args[0], ast.Name) and x.args[0].id in bound:
                kind, nm = "number", x.args[0].id
            elif isinstance(x, (ast.For, ast.comprehension)) and isinstance(x.iter, ast.Name) and x.iter.id in bound:
                kind, nm = "sequence", x.iter.id
            if kind and guarded_by_catch_all(ctx.prog, f, x) is None:
                # an isinstance guard on the local in the same function makes the use safe
                guarded = any(isinstance(y, ast.Call) and dotted(y.func) == "isinstance" and y.args and src(y.args[0]) == nm for y in walk_no_defs(f.node))
                if not guarded:
                    uses.append((bound[nm][0], bound[nm][1], kind, f, x))
    ctx.floor("C14.CONTRACT", "typed uses of stage config values in the engine", len(uses), 10)
    # an atom can only occur in an accepted config if the validator allows the key at all
    allowed: Dict[str, Set[str]] = {}
    for name, sts in m.globals_assigned.items():
        if name in ("ALLOWED_T1", "ALLOWED_T2", "ALLOWED_T3", "ALLOWED_T4"):
            v = getattr(sts[0], "value", None)
            if isinstance(v, ast.Set):
                allowed[name[-2:].lower()] = {const_str(e) for e in v.elts}
    if len(allowed) < 4:
        raise AnalysisError("anchor-vanished: ALLOWED_T1..T4 tables")
    seen = set()
    for sec, k, kind, f, x in uses:
        if (sec, k, kind) in seen:
            continue
        if k not in allowed.get(sec, set()):
            ctx.info("C14.CONTRACT", f"{IMPL}/typed:{sec}.{k}:{kind}", f.loc(x), f"{sec}.{k} is read by the engine but rejected by the validator as an unknown key (cannot occur in an accepted config)")
            seen.add((sec, k, kind))
            continue
        seen.add((sec, k, kind))
        sv = sec_var.get(sec, sec)
        coerced = False
        for y in walk_no_defs(impl.node):
            if isinstance(y, ast.Assign) and isinstance(y.value, ast.Call):
                for t in y.targets:
                    if isinstance(t, ast.Subscript) and src(t.value) == sv and const_str(t.slice) == k:
                        ct = (dotted(y.value.func) or "").split(".")[-1]
                        if kind == "number" and ct in ("_coerce_int", "_coerce_float", "int", "float", "max", "min"):
                            coerced = True
                        if kind == "mapping" and ct in ("_ensure_dict", "_ensure_subdict", "dict"):
                            coerced = True
                        if kind == "sequence" and ct in ("list", "sorted"):
                            coerced = True
            if isinstance(y, ast.Call) and dotted(y.func) == "isinstance" and len(y.args) == 2 and k in src(y.args[0]) and sv in src(y.args[0]):
                ty = src(y.args[1])
                if (kind == "mapping" and "dict" in ty) or (kind == "sequence" and ("list" in ty or "tuple" in ty)) or (kind == "number" and ("int" in ty or "float" in ty)):
                    coerced = True
            if kind == "mapping" and isinstance(y, ast.Call) and call_tail(y) in ("_ensure_subdict",) and len(y.args) == 2 and src(y.args[0]) == sv and const_str(y.args[1]) == k:
                coerced = True
        ctx.check(coerced, "C14.CONTRACT", f"{IMPL}/typed:{sec}.{k}:{kind}", f.loc(x), f"{sec}.{k} is used as a {kind} by {f.name} and is coerced / type-checked by the validator",
                  f"{f.qual} uses {sec}.{k} as a {kind} (`{src(x)[:50]}`) but the validator accepts any value for it: an accepted config such as {{'{sec}': {{'{k}': 'x'}}}} makes a turn raise")


COERCERS = {"_coerce_int", "_coerce_float", "_coerce_bool", "int", "float", "max", "min", "bool"}


def _validator_subdicts(ctx, impl) -> Dict[str, Tuple[str, object]]:
    """validator local -> (config path, binding node) for `x = _ensure_subdict(parent, "k")` chains from `merged`"""
    cfg = ctx.cfg(impl)
    # the root is whatever _ensure_subdict is applied to without itself coming from _ensure_subdict (the merged tree)
    made, used = set(), set()
    for n in cfg.nodes:
        a = n.ast
        if n.kind == "stmt" and isinstance(a, ast.Assign) and len(a.targets) == 1 and isinstance(a.targets[0], ast.Name) and isinstance(a.value, ast.Call) \
                and call_tail(a.value) == "_ensure_subdict" and len(a.value.args) == 2 and isinstance(a.value.args[0], ast.Name):
            made.add(a.targets[0].id)
            used.add(a.value.args[0].id)
    out: Dict[str, Tuple[str, object]] = {r: ("", None) for r in used - made}
    for _ in range(4):
        for n in cfg.nodes:
            a = n.ast
            if n.kind == "stmt" and isinstance(a, ast.Assign) and len(a.targets) == 1 and isinstance(a.targets[0], ast.Name) and isinstance(a.value, ast.Call) \
                    and call_tail(a.value) == "_ensure_subdict" and len(a.value.args) == 2 and isinstance(a.value.args[0], ast.Name) and const_str(a.value.args[1]):
                par = a.value.args[0].id
                if par in out and a.targets[0].id not in out:
                    pp = out[par][0]
                    out[a.targets[0].id] = ((pp + "." if pp else "") + const_str(a.value.args[1]), n)
    return out


def _always_coerced(ctx, impl, var: str, bind, key: str) -> bool:
    """in every ACCEPTED run of the validator the value left under var[key] is not the user's raw value: every path from
    the binding of the sub-dictionary to the exit stores a coerced value / a numeric constant there, or goes through the
    branch where the user did not supply the key, or records an error (the configuration is rejected)"""
    cfg = ctx.cfg(impl)
    stores = set(_store_nodes(ctx, impl, var, key))
    for n in cfg.nodes:
        if any(call_tail(c) == "_err" for c in node_calls(n)):
            stores.add(n)  # the configuration is rejected on this path
    if not any(n for n in stores if not any(call_tail(c) == "_err" for c in node_calls(n))):
        return False
    absent = set()
    for n in cfg.nodes:
        if n.kind == "cond" and isinstance(n.ast, ast.Compare) and len(n.ast.ops) == 1 and isinstance(n.ast.ops[0], ast.In) and const_str(n.ast.left) == key:
            absent |= {t for t, l in n.succ if l == "F"}
        if n.kind == "cond" and isinstance(n.ast, ast.Compare) and len(n.ast.ops) == 1 and isinstance(n.ast.ops[0], ast.NotIn) and const_str(n.ast.left) == key:
            absent |= {t for t, l in n.succ if l == "T"}
    from ..util import no_exc
    return cfg.path([bind], lambda x: x is cfg.exit, avoid=lambda x: x in stores or x in absent, edge_ok=no_exc, include_start=False) is None


def _store_nodes(ctx, impl, var: str, key: str) -> Set[object]:
    """CFG nodes of the validator that leave a coerced value / numeric constant under var[key] (directly, through a local
    helper `h(name, ..)` that does `var[name] = <coerced>`, or as the body of a loop over a literal key table)"""
    cfg = ctx.cfg(impl)
    stores = set()
    numeric = lambda v: isinstance(v, ast.Constant) and isinstance(v.value, (int, float)) and not isinstance(v.value, bool)

    def coercing(v: ast.AST, local_coerced: Set[str]) -> bool:
        if numeric(v):
            return True
        if isinstance(v, ast.Call) and (dotted(v.func) or "").split(".")[-1] in COERCERS:
            return True
        return isinstance(v, ast.Name) and v.id in local_coerced

    # locals holding a coerced value:  itks = _coerce_int(...)
    local_coerced: Set[str] = set()
    for n in cfg.nodes:
        a = n.ast
        if n.kind == "stmt" and isinstance(a, ast.Assign) and len(a.targets) == 1 and isinstance(a.targets[0], ast.Name) and isinstance(a.value, ast.Call) \
                and (dotted(a.value.func) or "").split(".")[-1] in COERCERS:
            local_coerced.add(a.targets[0].id)
    # keys bound by `for k in ("a", "b")`
    loop_keys: Dict[str, Set[str]] = {}
    for x in walk_no_defs(impl.node):
        if isinstance(x, ast.For) and isinstance(x.target, ast.Name) and isinstance(x.iter, (ast.Tuple, ast.List)):
            loop_keys.setdefault(x.target.id, set()).update({const_str(e) for e in x.iter.elts if const_str(e)})
    # keys bound by a table loop `for name, lo in (("a", 0), ("b", 1)):`
    table_loops: Dict[str, List[ast.For]] = {}
    for x in walk_no_defs(impl.node):
        if isinstance(x, ast.For) and isinstance(x.target, ast.Tuple) and isinstance(x.iter, (ast.Tuple, ast.List)) and x.iter.elts and all(isinstance(r, (ast.Tuple, ast.List)) for r in x.iter.elts):
            for i, t in enumerate(x.target.elts):
                if isinstance(t, ast.Name):
                    ks = {const_str(r.elts[i]) for r in x.iter.elts if i < len(r.elts) and const_str(r.elts[i])}
                    if ks:
                        loop_keys.setdefault(t.id, set()).update(ks)
                        table_loops.setdefault(t.id, []).append(x)
    # local helpers  def h(name, ...):  ...  var[name] = <coerced>
    helpers: Dict[str, int] = {}
    for ch in ctx.prog.all_funcs(impl.qual + "."):
        if ch.parent is not impl:
            continue
        for y in walk_no_defs(ch.node):
            if isinstance(y, ast.Assign):
                for t in y.targets:
                    if isinstance(t, ast.Subscript) and isinstance(t.value, ast.Name) and t.value.id == var and isinstance(t.slice, ast.Name) and t.slice.id in ch.params:
                        loc2 = {z.targets[0].id for z in walk_no_defs(ch.node) if isinstance(z, ast.Assign) and len(z.targets) == 1 and isinstance(z.targets[0], ast.Name)
                                and isinstance(z.value, ast.Call) and (dotted(z.value.func) or "").split(".")[-1] in COERCERS}
                        if coercing(y.value, loc2):
                            helpers[ch.name] = ch.params.index(t.slice.id)
    for n in cfg.nodes:
        a = n.ast
        if n.kind == "stmt" and isinstance(a, ast.Assign) and coercing(a.value, local_coerced):
            for t in a.targets:
                if isinstance(t, ast.Subscript) and isinstance(t.value, ast.Name) and t.value.id == var:
                    if const_str(t.slice) == key or (isinstance(t.slice, ast.Name) and key in loop_keys.get(t.slice.id, set())):
                        stores.add(n)
        for c in node_calls(n):
            if isinstance(c.func, ast.Name) and c.func.id in helpers and len(c.args) > helpers[c.func.id] and const_str(c.args[helpers[c.func.id]]) == key:
                stores.add(n)
            if isinstance(c.func, ast.Name) and c.func.id in helpers and len(c.args) > helpers[c.func.id] and isinstance(c.args[helpers[c.func.id]], ast.Name) \
                    and key in loop_keys.get(c.args[helpers[c.func.id]].id, set()):
                # h(name, lo) as a direct statement of a loop over a non-empty literal table: runs for every listed key
                for lp in table_loops.get(c.args[helpers[c.func.id]].id, []) + [x for x in walk_no_defs(impl.node) if isinstance(x, ast.For) and isinstance(x.target, ast.Name) and x.target.id == c.args[helpers[c.func.id]].id]:
                    if any(isinstance(st, ast.Expr) and st.value is c for st in lp.body):
                        stores |= set(cfg.nodes_of(lp))
    # `for k in ("a", "b"): var[k] = coerce(...)` as a direct statement of the loop body: the loop over a non-empty literal
    # runs for every listed key, so the loop head itself stands for the store
    for x in walk_no_defs(impl.node):
        if isinstance(x, ast.For) and isinstance(x.target, ast.Name) and isinstance(x.iter, (ast.Tuple, ast.List)) and key in {const_str(e) for e in x.iter.elts}:
            for st in x.body:
                if isinstance(st, ast.Assign) and coercing(st.value, local_coerced) and any(
                        isinstance(t, ast.Subscript) and isinstance(t.value, ast.Name) and t.value.id == var and isinstance(t.slice, ast.Name) and t.slice.id == x.target.id for t in st.targets):
                    stores |= set(cfg.nodes_of(x))
    return stores


def rule_contract_nested(ctx) -> None:
    """numeric uses of nested configuration values (t*.cache.*, ...) in the engine: every key that can supply the value
    in a validated config is one the validator stores coerced.  `D.get(K1, D.get(K2, d))` is supplied by K1, and by K2 only
    if K1 is not always present after validation - so preferring a raw alias over the normalised key is a violation."""
    from ..paths import PathEval
    impl = ctx.func(IMPL)
    subs = _validator_subdicts(ctx, impl)
    by_path = {p: (v, n) for v, (p, n) in subs.items() if p and "." in p}
    if len(by_path) < 8:
        raise AnalysisError("anchor-vanished: nested _ensure_subdict bindings of the validator")
    pe = PathEval(ctx, depth=2)
    from .c02 import _dead_key, _validator_tables
    tables = _validator_tables(ctx)
    memo: Dict[Tuple[str, str], bool] = {}

    def coerced(path: str, key: str) -> bool:
        if (path, key) not in memo:
            v, n = by_path[path]
            memo[(path, key)] = _always_coerced(ctx, impl, v, n, key)
        return memo[(path, key)]

    def _stage_cfg_path(recv: ast.AST, at, rd) -> Optional[str]:
        """`c = cfg_t1.get("cache", {}) or {}` -> "t1.cache" (stage functions receive their section as a parameter)"""
        v = recv
        if isinstance(v, ast.Name):
            ds = [d for d in rd.reaching(v.id, at) if d.kind in ("assign", "walrus")]
            if len(ds) != 1 or ds[0].value is None:
                return None
            v = ds[0].value
        if isinstance(v, ast.BoolOp) and isinstance(v.op, ast.Or):
            v = v.values[0]
        if isinstance(v, ast.Call) and dotted(v.func) in ("_ensure_dict", "dict") and v.args:
            v = v.args[0]
        if isinstance(v, ast.Call) and isinstance(v.func, ast.Attribute) and v.func.attr == "get" and isinstance(v.func.value, ast.Name) and v.args and const_str(v.args[0]):
            r = v.func.value.id
            if r in ("cfg_t1", "cfg_t2", "cfg_t3", "cfg_t4"):
                return f"{r[-2:]}.{const_str(v.args[0])}"
        return None

    def suppliers(fn, e, at, rd, depth=0) -> Set[Tuple[str, str]]:
        """(sub-dict path, key) pairs that can supply the value of e in a validated config"""
        out: Set[Tuple[str, str]] = set()
        if depth > 6 or e is None:
            return out
        if isinstance(e, ast.Call) and isinstance(e.func, ast.Attribute) and e.func.attr == "get" and e.args and const_str(e.args[0]):
            try:
                ps = pe.paths(fn, e.func.value, at)
            except Exception:
                ps = frozenset()
            hit = False
            if not any(r == "cfg" and ".".join(ks) in by_path for r, ks in ps):
                mp = _stage_cfg_path(e.func.value, at, rd)
                if mp is not None:
                    ps = frozenset({("cfg", tuple(mp.split(".")))})
            for r, ks in ps:
                path = ".".join(ks)
                if r == "cfg" and path in by_path:
                    hit = True
                    k = const_str(e.args[0])
                    out.add((path, k))
                    if len(e.args) > 1 and not coerced(path, k):
                        out |= suppliers(fn, e.args[1], at, rd, depth + 1)
            if not hit and len(e.args) > 1:
                out |= suppliers(fn, e.args[1], at, rd, depth + 1)
            return out
        if isinstance(e, ast.Name):
            for d in rd.reaching(e.id, at):
                if d.kind in ("assign", "walrus") and d.value is not None:
                    out |= suppliers(fn, d.value, d.node, rd, depth + 1)
            return out
        if isinstance(e, ast.IfExp):
            return suppliers(fn, e.body, at, rd, depth + 1) | suppliers(fn, e.orelse, at, rd, depth + 1)
        if isinstance(e, ast.BoolOp):
            for v in e.values:
                out |= suppliers(fn, v, at, rd, depth + 1)
            return out
        return out

    n_uses = 0
    seen: Set[Tuple[str, str, str]] = set()
    for fn in ctx.prog.all_funcs("clematis.engine."):
        if not any(isinstance(x, ast.Call) and dotted(x.func) in ("int", "float") for x in walk_no_defs(fn.node)):
            continue
        cfg = None
        for x in walk_no_defs(fn.node):
            if not (isinstance(x, ast.Call) and dotted(x.func) in ("int", "float") and x.args):
                continue
            if "get(" not in src(x.args[0]) and not isinstance(x.args[0], (ast.Name, ast.IfExp)):
                continue
            if guarded_by_catch_all(ctx.prog, fn, x) is not None:
                continue
            if cfg is None:
                cfg = ctx.cfg(fn)
            nodes = cfg.node_containing(x)
            if not nodes:
                continue
            sup = suppliers(fn, x.args[0], nodes[0], ctx.rd(fn))
            if not sup:
                continue
            n_uses += 1
            for path, k in sorted(sup):
                if (fn.qual, path, k) in seen:
                    continue
                seen.add((fn.qual, path, k))
                if _dead_key(tables, f"{path}.{k}"):
                    ctx.info("C14.CONTRACT", f"{fn.qual}/nested-number:{path}.{k}", fn.loc(x), f"{path}.{k} is read by the engine but rejected by the validator as an unknown key")
                    continue
                ctx.check(coerced(path, k), "C14.CONTRACT", f"{fn.qual}/nested-number:{path}.{k}", fn.loc(x),
                          f"{path}.{k} can supply `{src(x)[:40]}` and is stored coerced by the validator on every path",
                          f"`{src(x)[:60]}` can take its value from {path}.{k}, which the validator leaves as the user wrote it (it normalises another key of that section): "
                          f"an accepted config such as {{'{path.split('.')[0]}': {{'{path.split('.')[1]}': {{'{k}': '10m'}}}}}} makes the turn raise, and an out-of-range value is used unchecked")
    ctx.floor("C14.CONTRACT", "numeric uses of nested configuration values in the engine", n_uses, 4)


def rule_verdict_reads_normalised(ctx) -> None:
    """"every accepted configuration satisfies the documented ranges ... same verdict" for every spelling of a value: a range
    test that decides the verdict looks at the value the validator keeps.  A test that orders a RAW read of section[key]
    (`x = sec.get("k")` ... `if isinstance(x, int) and x < other: _err`) while the normalising store of that key
    (`sec["k"] = coerce(..)`) comes later sees "10" / 10.0 where the accepted configuration holds 10: the test is skipped
    or mis-typed for those spellings and an out-of-range value is accepted."""
    impl = ctx.func(IMPL)
    cfg = ctx.cfg(impl)
    rd = ctx.rd(impl)
    subs = _validator_subdicts(ctx, impl)
    n_tests = 0
    n_reads = 0
    for n in cfg.nodes:
        if n.kind != "cond":
            continue
        # an error verdict hangs on this test
        tsucc = [t for t, l in n.succ if l == "T"]
        if not tsucc:
            continue
        st = ctx.prog.parents(impl.node).get(id(n.ast))
        owner = st
        while owner is not None and not isinstance(owner, (ast.If, ast.IfExp, ast.While)):
            owner = ctx.prog.parents(impl.node).get(id(owner))
        if not isinstance(owner, ast.If) or not any(isinstance(c, ast.Call) and call_tail(c) == "_err" for b in owner.body for c in ast.walk(b)):
            continue
        for cmp in [x for x in ast.walk(n.ast) if isinstance(x, ast.Compare) and any(isinstance(o, (ast.Lt, ast.LtE, ast.Gt, ast.GtE)) for o in x.ops)]:
            n_tests += 1
            for side in [cmp.left] + list(cmp.comparators):
                if not isinstance(side, ast.Name):
                    continue
                for d in rd.reaching(side.id, n):
                    v = d.value
                    if v is None or d.kind != "assign":
                        continue
                    read = None
                    if isinstance(v, ast.Call) and call_tail(v) == "get" and isinstance(v.func, ast.Attribute) and isinstance(v.func.value, ast.Name) and v.func.value.id in subs and v.args and const_str(v.args[0]):
                        read = (v.func.value.id, const_str(v.args[0]))
                    elif isinstance(v, ast.Subscript) and isinstance(v.value, ast.Name) and v.value.id in subs and const_str(v.slice):
                        read = (v.value.id, const_str(v.slice))
                    if read is None:
                        continue
                    n_reads += 1
                    var, k = read
                    stores = _store_nodes(ctx, impl, var, k)
                    later = [sn for sn in stores if sn in cfg.reach([d.node], include_start=False)]
                    path = subs[var][0]
                    ctx.check(not later, "C14.RANGE", ctx.okey(f"{impl.qual}/verdict-reads-normalised:{path}.{k}"), impl.loc(cmp),
                              f"`{src(cmp)[:50]}` tests {path}.{k} as the validator keeps it (read after its normalisation)",
                              (f"`{src(cmp)[:50]}` orders `{side.id}`, read from {path}.{k} at line {getattr(d.node.ast, 'lineno', '?')} BEFORE the validator normalises that key "
                               f"(line {getattr(later[0].ast, 'lineno', '?')}): for a spelling the coercion accepts (\"10\", 10.0) the test sees the raw value, is skipped or mis-typed, and a configuration "
                               "outside the documented range is accepted - while the int spelling of the same value is rejected") if later else "")
    ctx.floor("C14.RANGE", "ordering tests that decide an error verdict in the validator", n_tests, 40)
    ctx.floor("C14.RANGE", "of those, tests on a value read back from a section", n_reads, 1)


def rule_coercers_total(ctx) -> None:
    """the totality argument of the whole validator rests on its coercion helpers: every value of JSON / YAML shape goes through
    one of them before it is compared or stored, and the rules above treat a coercer call as a sanitiser.  So each coercer must
    itself be total: its int() / float() conversion of the parameter sits in a try that catches Exception (or at least
    TypeError, ValueError AND OverflowError - float(10**400) overflows, and 10**400 is a legal JSON / YAML number)."""
    n = 0
    for name in sorted(COERCERS):
        fn = ctx.prog.funcs.get(f"{V}:{name}")
        if fn is None or not fn.params:
            continue
        p0 = fn.params[0]
        for x in walk_no_defs(fn.node):
            if not (isinstance(x, ast.Call) and isinstance(x.func, ast.Name) and x.func.id in ("int", "float") and x.args and any(isinstance(y, ast.Name) and y.id == p0 for y in ast.walk(x.args[0]))):
                continue
            n += 1
            ok = False
            for st, part in enclosing(ctx.prog, fn, x):
                if isinstance(st, ast.Try) and part == "body":
                    caught = set()
                    for h in st.handlers:
                        if h.type is None:
                            caught.add("*")
                        else:
                            for e in (h.type.elts if isinstance(h.type, ast.Tuple) else [h.type]):
                                caught.add(src(e).split(".")[-1])
                    if "*" in caught or "Exception" in caught or "BaseException" in caught or {"TypeError", "ValueError", "OverflowError"} <= caught \
                            or ({"TypeError", "ValueError", "ArithmeticError"} <= caught):
                        ok = True
            ctx.check(ok, "C14.TOTAL", ctx.okey(f"{fn.qual}/conversion-total"), fn.loc(x), f"`{src(x)}` is under a handler that covers TypeError, ValueError and OverflowError",
                      f"`{src(x)}` in {name} is not under a handler covering OverflowError: a huge integer (10**400 - a legal JSON / YAML number) at a knob this helper coerces makes every API variant and "
                      "the CLI raise OverflowError instead of the typed configuration error")
    ctx.floor("C14.TOTAL", "conversions inside the validator's coercion helpers", n, 2)


def rule_sections_and_ranges(ctx) -> None:
    """further structural conditions of "every accepted configuration satisfies the documented ranges and the engine can
    execute turns under it": (a) a section that is normalised only when the user supplied it (`if raw_<sec>:`) rejects a
    non-mapping value - otherwise the scalar skips the normalisation and reaches the engine verbatim; (b) a configuration
    value the engine divides by / scales with is bounded by the validator so that the operation is defined (decay alpha >= 0,
    update alpha finite); (c) a value copied from the user's quality section under a key with a documented range is tested
    against that range where it is copied; (d) the result shares no object with the module-level DEFAULTS; (e) the CLI's
    JSON report can carry whatever the validator accepted."""
    impl = ctx.func(IMPL)
    cfg = ctx.cfg(impl)
    errs = [(n, c) for n in cfg.nodes for c in node_calls(n) if call_tail(c) == "_err" and len(c.args) >= 2]

    def err_paths() -> Set[str]:
        out = set()
        for n, c in errs:
            p = c.args[1]
            if const_str(p):
                out.add(const_str(p))
            elif isinstance(p, ast.JoinedStr):
                out.add("".join(str(v.value) if isinstance(v, ast.Constant) else "*" for v in p.values))
        return out

    paths = err_paths()
    # (a)
    n_sec = 0
    rdi = ctx.rd(impl)
    # role: a local holding the user's own copy of a top-level section = _ensure_dict(<input>.get("<sec>"))
    raw_of: Dict[str, str] = {}
    for d in rdi.all_defs:
        v = d.value
        if d.kind == "assign" and isinstance(v, ast.Call) and call_tail(v) == "_ensure_dict" and v.args and isinstance(v.args[0], ast.Call) and call_tail(v.args[0]) == "get" \
                and isinstance(v.args[0].func.value, ast.Name) and v.args[0].args and const_str(v.args[0].args[0]):
            holder = v.args[0].func.value.id
            hd = [dd for dd in rdi.all_defs if dd.name == holder and dd.value is not None and dd.kind == "assign"]
            if hd and all(isinstance(dd.value, ast.Call) and call_tail(dd.value) == "_ensure_dict" and dd.value.args and isinstance(dd.value.args[0], ast.Name) and dd.value.args[0].id in impl.params for dd in hd):
                raw_of[d.name] = const_str(v.args[0].args[0])
    # ... and of nested sections: raw_t2_quality = _ensure_dict(raw_t2.get("quality")) is the user's own `t2.quality`
    full_path = dict(raw_of)
    for _ in range(3):
        for d in rdi.all_defs:
            v = d.value
            if d.kind == "assign" and d.name not in full_path and isinstance(v, ast.Call) and call_tail(v) == "_ensure_dict" and v.args and isinstance(v.args[0], ast.Call) and call_tail(v.args[0]) == "get" \
                    and isinstance(v.args[0].func.value, ast.Name) and v.args[0].func.value.id in full_path and v.args[0].args and const_str(v.args[0].args[0]):
                full_path[d.name] = full_path[v.args[0].func.value.id] + "." + const_str(v.args[0].args[0])
    for x in walk_no_defs(impl.node):
        if isinstance(x, ast.If) and isinstance(x.test, ast.Name) and x.test.id in full_path and x.test.id not in raw_of:
            pth = full_path[x.test.id]
            leaf = pth.rsplit(".", 1)[1]
            # only where the section is stored back into the MERGED user tree (a local from _ensure_subdict(merged, ...)): there a
            # skipped block leaves the user's scalar in place.  Sub-sections of a parent that is rebuilt from scratch (q = {}) are
            # simply not copied - ignored, not passed through.
            merged_locals = set(_validator_subdicts(ctx, impl))
            stores = [y for st in x.body for y in ast.walk(st) if isinstance(y, ast.Assign) and any(isinstance(t, ast.Subscript) and const_str(t.slice) == leaf and isinstance(t.value, ast.Name)
                                                                                                    and t.value.id in merged_locals for t in y.targets)]
            if not stores:
                continue
            n_sec += 1
            rejected = any(const_str(c.args[1]) == pth and any("isinstance" in t and "dict" in t for t, pol in cfg.facts(n)) for n, c in errs)
            ctx.check(rejected, "C14.CONTRACT", f"{impl.qual}/section-must-be-a-mapping:{pth}", impl.loc(x), f"a non-mapping `{pth}` is rejected",
                      f"`{pth}` is normalised only under `if {x.test.id}:` and nothing rejects a non-mapping value: `{leaf}: on` yields an empty raw section, the block is skipped and the scalar stays in the "
                      "accepted configuration verbatim - not the documented mapping; the plain CLI summary and the engine call .get on it")
    for x in walk_no_defs(impl.node):
        if isinstance(x, ast.If) and isinstance(x.test, ast.Name) and x.test.id in raw_of:
            want = raw_of[x.test.id]
            stores = [y for st in x.body for y in ast.walk(st) if isinstance(y, ast.Assign) and any(isinstance(t, ast.Subscript) and isinstance(t.value, ast.Name) and const_str(t.slice) == want for t in y.targets)]
            for y in stores:
                sec = want
                n_sec += 1
                rejected = any(const_str(c.args[1]) == sec and any("isinstance" in t and "dict" in t for t, pol in cfg.facts(n)) for n, c in errs)
                ctx.check(rejected, "C14.CONTRACT", f"{impl.qual}/section-must-be-a-mapping:{sec}", impl.loc(x), f"a non-mapping `{sec}` is rejected",
                          f"`{sec}` is normalised only under `if {x.test.id}:` and nothing rejects a non-mapping value: `{sec}: 5` yields an empty raw section, the block is skipped and the scalar stays in "
                          "the accepted configuration - the first turn raises AttributeError on it")
    ctx.floor("C14.CONTRACT", "sections normalised only when supplied", n_sec, 1)
    # (b)
    t1 = ctx.func("clematis.engine.stages.t1:_compute_decay")
    divs = [x for x in walk_no_defs(t1.node) if isinstance(x, ast.BinOp) and isinstance(x.op, ast.Div)]
    ctx.floor("C14.CONTRACT", "divisions in the T1 decay", len(divs), 1)
    ctx.check("t1.decay.alpha" in paths, "C14.CONTRACT", f"{impl.qual}/range:t1.decay.alpha", impl.loc(), "t1.decay.alpha is range-checked (the decay divides by 1 + alpha * d^2)",
              "t1.decay.alpha is coerced but never range-checked: attn_quad divides by 1 + alpha * d^2, so alpha = -1 is accepted and the first relaxation at distance 1 raises ZeroDivisionError")
    # path knobs: what the engine hands to os.makedirs / open must be creatable at all - a string with an embedded NUL is a
    # non-empty string, and every file-system call on it raises ValueError('embedded null byte') in the first turn
    path_knobs = sorted({const_str(c.args[1]) for n, c in errs if len(c.args) >= 3 and const_str(c.args[1]) and "path" in (const_str(c.args[2]) or "")})
    ctx.floor("C14.CONTRACT", "path-valued knobs of the validator", len(path_knobs), 2)
    for pk in path_knobs:
        nul = any(const_str(c.args[1]) == pk and any(pol and ("\\x00" in t or "\x00" in t or "chr(0)" in t) and " in " in t for t, pol in cfg.facts(n)) for n, c in errs)
        ctx.check(nul, "C14.CONTRACT", f"{impl.qual}/path-without-nul:{pk}", impl.loc(), f"{pk} is rejected when it contains a NUL character",
                  f"{pk} only has to be a non-empty string: a value with an embedded NUL (JSON \"a\\u0000b\") is accepted, no file system can create it, and the first turn raises "
                  "ValueError('embedded null byte') out of os.makedirs / open")
    # ... and raises to a power: float ** int raises OverflowError where inf would be expected (rate = 1e200 at distance 2)
    pows = [x for x in walk_no_defs(t1.node) if isinstance(x, ast.BinOp) and isinstance(x.op, ast.Pow) and not isinstance(x.left, ast.Constant)]
    for x in pows:
        # the config key the base is read from
        keys = {const_str(c.args[0]) for nm in [y.id for y in ast.walk(x.left) if isinstance(y, ast.Name)]
                for a in walk_no_defs(t1.node) if isinstance(a, ast.Assign) and any(isinstance(t, ast.Name) and t.id == nm for t in a.targets)
                for c in ast.walk(a.value) if isinstance(c, ast.Call) and call_tail(c) == "get" and c.args and const_str(c.args[0])}
        for k in sorted(keys):
            pth = f"t1.decay.{k}"
            upper = any(const_str(c.args[1]) == pth and any(("<=" in t or "<" in t) and not pol for t, pol in cfg.facts(n)) for n, c in errs)
            if not upper:
                # other spellings of the same test (`x < 0 or not (x <= 1)`): the guarding condition, folded with a huge value in
                # place of the knob, is true - i.e. a huge value is rejected
                for n, c in errs:
                    if const_str(c.args[1]) != pth:
                        continue
                    for st, part in enclosing(ctx.prog, impl, c):
                        if isinstance(st, ast.If) and part == "body":
                            class _Sub(ast.NodeTransformer):
                                def visit_Subscript(self, node):
                                    return ast.copy_location(ast.Constant(value=1e308), node) if const_str(node.slice) == k else self.generic_visit(node)
                            try:
                                expr = ast.Expression(_Sub().visit(ast.parse(src(st.test), mode="eval").body))
                                ast.fix_missing_locations(expr)
                                if eval(compile(expr, "<fold>", "eval"), {"__builtins__": {}, "float": float, "abs": abs}) is True:
                                    upper = True
                            except Exception:
                                pass
                            break
            ctx.check(upper, "C14.CONTRACT", f"{impl.qual}/range:{pth}-bounded-above", impl.loc(), f"{pth} is bounded above (the decay evaluates {k} ** distance)",
                      f"{pth} is coerced to float but has no upper bound: the decay evaluates `{src(x)}`, and float ** int raises OverflowError (it does not return inf) - `{k}: 1e200` is accepted and a "
                      "walk that reaches distance 2 raises out of the turn")
    # the whole t1.decay mapping goes into the T1 cache key as canonical JSON (stable_key(decay_cfg)): json.dumps(sort_keys=True)
    # raises TypeError on mixed key types and on values JSON has no form for (a YAML date) - so the section has a closed key set
    t1p = ctx.func("clematis.engine.stages.t1:t1_propagate._t1_one_graph")
    whole = [x for x in walk_no_defs(t1p.node) if isinstance(x, ast.Call) and call_tail(x) == "stable_key" and x.args and isinstance(x.args[0], ast.Name)]
    hashed = set()
    for x in whole:
        for a in walk_no_defs(t1p.node):
            if isinstance(a, ast.Assign) and any(isinstance(t, ast.Name) and t.id == x.args[0].id for t in a.targets):
                for c in ast.walk(a.value):
                    if isinstance(c, ast.Call) and call_tail(c) == "get" and c.args and const_str(c.args[0]) and isinstance(c.func.value, ast.Name) and c.func.value.id.startswith("cfg_t1"):
                        hashed.add(const_str(c.args[0]))
    ctx.floor("C14.CONTRACT", "t1 sub-mappings hashed whole into the T1 cache key", len(hashed), 1)
    for k in sorted(hashed):
        pth = f"t1.{k}"
        closed = any((const_str(c.args[1]) or "").startswith(pth + ".") and "unknown" in (const_str(c.args[2]) or src(c.args[2]))
                     or (isinstance(c.args[1], ast.JoinedStr) and src(c.args[1]).startswith(f"f'{pth}.") and "unknown" in src(c.args[2])) for n, c in errs if len(c.args) >= 3)
        per_value = any(isinstance(x, ast.For) and pth.split(".")[-1] in src(x.iter) and any(isinstance(c, ast.Call) and call_tail(c) in COERCERS for st in x.body for c in ast.walk(st)) for x in walk_no_defs(impl.node))
        ctx.check(closed or per_value, "C14.CONTRACT", f"{impl.qual}/closed-section:{pth}", impl.loc(), f"{pth} has a closed key set (or every entry is coerced) before the engine hashes it whole",
                  f"the engine puts the whole `{pth}` mapping through canonical JSON for the T1 cache key, and the validator passes its unknown entries through verbatim: an accepted configuration with a "
                  f"non-string extra key (`1: x`) or a YAML date value under {pth} makes the first turn whose text matches a label raise TypeError")
    fin = False
    for n, c in errs:
        if const_str(c.args[1]) == "graph.update.alpha":
            for t, pol in cfg.facts(n):
                if "inf" in t or "isfinite" in t:
                    fin = True
    ctx.check(fin, "C14.CONTRACT", f"{impl.qual}/range:graph.update.alpha-finite", impl.loc(), "graph.update.alpha is bounded above (finite)",
              "graph.update.alpha is only checked to be > 0: inf is accepted, and the proportional update alpha * (1 - |w|) is inf * 0 = NaN once an edge reaches |w| = 1 - the weight stays NaN, "
              "outside every clamp bound")
    # the recency window
    fr = ctx.func("clematis.memory.index:InMemoryIndex._filter_recent")
    tds = [x for x in walk_no_defs(fr.node) if isinstance(x, ast.Call) and call_tail(x) == "timedelta"]
    ctx.floor("C14.CONTRACT", "timedelta constructions in the recency window", len(tds), 1)
    for x in tds:
        guarded = any(isinstance(st, ast.Try) and part == "body" and any(h.type is None or "OverflowError" in src(h.type) or "Exception" in src(h.type) for h in st.handlers) for st, part in enclosing(ctx.prog, fr, x))
        bounded = "t2.exact_recent_days" in paths and any(const_str(c.args[1]) == "t2.exact_recent_days" and any(("<=" in t or ">" in t) and pol for t, pol in cfg.facts(n)) for n, c in errs)
        ctx.check(guarded, "C14.CONTRACT", ctx.okey(f"{fr.qual}/window-length-cannot-overflow"), fr.loc(x), "an over-long window is handled (OverflowError caught)",
                  "`now - timedelta(days=exact_recent_days)` is unguarded and the validator only requires exact_recent_days >= 0: 1000000 is accepted and the exact tier raises OverflowError as soon as "
                  "the index holds an episode")
    # (c)
    RANGED = {"alpha_semantic": "t2.quality.fusion.alpha_semantic", "k1": "t2.quality.lexical.bm25.k1", "b": "t2.quality.lexical.bm25.b"}
    n_q = 0
    for n in cfg.nodes:
        a = n.ast
        if n.kind == "stmt" and isinstance(a, ast.Assign) and isinstance(a.value, ast.Call) and call_tail(a.value) in ("_coerce_float",) and a.value.args \
                and isinstance(a.value.args[0], ast.Call) and call_tail(a.value.args[0]) == "get" and isinstance(a.value.args[0].func.value, ast.Name) and a.value.args[0].func.value.id.startswith("raw_q"):
            k = const_str(a.value.args[0].args[0]) if a.value.args[0].args else None
            if k not in RANGED:
                continue
            n_q += 1
            after = cfg.reach([n], include_start=False)
            tested = any(const_str(c.args[1]) == RANGED[k] and m in after for m, c in errs)
            ctx.check(tested, "C14.RANGE", ctx.okey(f"{impl.qual}/user-value-range-checked:{RANGED[k]}"), impl.loc(a), f"the user's {RANGED[k]} is tested against its documented range where it is copied",
                      f"`{src(a)[:70]}` copies the user's value with a bare coercion; the range check of {RANGED[k]} runs earlier against a dict that only holds the defaults - an out-of-range value "
                      "is accepted and appears in the normalised configuration")
    ctx.floor("C14.RANGE", "user quality values with a documented range", n_q, 3)
    # (d)
    dm = ctx.func(V + ":_deep_merge")
    st = [x for x in walk_no_defs(dm.node) if isinstance(x, ast.Assign) and any(isinstance(t, ast.Subscript) for t in x.targets)]
    ctx.floor("C14.PURE", "stores of the defaults merge", len(st), 2)
    for x in st:
        v = x.value
        fresh = isinstance(v, ast.Call) and (call_tail(v) in ("deepcopy", "_deep_merge") or dotted(v.func) in ("copy.deepcopy",))
        ctx.check(fresh, "C14.PURE", ctx.okey(f"{dm.qual}/defaults-are-copied"), dm.loc(x), f"`{src(v)[:40]}` is a fresh object",
                  f"`{src(x)[:50]}` inserts the default value itself: the returned configuration shares lists / dicts with the module-level DEFAULTS, and a caller editing its own normalised config "
                  "changes the verdict of every later validate_config call")
    # (e)
    sc = ctx.prog.module("clematis.scripts.validate")
    for f in [f for f in sc.funcs.values() if f.name == "main"]:
        dumps = [x for x in walk_no_defs(f.node) if isinstance(x, ast.Call) and dotted(x.func) == "json.dumps" and any(isinstance(y, ast.Name) and "normal" in y.id for y in ast.walk(x))]
        ctx.floor("C14.API", "JSON report of the CLI", len(dumps), 1)
        for x in dumps:
            ctx.check(kwarg(x, "default") is not None, "C14.API", f"{f.qual}/json-report-carries-accepted-values", f.loc(x), "the JSON report has a fallback encoder for non-JSON scalars",
                      "`validate --json` serialises the accepted configuration without a fallback encoder: a YAML date in a pass-through position (accepted by the API and the plain CLI) dies with "
                      "an uncaught TypeError and exit 1 - another exception, and the verdict differs from the other variants")
            # ... and for what `default=` never sees: mapping KEYS JSON has no form for (a YAML date as a key) and self-containing
            # mappings (YAML anchors) - the accepted tree goes through a converter before it is dumped, not in as it is
            raw_in = [v for d in ast.walk(x) if isinstance(d, ast.Dict) for k, v in zip(d.keys, d.values) if isinstance(v, ast.Name) and "normal" in v.id] + \
                     [a for a in x.args if isinstance(a, ast.Name) and "normal" in a.id]
            ctx.check(not raw_in or kwarg(x, "skipkeys") is not None, "C14.API", f"{f.qual}/json-report-carries-accepted-keys", f.loc(x), "the accepted tree is converted (keys, cycles) before json.dumps",
                      "`validate --json` dumps the accepted configuration as it is: `default=` is consulted for values only - a mapping key that is a YAML date raises TypeError, a self-containing mapping "
                      "ValueError; exit 1 with a traceback where the API variants and the plain CLI accept")
        # the verdict reaches the operator: messages quote user keys, and a key with a lone surrogate (legal in JSON text) cannot be
        # encoded to a UTF-8 stdout - a bare print() of a message dies with UnicodeEncodeError instead of 'CONFIG INVALID ...'
        exc_names = {h.name for h in walk_no_defs(f.node) if isinstance(h, ast.ExceptHandler) and h.name and h.type is not None and "ConfigError" in src(h.type)}
        warn_loop_vars = {lp.target.id for lp in walk_no_defs(f.node) if isinstance(lp, ast.For) and isinstance(lp.target, ast.Name) and "warn" in src(lp.iter)}
        n_msg = 0
        for x in walk_no_defs(f.node):
            if isinstance(x, ast.Call) and isinstance(x.func, ast.Name) and x.args and any(isinstance(y, ast.Name) and y.id in (exc_names | warn_loop_vars) for a in x.args for y in ast.walk(a)) \
                    and not any(k.arg == "file" for k in x.keywords):
                n_msg += 1
                ctx.check(x.func.id != "print", "C14.API", ctx.okey(f"{f.qual}/verdict-printed-totally"), f.loc(x), f"`{src(x)[:50]}` goes through a printer that escapes what the stream cannot encode",
                          f"`{src(x)[:50]}` print()s a message that quotes user-supplied keys: a key with a lone surrogate (`{{\"\\ud800\": 1}}`, valid JSON text) raises UnicodeEncodeError on a UTF-8 stdout - "
                          "the operator gets a traceback instead of the typed verdict the API variants give")
        ctx.floor("C14.API", "message-bearing output statements of the CLI", n_msg, 2)
    # scripts/validate_config.py is a full copy of the packaged CLI outside the package: same two obligations (ad-hoc parse)
    import os
    rel = "scripts/validate_config.py"
    try:
        tree = ast.parse(open(os.path.join(ctx.prog.repo, rel), encoding="utf-8").read())
    except OSError:
        raise AnalysisError(f"anchor-vanished: {rel}")
    mains = [x for x in ast.walk(tree) if isinstance(x, ast.FunctionDef) and x.name == "main"]
    delegates = any(isinstance(x, ast.ImportFrom) and (x.module or "").endswith("scripts.validate") for x in ast.walk(tree))
    if mains and not delegates:
        for mfn in mains:
            exc = {h.name for h in ast.walk(mfn) if isinstance(h, ast.ExceptHandler) and h.name and h.type is not None and "ConfigError" in src(h.type)}
            wl = {lp.target.id for lp in ast.walk(mfn) if isinstance(lp, ast.For) and isinstance(lp.target, ast.Name) and "warn" in src(lp.iter)}
            bare = [x for x in ast.walk(mfn) if isinstance(x, ast.Call) and isinstance(x.func, ast.Name) and x.func.id == "print" and not any(k.arg == "file" for k in x.keywords)
                    and any(isinstance(y, ast.Name) and y.id in (exc | wl) for a in x.args for y in ast.walk(a))]
            dumps = [x for x in ast.walk(mfn) if isinstance(x, ast.Call) and dotted(x.func) == "json.dumps" and any(isinstance(y, ast.Name) and "normal" in y.id for y in ast.walk(x))]
            raw_in = [v for x in dumps for d in ast.walk(x) if isinstance(d, ast.Dict) for k, v in zip(d.keys, d.values) if isinstance(v, ast.Name) and "normal" in v.id]
            ctx.check(not bare and not raw_in and all(kwarg(x, "default") is not None for x in dumps), "C14.API", f"{rel}/cli-copy-output-total", f"{rel}:{(bare or raw_in or [mfn])[0].lineno}",
                      "the repository-level copy of the CLI prints its verdict / JSON report totally, like the packaged one",
                      f"{rel} (a full copy of the packaged CLI) still " + ("print()s messages that quote user keys" if bare else "dumps the accepted tree as it is") +
                      ": `python scripts/validate_config.py` dies with a traceback (lone surrogate in a key / YAML date key) where the API variants give the typed verdict")


def _validator_minimum(ctx, leaf: str) -> Tuple[Optional[int], int]:
    """smallest value of `<...>.<leaf>` the validator accepts, read from its `if x[leaf] < N: _err(...)` tests: (min over sites, #sites)"""
    impl = ctx.func(IMPL)
    mins = []
    for x in walk_no_defs(impl.node):
        if not isinstance(x, ast.If):
            continue
        errs = any(isinstance(c, ast.Call) and call_tail(c) == "_err" for st in x.body for c in ast.walk(st))
        if not errs:
            continue
        for c in ast.walk(x.test):
            if isinstance(c, ast.Compare) and len(c.ops) == 1 and isinstance(c.comparators[0], ast.Constant) and isinstance(c.comparators[0].value, int):
                l = c.left
                named = (isinstance(l, ast.Subscript) and const_str(l.slice) == leaf)
                if not named and isinstance(l, ast.Name):
                    # me = _coerce_int(raw.get("max_entries")); if me < 0
                    named = any(isinstance(a, ast.Assign) and any(isinstance(t, ast.Name) and t.id == l.id for t in a.targets) and any(const_str(z) == leaf for z in ast.walk(a.value))
                                for a in walk_no_defs(impl.node) if isinstance(a, ast.Assign))
                if not named:
                    continue
                n = c.comparators[0].value
                if isinstance(c.ops[0], ast.Lt):
                    mins.append(n)
                elif isinstance(c.ops[0], ast.LtE):
                    mins.append(n + 1)
    return (min(mins) if mins else None), len(mins)


def rule_capacity_floor(ctx) -> None:
    """the validator accepts cache capacities down to a minimum (0 = 'keep nothing'); the containers that receive them must run
    with that minimum.  An eviction loop that pops while `len(c) >= cap` assumes cap >= 1: with the accepted capacity 0 it pops
    from the empty container and the KeyError / IndexError leaves the turn."""
    from .. import hazards
    from .c15 import eviction_loops
    vmin, n_sites = _validator_minimum(ctx, "max_entries")
    ctx.floor("C14.CONTRACT", "validator lower-bound tests of cache max_entries", n_sites, 3)
    loops = eviction_loops(ctx)
    ctx.floor("C14.CONTRACT", "eviction loops of the containers sized by the configuration", len(loops), 5)
    for cq, fn, lp, caps, cont in loops:
        ctx.analysed_funcs.add(fn.qual)
        lb = hazards.init_lower_bounds(ctx, cq)
        nn = {k for k, v in lb.items() if v >= 0}
        ps = {k for k, v in lb.items() if v >= 1}
        if vmin is not None and vmin >= 0:
            nn |= {f"self.{c}" for c in caps}
        if vmin is not None and vmin >= 1:
            ps |= {f"self.{c}" for c in caps}
        for call, popped in hazards.pops_in_loop(lp):
            # containers whose length the loop condition constrains; the order queue holds at least the keys of the map
            lens = sorted({src(x.args[0]) for x in ast.walk(lp.test) if isinstance(x, ast.Call) and dotted(x.func) == "len" and x.args and src(x.args[0]).startswith("self.")})
            cands = [popped] + [c for c in lens if c != popped]
            alts = lp.test.values if isinstance(lp.test, ast.BoolOp) and isinstance(lp.test.op, ast.Or) else [lp.test]

            def budget_alt(a: ast.AST) -> bool:
                """`cap and total > cap` on a running byte total: total > cap >= 1 means something is stored, given the byte
                accounting (total = sum of stored costs, C15.ACCT)"""
                vs = a.values if isinstance(a, ast.BoolOp) and isinstance(a.op, ast.And) else [a]
                truthy = {src(v) for v in vs if src(v) in nn}
                return any(isinstance(v, ast.Compare) and len(v.ops) == 1 and isinstance(v.ops[0], ast.Gt) and src(v.comparators[0]) in truthy | ps
                           and not (isinstance(v.left, ast.Call) and dotted(v.left.func) == "len") for v in vs)

            per_alt = [next((c for c in cands if hazards.nonempty_implied(a, c, nn, ps)), "<bytes>" if budget_alt(a) else None) for a in alts]
            ok = None if any(x is None for x in per_alt) else (popped if all(x == popped for x in per_alt) else next(x for x in per_alt if x != popped))
            key = ctx.okey(f"{fn.qual}/pop-implies-nonempty")
            if ok == popped:
                ctx.holds("C14.CONTRACT", key, fn.loc(call), f"`{src(lp.test)[:50]}` implies {popped} is non-empty for every accepted capacity (>= {vmin})")
            elif ok == "<bytes>" or (ok is not None and "<bytes>" in per_alt):
                ctx.holds("C14.CONTRACT", key, fn.loc(call), f"every alternative of `{src(lp.test)[:50]}` implies a stored entry for every accepted capacity (>= {vmin}): an entry count above a "
                          f"non-negative cap, or a byte total above a positive cap (byte accounting: C15.ACCT); {popped} lists at least the stored keys")
            elif ok is not None:
                ctx.holds("C14.CONTRACT", key, fn.loc(call), f"`{src(lp.test)[:50]}` implies {ok} is non-empty for every accepted capacity (>= {vmin}); {popped} lists at least its keys (pairing checked by C15.ACCT / C15.EVICT)")
            else:
                ctx.violation("C14.CONTRACT", key, fn.loc(call),
                              f"`{src(call)}` runs while `{src(lp.test)[:50]}`, which does not imply that {popped} is non-empty when the capacity is {vmin} - a value the validator accepts "
                              f"(max_entries must be >= {vmin}): the first insert pops from the empty container and the exception leaves the turn")


def rule_contract_top(ctx) -> None:
    """top-level scalar keys: every allowed top-level key that the engine hands to int() / float() is stored coerced by the
    validator (`merged[k] = _coerce_int(...)`), like the nested numbers - otherwise an accepted config ('abc', None, a list)
    raises on the first turn"""
    vm = ctx.prog.module(V)
    allowed: Set[str] = set()
    for st in vm.tree.body:
        if isinstance(st, ast.Assign) and any(isinstance(t, ast.Name) and t.id == "ALLOWED_TOP" for t in st.targets) and isinstance(st.value, (ast.Set, ast.List, ast.Tuple)):
            allowed = {const_str(e) for e in st.value.elts if const_str(e)}
    if not allowed:
        raise AnalysisError("anchor-vanished: ALLOWED_TOP in configs/validate.py")
    impl = ctx.func(IMPL)
    coerced: Set[str] = set()
    for x in walk_no_defs(impl.node):
        if isinstance(x, ast.Assign) and isinstance(x.value, ast.Call) and call_tail(x.value) in ("_coerce_int", "_coerce_float", "_coerce_bool"):
            for t in x.targets:
                if isinstance(t, ast.Subscript) and isinstance(t.value, ast.Name) and const_str(t.slice) in allowed:
                    coerced.add(const_str(t.slice))
    reads: Dict[str, Tuple[Func, ast.AST]] = {}
    for mn in sorted(ctx.prog.modules):
        if not mn.startswith("clematis.engine"):
            continue
        for fn in ctx.prog.module(mn).funcs.values():
            for x in walk_no_defs(fn.node):
                if isinstance(x, ast.Call) and dotted(x.func) in ("int", "float") and x.args:
                    a = x.args[0]
                    k = None
                    if isinstance(a, ast.Call) and call_tail(a) == "get" and a.args and const_str(a.args[0]) in allowed:
                        k = const_str(a.args[0])
                    elif isinstance(a, ast.Subscript) and const_str(a.slice) in allowed:
                        k = const_str(a.slice)
                    if k:
                        reads.setdefault(k, (fn, x))
    ctx.floor("C14.CONTRACT", "top-level configuration keys converted with int() / float() in the engine", len(reads), 1)
    for k, (fn, x) in sorted(reads.items()):
        ctx.check(k in coerced, "C14.CONTRACT", f"top/{k}", fn.loc(x), f"`{k}` is stored coerced by the validator",
                  f"the engine converts the top-level key `{k}` with `{src(x)[:50]}` but the validator accepts it unchecked: a config with {k}: 'abc' / null / [1] is valid and the first turn raises")


def run(ctx) -> None:
    rule_contract_top(ctx)
    rule_capacity_floor(ctx)
    rule_pure(ctx)
    rule_api(ctx)
    rule_cli_forwarding(ctx)
    rule_det(ctx)
    rule_range(ctx)
    rule_verdict_reads_normalised(ctx)
    rule_sections_and_ranges(ctx)
    rule_total(ctx)
    rule_coercers_total(ctx)
    rule_contract(ctx)
    rule_contract_nested(ctx)
