"""C05 Caches are transparent: a hit equals a fresh computation."""
from __future__ import annotations

import ast
from typing import Dict, List, Optional, Set, Tuple

from ..model import AnalysisError, Func, const_str, dotted, kwarg, src, walk_no_defs
from ..paths import PathEval
from ..util import MUTATING_TAILS as MUTATING_METHODS, call_tail, enclosing, find_calls, no_exc, node_calls

EXPLANATION = (
    "C05 decided statically (the standard sufficient structural condition, each part of which is necessary): (KEY) for each "
    "memoised region - the T2 stage cache, the T1 per-graph cache, the turn-level namespaced cache - every input the cached "
    "value depends on (configuration / context / state access paths by data or control dependence through the region, callees "
    "summarised; for the T1 closure: every free variable read in the region) is contained in the dependency set of the key or "
    "covered by a version component, up to a frozen, reasoned exemption list; the turn-level key must be at least as fine as "
    "the stage key of the computation it wraps; (VER) version components are sound abstractions: every graph mutation "
    "re-derives the etag from graph content, the index version grows on every mutation and is never reset, the state version "
    "is bumped once per apply (C04.ONCE); (ISO) keys of process-global caches carry a content-derived version or an instance "
    "discriminator; (ALIAS) neither a hit nor a stored value is mutated by the reader other than in cache-diagnostic fields. "
    "Not decided: equality of results with caches on/off over all histories (execution equality)."
)
RULES = {
    "C05.KEY": "access-path containment In(value) <= In(key) + versions + exemptions (T2 stage, turn-level), free-variable containment (T1), sibling key agreement",
    "C05.VER": "pairing of graph writes with the etag bump, content-derived etag, monotone index version",
    "C05.ISO": "instance discriminator / content-derived version in keys of module-global caches",
    "C05.ALIAS": "no mutation of cached objects by readers except diagnostic metric fields",
    "C05.ENTRY": "field tables: fields the hit path reads out of a cached entry vs fields every store site puts in (dict literals, comprehensions over constant tuples, helper return tuples)",
}

T1 = "clematis.engine.stages.t1"
T2 = "clematis.engine.stages.t2.core:t2_semantic"
RUN_TURN = "clematis.engine.orchestrator.core:Orchestrator.run_turn"
STORE = "clematis.graph.store:InMemoryGraphStore"
INDEX = "clematis.memory.index:InMemoryIndex"

# atom prefix -> one-line reason (frozen; confirmed by reading)
EXEMPT_T2 = {
    "cfg:t2.reader_batch": "block size of a streaming scan; scores are sorted afterwards",
    "cfg:t2.cache": "cache selection itself",
    "cfg:perf.t2.cache": "cache selection itself",
    "cfg:t2.lancedb": "backend construction parameters of the index object; the index instance is keyed (uid + version)",
    "cfg:t2.backend": "selects the index object, which is keyed by instance and version",
    "cfg:t3.reflection.topk_snippets": "only sizes the snippet stash on ctx.turn_artifacts (not part of the result)",
    "state:mem_backend": "bookkeeping tags written next to the index",
    "state:mem_backend_fallback_reason": "bookkeeping tags written next to the index",
}
VERSIONED = {
    "state:mem_index": "index_version() + instance uid in the key (C05.VER / C05.ISO)",
    "ctx:enc": "the injected encoder object is keyed by its type and dimension",
}


def _covered(atom: str, key_atoms: Set[str]) -> bool:
    if atom in key_atoms or atom + ".*" in key_atoms:
        return True  # `x.*`: the key walks every element of x
    if atom in VERSIONED and any(k.startswith(atom + ".") for k in key_atoms):
        return True  # the key reads the object's version / instance id
    parts = atom.split(".")
    # a key component holding the whole sub-dict covers its leaves; a trailing '*' likewise
    for i in range(1, len(parts)):
        pre = ".".join(parts[:i])
        if pre in key_atoms or pre + ".*" in key_atoms:
            return True
    return False


def _whole_key_atoms(ctx, pe, fn: Func, key_expr: ast.AST, at) -> Set[str]:
    """inputs the key takes in WHOLE: the access paths of the entries of the key themselves (tuple elements, dict-literal
    values, values stored under a subscript of the key's payload), as opposed to the leaves reached by traversing them.
    PathEval.atoms keeps only maximal paths (a section that is merely traversed must not count as covered), which drops a
    section the key holds whole as soon as another key entry reads one of its leaves."""
    from ..paths import fmt
    rd = ctx.rd(fn)
    sl = rd.slice([key_expr], at)
    ents = []

    def expand(e, n):
        if isinstance(e, (ast.Tuple, ast.List, ast.Set)):
            for v in e.elts:
                expand(v, n)
        elif isinstance(e, ast.Dict):
            for v in e.values:
                if v is not None:
                    expand(v, n)
        else:
            ents.append((e, n))

    for ex, n in sl.exprs:
        a = n.ast
        bound_to_name = isinstance(a, (ast.Assign, ast.AnnAssign, ast.AugAssign, ast.NamedExpr)) and getattr(a, "value", None) is ex \
            and all(isinstance(t, ast.Name) for t in (a.targets if isinstance(a, ast.Assign) else [a.target]))
        if ex is key_expr or (bound_to_name and isinstance(ex, (ast.Tuple, ast.List, ast.Set, ast.Dict))) or (not bound_to_name and isinstance(ex, ast.Tuple) and isinstance(a, (ast.Assign, ast.AugAssign))):
            # the key itself, a container literal the key is built from, or (key, value) of a store under a subscript of it
            expand(ex, n)
    out: Set[str] = set()
    for e, n in ents:
        if isinstance(e, ast.Constant):
            continue
        try:
            ps = pe.paths(fn, e, n)
        except Exception:
            continue
        for p_ in ps:
            if p_[0] in ("cfg", "ctx", "state", "env") and p_[1]:
                out.add(fmt(p_))
    return out


def _whole(atom: str) -> str:
    """the input an atom is about, without trailing slice markers"""
    while atom.endswith(".[:]"):
        atom = atom[:-4]
    return atom.replace(".[:].", ".")


def _junk(atom: str) -> bool:
    body = atom.split(":", 1)[1] if ":" in atom else atom
    return all(p == "*" for p in body.split(".")) or body == ""


def rule_key_t2(ctx) -> Set[str]:
    fn = ctx.func(T2)
    cfg = ctx.cfg(fn)
    pe = PathEval(ctx, depth=3)
    puts = [(n, c) for n in cfg.nodes for c in node_calls(n) if call_tail(c) == "put" and src(c.func.value) == "cache"]
    gets = [(n, c) for n in cfg.nodes for c in node_calls(n) if call_tail(c) == "get" and src(c.func.value) == "cache"]
    if not puts or not gets:
        raise AnalysisError("anchor-vanished: T2 stage cache get/put")
    ctx.check(all(src(c.args[0]) == src(gets[0][1].args[0]) for _, c in puts), "C05.KEY", f"{fn.qual}/same-key-get-put", fn.loc(puts[0][1]),
              "lookup and store use the same key expression", "the cache is read and written under different keys")
    n, c = gets[0]
    leaf_atoms = {a for a in pe.atoms(fn, c.args[0], n, control=False) if not _junk(a)}
    key_atoms = leaf_atoms | {a for a in _whole_key_atoms(ctx, pe, fn, c.args[0], n) if not _junk(a)}
    res = [m for m in cfg.nodes if m.kind == "stmt" and isinstance(m.ast, ast.Assign) and isinstance(m.ast.value, ast.Call) and call_tail(m.ast.value) == "T2Result"]
    if not res:
        raise AnalysisError("anchor-vanished: T2Result construction")
    val_atoms: Set[str] = set()
    for kw in res[0].ast.value.keywords:
        if kw.arg in ("retrieved", "graph_deltas_residual", "metrics"):
            # a slice on the VALUE side (the clock parser looks at s[-1:]) still means "depends on that input": only on the
            # key side does `.[:]` say that a part of the input is all the key sees
            val_atoms |= {_whole(a) for a in pe.atoms(fn, kw.value, res[0], control=True) if not _junk(a)}
    ctx.floor("C05.KEY", "input atoms of the cached T2 value", len(val_atoms), 15)
    n_cov = 0
    for a in sorted(val_atoms):
        key = f"T2/{a}"
        if _covered(a, key_atoms):
            n_cov += 1
            continue
        ex = next((why for pre, why in EXEMPT_T2.items() if a == pre or a.startswith(pre + ".")), None)
        if ex:
            ctx.holds("C05.KEY", key, fn.loc(), f"exempt: {ex}", nontrivial=False)
            continue
        if a in VERSIONED:
            ctx.holds("C05.KEY", key, fn.loc(), f"covered by a version component: {VERSIONED[a]}")
            continue
        ctx.violation("C05.KEY", key, fn.loc(c), f"the cached T2 result depends on `{a}` but the stage-cache key does not: after that input changes a hit returns the result computed under the old value")
    ctx.holds("C05.KEY", "T2/covered-atoms", fn.loc(c), f"{n_cov} of {len(val_atoms)} input atoms of the cached value are in the key's dependency set ({len(key_atoms)} key atoms)")
    return leaf_atoms


def rule_key_turn(ctx, t2_key_atoms: Set[str]) -> None:
    fn = ctx.func(RUN_TURN)
    cfg = ctx.cfg(fn)
    pe = PathEval(ctx, depth=2)
    gets = [(n, c) for n in cfg.nodes for c in node_calls(n) if call_tail(c) == "get" and src(c.func.value) == "cm" and len(c.args) == 2]
    sets = [(n, c) for n in cfg.nodes for c in node_calls(n) if call_tail(c) == "set" and src(c.func.value) == "cm" and len(c.args) == 3]
    if not gets or not sets:
        raise AnalysisError("anchor-vanished: turn-level cache get/set in run_turn")
    n, c = gets[0]
    ctx.check(src(c.args[1]) == src(sets[0][1].args[1]) and src(c.args[0]) == src(sets[0][1].args[0]), "C05.KEY", f"{fn.qual}/same-key-get-set", fn.loc(c),
              "lookup and store use the same (namespace, key)", "the turn-level cache is read and written under different keys")
    key_atoms = {a for a in pe.atoms(fn, c.args[1], n, control=False) if not _junk(a)}
    key_atoms |= {a for a in _whole_key_atoms(ctx, pe, fn, c.args[1], n) if not _junk(a)}
    # sibling agreement: the wrapped computation's own key must be dominated by this key
    need = set()
    for a in t2_key_atoms:
        if a.startswith(("state:mem_backend", "cfg:t2.lancedb", "cfg:t2.backend", "cfg:t2.embed_root")) or a == "state:active_graphs" or a == "state:store":
            continue  # backend tags are bookkeeping; the graph store is checked by version (rule_store_versioned)
        need.add(a)
    # the stage key reads these through ctx/cfg helpers; spell out the must-haves the statement names
    need |= {"ctx:agent_id", "ctx:now", "state:version_etag", "state:mem_index"}
    missing = sorted(a for a in need if not _covered(a, key_atoms))
    for a in missing:
        ctx.violation("C05.KEY", f"TURN/{a}", fn.loc(c), f"the turn-level cache wraps the T2 computation but its key does not depend on `{a}` (the stage cache's key does / the "
                      "statement names it): a hit returns a result computed for another agent / clock / memory / configuration")
    ctx.holds("C05.KEY", "TURN/covers-stage-key", fn.loc(c), f"{len(need) - len(missing)} of {len(need)} required atoms are in the dependency set of the turn-level key")
    # the T1 result feeds the query text: the key must depend on it
    sl = ctx.rd(fn).slice([c.args[1]], n)
    ctx.check("t1" in sl.names(), "C05.KEY", "TURN/t1-result", fn.loc(c), "the key depends on T1's result (changed labels are part of the query text)",
              "the turn-level key ignores T1's result although the query text includes the labels T1 changed")
    ctx.check("input_text" in sl.names() or "input_text" in sl.params, "C05.KEY", "TURN/input-text", fn.loc(c), "the key depends on the input text", "the key ignores the input text")


def _reaches_call(ctx, fn: Func, calls, tails: Set[str], depth: int = 2, seen=None) -> Optional[str]:
    """one of `calls` is (or, through resolved callees up to `depth`, contains) a call whose tail is in `tails`"""
    seen = seen if seen is not None else set()
    for c in calls:
        if call_tail(c) in tails:
            return src(c)[:50]
        if depth <= 0:
            continue
        r = ctx.prog.callee(fn, c)
        if r and r[0] == "func" and r[1] in ctx.prog.funcs and r[1] not in seen:
            seen.add(r[1])
            g = ctx.prog.funcs[r[1]]
            hit = _reaches_call(ctx, g, [x for x in walk_no_defs(g.node) if isinstance(x, ast.Call)], tails, depth - 1, seen)
            if hit:
                return f"{g.name}: {hit}"
    return None


def rule_store_versioned(ctx) -> None:
    """T2 reads the *content* of the graph store (labels of the nodes T1 touched for the query text, all labels for the
    residual nudges).  The store is edited outside apply as well (upsert_nodes / upsert_edges do not move the state version),
    so a key that wraps a T2 computation must carry the store's own version - `version_etag(gid)` of the active graphs - and
    not merely something derived from the store by another route (T1's changed ids, the labels inside the query text): an
    access-path match `state:store in key` is not enough, which is how this was missed at first."""
    t2 = ctx.func(T2)
    readers = _reaches_call(ctx, t2, [x for x in walk_no_defs(t2.node) if isinstance(x, ast.Call)], {"get_graph"}, depth=2)
    if not readers:
        raise AnalysisError("anchor-vanished: t2_semantic no longer reads graph-store content (get_graph) - revisit C05.KEY store-versioned")
    sites = []
    cfg2 = ctx.cfg(t2)
    for n in cfg2.nodes:
        for c in node_calls(n):
            if call_tail(c) == "get" and src(c.func.value) == "cache" and c.args:
                sites.append((t2, n, c.args[0], "T2"))
    rt = ctx.func(RUN_TURN)
    cfgr = ctx.cfg(rt)
    for n in cfgr.nodes:
        for c in node_calls(n):
            if call_tail(c) == "get" and src(c.func.value) == "cm" and len(c.args) == 2:
                sites.append((rt, n, c.args[1], "TURN"))
    ctx.floor("C05.KEY", "keys wrapping a T2 computation", len(sites), 2)
    for fn, n, kexpr, tag in sites:
        sl = ctx.rd(fn).slice([kexpr], n)
        hit = _reaches_call(ctx, fn, sl.calls(), {"version_etag"}, depth=2)
        ctx.check(hit is not None, "C05.KEY", f"{tag}/graph-store-by-version", fn.loc(kexpr),
                  f"the key carries the graph store's version ({hit}); T2 reads store content via {readers}",
                  f"T2 reads graph-store content ({readers}) but this key never reads the store's version (version_etag of the active graphs): after a node is relabelled outside apply, "
                  "a hit returns the query text / residual nudges computed from the old labels")


QUALITY_TRACE_ONLY = {
    "shadow": "selects the shadow trace; the returned items are untouched (C02 / C20 check the trace sites)",
    "trace_dir": "where the shadow trace is written",
    "redact": "redaction of the shadow trace",
}


def rule_quality_digest(ctx) -> None:
    """the stage key represents t2.quality by a digest over a fixed list of sub-trees; every first-level key of t2.quality that
    the ranking code (fusion, BM25, MMR, apply_quality) reads must be on that list, or a config change between turns is served
    the ranking computed under the old setting.  Writer/reader table agreement: the digest's list vs the readers' keys."""
    dg = ctx.func("clematis.engine.stages.t2.helpers:quality_digest")
    digest: Set[str] = set()
    whole = False
    for x in walk_no_defs(dg.node):
        if isinstance(x, (ast.List, ast.Tuple)) and x.elts and all(const_str(e) is not None for e in x.elts):
            digest |= {const_str(e) for e in x.elts}
        if isinstance(x, ast.Call) and call_tail(x) == "dumps" and x.args and isinstance(x.args[0], ast.Name) and x.args[0].id in dg.params:
            whole = True  # the whole sub-config is hashed
    if not digest and not whole:
        raise AnalysisError("anchor-vanished: key list of quality_digest")
    reads: Dict[str, str] = {}
    for mn in ("clematis.engine.stages.t2.quality_ops", "clematis.engine.stages.t2.quality", "clematis.engine.stages.t2.quality_mmr"):
        if mn not in ctx.prog.modules:
            continue
        m = ctx.prog.module(mn)
        qparams: Dict[str, Set[str]] = {}
        for _ in range(2):
            for fn in m.funcs.values():
                names = set(qparams.get(fn.qual, set()))
                for x in walk_no_defs(fn.node):
                    if isinstance(x, ast.Assign) and len(x.targets) == 1 and isinstance(x.targets[0], ast.Name):
                        v = x.value
                        is_q = any(isinstance(c, ast.Call) and call_tail(c) == "get" and c.args and const_str(c.args[0]) == "quality" for c in ast.walk(v)) or \
                            any(isinstance(c, ast.Call) and call_tail(c) in ("cfg_get", "_cfg_get") and len(c.args) >= 2 and isinstance(c.args[1], ast.List)
                                and [const_str(e) for e in c.args[1].elts] == ["t2", "quality"] for c in ast.walk(v))
                        if is_q:
                            names.add(x.targets[0].id)
                for x in walk_no_defs(fn.node):
                    if isinstance(x, ast.Call):
                        # reads
                        if isinstance(x.func, ast.Attribute) and x.func.attr == "get" and isinstance(x.func.value, ast.Name) and x.func.value.id in names and x.args and const_str(x.args[0]):
                            reads.setdefault(const_str(x.args[0]), fn.loc(x))
                        if call_tail(x) in ("cfg_get", "_cfg_get") and len(x.args) >= 2 and isinstance(x.args[1], ast.List):
                            parts = [const_str(e) for e in x.args[1].elts]
                            if len(parts) >= 3 and parts[:2] == ["t2", "quality"] and parts[2]:
                                reads.setdefault(parts[2], fn.loc(x))
                        # the sub-config handed on to another function of the module
                        r = ctx.prog.callee(fn, x)
                        if r and r[0] == "func" and r[1] in ctx.prog.funcs:
                            g = ctx.prog.funcs[r[1]]
                            ps = [p for p in g.params if p not in ("self", "cls")]
                            for i, a in enumerate(x.args):
                                if isinstance(a, ast.Name) and a.id in names and i < len(ps):
                                    qparams.setdefault(g.qual, set()).add(ps[i])
                            for kw in x.keywords:
                                if isinstance(kw.value, ast.Name) and kw.value.id in names and kw.arg in ps:
                                    qparams.setdefault(g.qual, set()).add(kw.arg)
                    if isinstance(x, ast.Subscript) and isinstance(x.value, ast.Name) and x.value.id in names and const_str(x.slice):
                        reads.setdefault(const_str(x.slice), fn.loc(x))
    ctx.floor("C05.KEY", "first-level keys of t2.quality read by the ranking code", len(reads), 5)
    for k in sorted(reads):
        key = f"T2/quality-digest:{k}"
        if whole or k in digest:
            ctx.holds("C05.KEY", key, reads[k], f"t2.quality.{k} is part of the digest in the stage key")
        elif k in QUALITY_TRACE_ONLY:
            ctx.holds("C05.KEY", key, reads[k], f"exempt: {QUALITY_TRACE_ONLY[k]}", nontrivial=False)
        else:
            ctx.violation("C05.KEY", key, reads[k], f"the ranking code reads t2.quality.{k} but quality_digest - which stands for the quality configuration in the T2 stage key - hashes only "
                          f"{sorted(digest)}: after t2.quality.{k} changes between turns a hit returns the ranking computed under the old setting")


def lossy_key_parts(ctx, fn: Func, key_expr: ast.AST, at, outer: Optional[Func] = None) -> List[Tuple[Func, ast.AST, str]]:
    """parts of a cache key that fold a variable-length collection of strings into one string with `sep.join(...)` and are made
    for the key only (the joined text is read nowhere else): the elements may contain the separator, so different inputs -
    {"cat", "dog"} and {"cat|dog"} - give one key and the second caller is served the first caller's result.  A join whose
    result is also what the computation consumes (the query text) is the input itself and is not a key encoding.  Elements
    passed through an escaping / fixed-width call are accepted.  Returns (function, join call, bound name or '')."""
    out: List[Tuple[Func, ast.AST, str]] = []

    def scan(f: Func, exprs_at, key_stmt_nodes):
        cfg = ctx.cfg(f)
        for e, nd, bound in exprs_at:
            for x in walk_no_defs(e):
                if not (isinstance(x, ast.Call) and isinstance(x.func, ast.Attribute) and x.func.attr == "join" and isinstance(x.func.value, ast.Constant) and isinstance(x.func.value.value, str) and len(x.args) == 1):
                    continue
                arg = x.args[0]
                if isinstance(arg, (ast.List, ast.Tuple)) and len(arg.elts) <= 1:
                    continue
                elt = arg.elt if isinstance(arg, (ast.GeneratorExp, ast.ListComp)) else None
                if elt is not None and isinstance(elt, ast.Call) and call_tail(elt) not in ("str", "repr", "format") :
                    continue  # each element goes through an encoder of its own (escape, digest)
                if bound:
                    # is the joined value consumed by anything but the key?
                    used_elsewhere = False
                    for m in cfg.nodes:
                        if m in key_stmt_nodes or m is nd:
                            continue
                        for ee in node_exprs(m):
                            if any(isinstance(y, ast.Name) and y.id == bound and isinstance(y.ctx, ast.Load) for y in ast.walk(ee)):
                                used_elsewhere = True
                    for inner_f in ctx.prog.funcs.values():
                        if inner_f.qual.startswith(f.qual + ".") and any(isinstance(y, ast.Name) and y.id == bound and isinstance(y.ctx, ast.Load) for y in ast.walk(inner_f.node)):
                            # a closure reads it: count as elsewhere unless that closure is the key's own function
                            if inner_f.qual != fn.qual:
                                used_elsewhere = True
                    if used_elsewhere:
                        continue
                out.append((f, x, bound))

    from ..dataflow import node_exprs
    rd = ctx.rd(fn)
    sl = rd.slice([key_expr], at)
    key_nodes = {d.node for d in sl.defs} | {at}
    items = [(key_expr, at, "")] + [(d.value, d.node, d.name) for d in sl.defs if d.value is not None]
    scan(fn, items, key_nodes)
    if outer is not None:
        ord_ = ctx.rd(outer)
        work = list(sl.free)
        seen: Set[str] = set()
        oitems = []
        okey_nodes = set()
        while work:
            nm = work.pop()
            if nm in seen:
                continue
            seen.add(nm)
            for d in ord_.all_defs:
                if d.name == nm and d.value is not None and d.kind in ("assign", "walrus", "aug", "unpack"):
                    oitems.append((d.value, d.node, d.name))
                    okey_nodes.add(d.node)
                    s2 = ord_.slice([d.value], d.node)
                    for d2 in s2.defs:
                        if d2.value is not None:
                            oitems.append((d2.value, d2.node, d2.name))
                            okey_nodes.add(d2.node)
        # a name of the enclosing function that the key's function reads outside the key is consumed elsewhere
        icfg = ctx.cfg(fn)
        keep = []
        for e, nd, bound in oitems:
            reads_outside_key = any(isinstance(y, ast.Name) and y.id == bound and isinstance(y.ctx, ast.Load)
                                    for m in icfg.nodes if m not in key_nodes for ee in node_exprs(m) for y in ast.walk(ee))
            if not reads_outside_key:
                keep.append((e, nd, bound))
        scan(outer, keep, okey_nodes)
    return out


def rule_key_names_resource(ctx) -> None:
    """a key part derived FROM a resource (layout / dtype / shard count read from an opened embed store) depends on the
    resource's location but does not determine it: two stores of the same shape share those parts.  Wherever the cached
    value is computed from a resource opened by location, the location itself is a key part."""
    fn = ctx.func(T2)
    cfg = ctx.cfg(fn)
    rd = ctx.rd(fn)
    site = next(((n, c) for n in cfg.nodes for c in node_calls(n) if call_tail(c) == "get" and src(c.func.value) == "cache" and len(c.args) >= 1), None)
    if site is None:
        raise AnalysisError("anchor-vanished: T2 stage cache lookup")
    n, c = site
    sl = rd.slice([c.args[0]], n)
    opens = [d for d in rd.all_defs if d.value is not None and isinstance(d.value, ast.Call) and call_tail(d.value) in ("open_reader", "open", "connect", "open_table")
             and d.kind == "assign"]
    opens = [d for d in opens if any(isinstance(a, ast.Name) for a in d.value.args)]
    ctx.floor("C05.KEY", "resources opened by location in t2_semantic", len(opens), 1)
    for d in opens:
        handle = d.name
        derived = {handle}
        for _ in range(3):
            for d2 in rd.all_defs:
                if d2.value is not None and any(isinstance(y, ast.Name) and y.id in derived for y in ast.walk(d2.value)):
                    derived.add(d2.name)
        direct: Set[str] = set()
        for e, nd in sl.exprs:
            if any(isinstance(y, ast.Name) and y.id in derived for y in ast.walk(e)) or any(y is d.value for y in ast.walk(e)):
                continue
            direct |= {y.id for y in ast.walk(e) if isinstance(y, ast.Name)}
        # dict-literal parts of the key payload: values that are plain names count even when siblings are derived
        for e, nd in sl.exprs:
            for x in ast.walk(e):
                if isinstance(x, ast.Dict):
                    direct |= {v.id for v in x.values if isinstance(v, ast.Name) and v.id not in derived}
        feeds = any(isinstance(y, ast.Name) and y.id in derived for e, nd in sl.exprs for y in ast.walk(e))
        for a in [a for a in d.value.args if isinstance(a, ast.Name)]:
            ctx.check(a.id in direct or not feeds, "C05.KEY", f"T2/resource-location-in-key:{call_tail(d.value)}", fn.loc(d.value),
                      f"the location `{a.id}` of the opened resource is itself a key part",
                      f"the key carries properties read from `{src(d.value)[:50]}` (shape / dtype / shard count) but not `{a.id}` itself: a turn configured for another store of the same shape "
                      "is served the retrieval computed from this one")


def rule_key_injective(ctx) -> None:
    sites = []
    inner = ctx.func(T1 + ":t1_propagate._t1_one_graph")
    outer = ctx.func(T1 + ":t1_propagate")

    def first(fn, pred, argi):
        cfg = ctx.cfg(fn)
        for n in cfg.nodes:
            for c in node_calls(n):
                if pred(c):
                    return (fn, n, c.args[argi])
        raise AnalysisError(f"anchor-vanished: cache lookup in {fn.qual}")

    sites.append(("T1",) + first(inner, lambda c: call_tail(c) == "get" and src(c.func.value) == "cache" and len(c.args) == 1, 0) + (outer,))
    sites.append(("T2",) + first(ctx.func(T2), lambda c: call_tail(c) == "get" and src(c.func.value) == "cache" and len(c.args) >= 1, 0) + (None,))
    sites.append(("TURN",) + first(ctx.func(RUN_TURN), lambda c: call_tail(c) == "get" and src(c.func.value) == "cm" and len(c.args) == 2, 1) + (None,))
    for tag, fn, n, e, out_fn in sites:
        bad = lossy_key_parts(ctx, fn, e, n, out_fn)
        if bad:
            f, x, bound = bad[0]
            ctx.violation("C05.KEY", f"{tag}/key-parts-unambiguous", f.loc(x), f"the key part `{src(x)[:60]}`{' (' + bound + ')' if bound else ''} folds a collection of strings into one string made only for the key: an element "
                          "containing the separator makes two different inputs share the key, and the second is served the result cached for the first")
        else:
            ctx.holds("C05.KEY", f"{tag}/key-parts-unambiguous", fn.loc(e), "no key-only part folds a variable-length collection of strings through a separator (collections enter as tuples / canonical JSON)")


def rule_key_t1(ctx) -> None:
    inner = ctx.func(T1 + ":t1_propagate._t1_one_graph")
    outer = ctx.func(T1 + ":t1_propagate")
    cfg = ctx.cfg(inner)
    rd = ctx.rd(inner)
    ord_ = ctx.rd(outer)
    gets = [(n, c) for n in cfg.nodes for c in node_calls(n) if call_tail(c) == "get" and src(c.func.value) == "cache" and len(c.args) == 1]
    puts = [(n, c) for n in cfg.nodes for c in node_calls(n) if call_tail(c) == "put" and src(c.func.value) == "cache"]
    if not gets or not puts:
        raise AnalysisError("anchor-vanished: T1 cache get/put")
    gn, gc = gets[0]
    ctx.check(all(src(c.args[0]) == src(gc.args[0]) for _, c in puts), "C05.KEY", f"{inner.qual}/same-key-get-put", inner.loc(gc), "lookup and store use the same key", "T1 cache read/written under different keys")
    sl = rd.slice([gc.args[0]], gn)
    key_names = sl.names() | sl.free
    work = list(sl.free)
    seen = set()
    while work:
        nm = work.pop()
        if nm in seen:
            continue
        seen.add(nm)
        for d in ord_.all_defs:
            if d.name == nm and d.value is not None and d.kind in ("assign", "walrus", "aug", "unpack"):
                s2 = ord_.slice([d.value], d.node)
                key_names |= s2.names() | s2.free
    # free variables read in the compute region (nodes reachable from the miss, before the put)
    local = rd.local_names
    region = cfg.reach([gn], include_start=False)
    used: Set[str] = set()
    from ..dataflow import node_exprs
    for m in region:
        for e in node_exprs(m):
            for x in walk_no_defs(e):
                if isinstance(x, ast.Name) and isinstance(x.ctx, ast.Load) and x.id not in local and x.id in ord_.local_names | set(outer.params):
                    used.add(x.id)
    exempt = {
        "cache": "the cache object itself", "cache_kind": "selects the put() signature",
        "metrics_enabled": "metrics gate: diagnostics only",
    }
    # the store is covered by its version component only if the key really reads store.version_etag(gid)
    etag_in_key = any(isinstance(x, ast.Call) and call_tail(x) == "version_etag" and src(x.func.value) == "store" for x in sl.calls())
    if etag_in_key:
        exempt["store"] = "graph content is covered by the content-derived etag store.version_etag(gid) in the key"
    ctx.floor("C05.KEY", "free variables read in the T1 compute region", len(used), 8)
    roots = {"cfg_t1", "ctx", "caps", "state", "cfg", "store"}
    for v in sorted(used):
        key = f"T1/{v}"
        if v in exempt:
            ctx.holds("C05.KEY", key, inner.loc(), f"exempt: {exempt[v]}", nontrivial=False)
            continue
        ok = v in key_names and v != "store"
        if not ok and v != "store":
            ds = [d for d in ord_.all_defs if d.name == v and d.kind == "assign" and d.value is not None]
            inputs: Set[str] = set()
            for d in ds:
                inputs |= {y.id for y in ast.walk(d.value) if isinstance(y, ast.Name) and y.id not in ("min", "max", "int", "float", "bool", "None", "_cfg_get")}
            ok = bool(ds) and bool(inputs) and not (inputs & roots) and inputs <= key_names
        if v == "store" and not ok:
            ctx.violation("C05.KEY", key, inner.loc(gc), "the cached propagation depends on the graph in `store` but the key carries no store.version_etag(gid): graph edits keep hitting the old entry")
            continue
        ctx.check(ok, "C05.KEY", key, inner.loc(gc), f"`{v}` is part of (or derived only from parts of) the T1 cache key",
                  f"the cached propagation depends on `{v}` but the T1 cache key does not: changing it returns the result computed under the old value")


def rule_key_keeps_consumed_order(ctx) -> None:
    """a key part may canonicalise the order of an input (sorted / set) only when the computation does not consume that order.
    The T1 propagation pushes its seeds in the order the mapping lists them; with the dedupe ring / the frontier cap that
    order decides which seed is still recent (or kept) when the first edges are relaxed.  A key that names the seeds as a
    SORTED tuple gives two seedings of the same node set one entry although their fresh computations differ."""
    inner = ctx.func(T1 + ":t1_propagate._t1_one_graph")
    cfg = ctx.cfg(inner)
    rd = ctx.rd(inner)
    gets = [(n, c) for n in cfg.nodes for c in node_calls(n) if call_tail(c) == "get" and src(c.func.value) == "cache" and len(c.args) == 1]
    if not gets:
        raise AnalysisError("anchor-vanished: T1 cache get")
    gn, gc = gets[0]
    sl = rd.slice([gc.args[0]], gn)
    # inputs whose order the key drops: X in sorted(X...) / set(X) / frozenset(X) anywhere in the key's slice
    dropped = {}
    for x in sl.nodes():
        if isinstance(x, ast.Call) and dotted(x.func) in ("sorted", "set", "frozenset") and x.args:
            for y in ast.walk(x.args[0]):
                if isinstance(y, ast.Name) and rd.is_local(y.id):
                    dropped.setdefault(y.id, x)
    # loops of the compute region that walk such an input as it is
    region = cfg.reach([gn], include_start=False)
    n_loops = 0
    for h in [m for m in region if m.kind == "iter"]:
        it = h.ast.iter
        base = it.func.value if isinstance(it, ast.Call) and isinstance(it.func, ast.Attribute) and it.func.attr in ("items", "keys", "values") else it
        if not isinstance(base, ast.Name):
            continue
        n_loops += 1
        if base.id not in dropped:
            continue
        # order-insensitive bodies are fine: the body only accumulates commutatively (no push / ring / cap / break)
        body_calls = {call_tail(c) for st in h.ast.body for c in ast.walk(st) if isinstance(c, ast.Call)}
        consumes = bool(body_calls & {"heappush", "append", "add", "appendleft", "insert", "contains"}) or any(isinstance(y, (ast.Break,)) for st in h.ast.body for y in ast.walk(st))
        ctx.check(not consumes, "C05.KEY", f"T1/key-keeps-the-order-of:{base.id}", inner.loc(dropped[base.id]), f"`{base.id}` is walked by an order-insensitive loop only",
                  f"the key names `{base.id}` through `{src(dropped[base.id])[:40]}` (order dropped) while the computation walks `{src(it)}` as listed and pushes / de-duplicates in that order: two inputs that "
                  "seed the same nodes in another order share an entry although, with the dedupe ring or the frontier cap on, a fresh computation differs")
    ctx.floor("C05.KEY", "loops over named inputs in the T1 compute region", n_loops, 1)
    if not dropped:
        ctx.holds("C05.KEY", "T1/key-keeps-consumed-orders", inner.loc(gc), "no key part drops the order of an input")


def _root_key_reads(ctx, fn: Func, exprs, roots: Set[str], depth: int = 1) -> Set[Tuple[str, str]]:
    out: Set[Tuple[str, str]] = set()
    for e in exprs:
        for x in walk_no_defs(e):
            if isinstance(x, ast.Call) and isinstance(x.func, ast.Attribute) and x.func.attr == "get" and isinstance(x.func.value, ast.Name) and x.func.value.id in roots and x.args and const_str(x.args[0]):
                out.add((x.func.value.id, const_str(x.args[0])))
            if isinstance(x, ast.Subscript) and isinstance(x.value, ast.Name) and x.value.id in roots and const_str(x.slice):
                out.add((x.value.id, const_str(x.slice)))
            if isinstance(x, ast.Call) and depth > 0:
                r = ctx.prog.callee(fn, x)
                if r and r[0] == "func":
                    callee = ctx.prog.funcs[r[1]]
                    for i, a in enumerate(x.args):
                        if isinstance(a, ast.Name) and a.id in roots and i < len(callee.params):
                            pn = callee.params[i]
                            sub = _root_key_reads(ctx, callee, [callee.node], {pn}, depth - 1)
                            out |= {(a.id, k) for _, k in sub}
    return out


def rule_key_t1_roots(ctx) -> None:
    """Config roots are compared key by key: every constant key of cfg_t1 read in the compute region must be read by the key."""
    inner = ctx.func(T1 + ":t1_propagate._t1_one_graph")
    outer = ctx.func(T1 + ":t1_propagate")
    cfg = ctx.cfg(inner)
    rd = ctx.rd(inner)
    ord_ = ctx.rd(outer)
    gets = [(n, c) for n in cfg.nodes for c in node_calls(n) if call_tail(c) == "get" and src(c.func.value) == "cache" and len(c.args) == 1]
    gn, gc = gets[0]
    from ..dataflow import node_exprs
    region_exprs = [e for m in cfg.reach([gn], include_start=False) for e in node_exprs(m)]
    roots = {"cfg_t1"}
    region = _root_key_reads(ctx, inner, region_exprs, roots)
    sl = rd.slice([gc.args[0]], gn)
    key_exprs = [e for e, _ in sl.exprs]
    for nm in sorted(sl.free | sl.names()):
        for d in ord_.all_defs:
            if d.name == nm and d.value is not None and d.kind in ("assign", "walrus"):
                key_exprs.append(d.value)
                s2 = ord_.slice([d.value], d.node)
                key_exprs += [e for e, _ in s2.exprs]
    keyr = _root_key_reads(ctx, inner, key_exprs, roots) | _root_key_reads(ctx, outer, key_exprs, roots)
    ctx.floor("C05.KEY", "cfg_t1 keys read in the T1 compute region", len(region), 1)
    for root, k in sorted(region):
        ctx.check((root, k) in keyr, "C05.KEY", f"T1/{root}[{k}]", inner.loc(gc), f"{root}['{k}'] is read by the cache key as well",
                  f"the cached propagation reads {root}['{k}'] but the T1 cache key does not: changing t1.{k} returns the result computed under the old value")


def index_version_gaps(ctx):
    """InMemoryIndex: the attribute `index_version()` returns is the version; the containers __init__ creates are the content.
    Yields ("method", fn, None, None) per method that writes content, ("reset", fn, stmt, None) for a plain assignment of the
    version outside __init__, and ("write", fn, stmt, path-or-None) per content write with the normal path to the return that
    skips the increment (None = every path increments).  Shared with C01.CLOCK (wall-clock TTL expiry is result-neutral only
    while the key tracks content)."""
    meths = ctx.prog.methods(INDEX)
    iv = meths.get("index_version")
    if iv is None:
        raise AnalysisError("InMemoryIndex.index_version not found")
    rets = [x.value for x in walk_no_defs(iv.node) if isinstance(x, ast.Return) and x.value is not None]
    ver = next((src(r) for r in rets if isinstance(r, ast.Attribute) and src(r.value) == "self"), None)
    if ver is None:
        raise AnalysisError("index_version() does not return an attribute of self")
    init = meths.get("__init__")
    content = set()
    for x in walk_no_defs(init.node):
        if isinstance(x, (ast.Assign, ast.AnnAssign)):
            v = x.value
            for t in (x.targets if isinstance(x, ast.Assign) else [x.target]):
                if isinstance(t, ast.Attribute) and src(t.value) == "self" and src(t) != ver and isinstance(v, (ast.List, ast.Dict, ast.Set, ast.ListComp, ast.DictComp)) or (
                        isinstance(t, ast.Attribute) and src(t.value) == "self" and isinstance(v, ast.Call) and call_tail(v) in ("list", "dict", "set", "OrderedDict", "defaultdict", "deque")):
                    content.add(src(t))
    if not content:
        raise AnalysisError("InMemoryIndex.__init__ creates no container")
    for mname, fn in meths.items():
        if mname == "__init__":
            continue
        cfg = ctx.cfg(fn)
        for x in walk_no_defs(fn.node):
            if isinstance(x, (ast.Assign, ast.AnnAssign)) and any(src(t) == ver for t in (x.targets if isinstance(x, ast.Assign) else [x.target])):
                yield ("reset", fn, x, None)
        writes = []
        for n in cfg.nodes:
            if n.kind != "stmt":
                continue
            a = n.ast
            if isinstance(a, (ast.Assign, ast.AugAssign)):
                for t in (a.targets if isinstance(a, ast.Assign) else [a.target]):
                    root = t
                    while isinstance(root, ast.Subscript):
                        root = root.value
                    if src(root) in content:
                        writes.append(n)
            for c in node_calls(n):
                if isinstance(c.func, ast.Attribute) and c.func.attr in MUTATING_METHODS and src(c.func.value) in content:
                    writes.append(n)
            if isinstance(a, ast.Delete) and any(any(cn in src(t) for cn in content) for t in a.targets):
                writes.append(n)
        if not writes:
            continue
        yield ("method", fn, None, None)
        incs = [n for n in cfg.nodes if n.kind == "stmt" and isinstance(n.ast, ast.AugAssign) and src(n.ast.target) == ver and isinstance(n.ast.op, ast.Add)]
        for w in writes:
            if w in incs:
                continue
            p = cfg.path([w], lambda x: x is cfg.exit, avoid=lambda x: x in incs, edge_ok=no_exc, include_start=False)
            yield ("write", fn, w.ast, p)


def rule_ver(ctx) -> None:
    # (a) every graph write is followed by the etag bump
    for mname, fn in ctx.prog.methods(STORE).items():
        cfg = ctx.cfg(fn)
        writes = [n for n in cfg.nodes if n.kind == "stmt" and isinstance(n.ast, (ast.Assign, ast.AugAssign, ast.Delete)) and any(
            isinstance(t, ast.Subscript) and isinstance(t.value, ast.Attribute) and t.value.attr in ("nodes", "edges") for t in (n.ast.targets if isinstance(n.ast, (ast.Assign, ast.Delete)) else [n.ast.target]))]
        if not writes:
            continue
        bumps = [n for n in cfg.nodes if any(call_tail(c) == "_bump_etag" for c in node_calls(n))]
        for w in writes:
            p = cfg.path([w], lambda x: x is cfg.exit, avoid=lambda x: x in bumps, edge_ok=no_exc, include_start=False)
            ok = p is None
            if not ok:
                # `if edits: bump` with `edits += 1` paired to every write
                conds = [x for x in p if x.kind == "cond" and isinstance(x.ast, ast.Name)]
                for cnd in conds:
                    flag = cnd.ast.id
                    tb = [t for t, l in cnd.succ if l == "T"]
                    bump_under = any(cfg.dominates(tb[0], b) for b in bumps) if tb else False
                    incs = [m for m in cfg.nodes if m.kind == "stmt" and isinstance(m.ast, ast.AugAssign) and src(m.ast.target) == flag]
                    heads = [h for h in cfg.nodes if h.kind == "iter"]
                    p2 = cfg.path([w], lambda x: x in heads or x is cnd, avoid=lambda x: x in incs, edge_ok=no_exc, include_start=False)
                    if bump_under and incs and p2 is None:
                        ok = True
            ctx.check(ok, "C05.VER", f"{fn.qual}/write-bumps-etag@{src(w.ast)[:24]}", fn.loc(w.ast), "every path from this graph write reaches _bump_etag",
                      "a graph write can complete without the etag being re-derived: the T1 cache keeps serving the old propagation", ctx.path_witness(fn, p))
    # (a') recovery after a partial failure: when an exception can leave a method after a graph write without the bump
    # (a later element raises), the documented retry (apply_changes re-applies each delta) restores etag == H(content) only
    # if every normal pass over a recognised element reaches the bump - also when the element changes nothing any more
    for mname, fn in ctx.prog.methods(STORE).items():
        cfg = ctx.cfg(fn)
        writes = [n for n in cfg.nodes if n.kind == "stmt" and isinstance(n.ast, (ast.Assign, ast.AugAssign)) and any(
            isinstance(t, ast.Subscript) and isinstance(t.value, ast.Attribute) and t.value.attr in ("nodes", "edges") for t in (n.ast.targets if isinstance(n.ast, ast.Assign) else [n.ast.target]))]
        bumps = [n for n in cfg.nodes if any(call_tail(c) == "_bump_etag" for c in node_calls(n))]
        if not writes or not bumps:
            continue
        # exits through an exception AFTER a write has completed (the write's own exception edge means it did not happen)
        done = [t for w in writes for t, l in w.succ if l != "exc"]
        partial = cfg.path(done, lambda x: x is cfg.raise_, avoid=lambda x: x in bumps, include_start=True)
        if partial is not None:
            # a flag-gated bump on the way out (`finally: if edits: bump`): fine when every completed write has been counted
            # before anything else can raise
            for cnd in [x for x in partial if x.kind == "cond" and isinstance(x.ast, ast.Name)]:
                tb = [t for t, l in cnd.succ if l == "T"]
                incs_f = [m for m in cfg.nodes if m.kind == "stmt" and isinstance(m.ast, ast.AugAssign) and src(m.ast.target) == cnd.ast.id]
                if tb and any(cfg.dominates(tb[0], b) for b in bumps) and incs_f \
                        and cfg.path(done, lambda x: x is cnd, avoid=lambda x: x in incs_f, include_start=True) is None:
                    partial = None
                    break
        ctx.check(partial is None, "C05.VER", f"{fn.qual}/no-partial-failure", fn.loc(partial[-2].ast) if partial and len(partial) > 1 and partial[-2].ast is not None else fn.loc(),
                  "no exceptional exit after a completed graph write skips the etag re-derivation",
                  "an exception raised after a graph write has completed (a later, malformed element of the batch) leaves the method without the etag being re-derived: the graph has changed, its etag has "
                  "not, and the T1 cache keeps serving the propagation of the old graph to every caller that does not replay the batch element by element", ctx.path_witness(fn, partial))
        if partial is None:
            continue
        # recognised-element branches: `d.get("op") == "<const>"` (or, without such dispatch, the loop body itself)
        ops = [n for n in cfg.nodes if n.kind == "cond" and isinstance(n.ast, ast.Compare) and isinstance(n.ast.ops[0], ast.Eq) and const_str(n.ast.comparators[0]) is not None and "op" in src(n.ast.left)]
        starts = []
        for o in ops:
            starts += [t for t, l in o.succ if l == "T"]
        if not starts:
            starts = writes
        gate = [x for x in cfg.nodes if x.kind == "cond" and isinstance(x.ast, ast.Name) and any(cfg.dominates(t, b) for t, l in x.succ if l == "T" for b in bumps)]
        incs = [m for m in cfg.nodes if m.kind == "stmt" and isinstance(m.ast, ast.AugAssign) and gate and src(m.ast.target) == gate[0].ast.id]
        heads = [h for h in cfg.nodes if h.kind == "iter"]
        if gate and incs:
            # flag-gated bump: an element is counted iff the flag is incremented before the next element / the gate
            p3 = cfg.path(starts, lambda x: x in heads or x is cfg.exit, avoid=lambda x: x in incs or x in bumps, edge_ok=no_exc, include_start=True)
        else:
            p3 = cfg.path(starts, lambda x: x is cfg.exit, avoid=lambda x: x in bumps, edge_ok=no_exc, include_start=True)
        ctx.check(p3 is None, "C05.VER", f"{fn.qual}/retry-restores-etag", fn.loc(p3[-1].ast) if p3 and p3[-1].ast is not None else fn.loc(),
                  "a later element can raise after an earlier write (no bump), and every normal pass over a recognised element reaches the etag re-derivation, so the per-delta retry restores etag == H(content)",
                  "a later element can raise after an earlier graph write without the etag being re-derived, and a recognised element can be processed without reaching the bump (e.g. skipped as 'unchanged'): "
                  "the per-delta retry after a failed batch then finds the good deltas already in place, never re-derives the etag, and the T1 cache keeps serving the pre-apply propagation",
                  ctx.path_witness(fn, p3))
    # (b) the etag is content-derived (or at least changes on every bump)
    be = ctx.func(STORE + "._bump_etag")
    loops = [x for x in walk_no_defs(be.node) if isinstance(x, ast.For)]
    iterates = {a for l in loops for a in ("nodes", "edges") if a in src(l.iter)}
    # the field reaches the digest: it occurs in the argument of an update() call of the loop, directly or through a local of
    # the loop body that was computed from it (w = float(e.weight) ... h.update(repr((.., w, ..))))
    def _feeds(l, field: str) -> bool:
        ups = [c for st in l.body for c in ast.walk(st) if isinstance(c, ast.Call) and call_tail(c) == "update"]
        carriers = {field}
        for _ in range(2):
            for st in l.body:
                for a in ast.walk(st):
                    if isinstance(a, (ast.Assign, ast.AnnAssign)) and a.value is not None and any(
                            (isinstance(y, ast.Attribute) and y.attr in carriers) or (isinstance(y, ast.Name) and y.id in carriers) or (isinstance(y, ast.Constant) and y.value in carriers) for y in ast.walk(a.value)):
                        carriers |= {t.id for t in (a.targets if isinstance(a, ast.Assign) else [a.target]) if isinstance(t, ast.Name)}
        return any((isinstance(y, ast.Attribute) and y.attr in carriers) or (isinstance(y, ast.Name) and y.id in carriers) or (isinstance(y, ast.Constant) and y.value in carriers)
                   for c in ups for arg_ in c.args for y in ast.walk(arg_))
    feeds_weight = any(isinstance(l, ast.For) and _feeds(l, "weight") for l in loops)
    feeds_label = any("label" in src(l) for l in loops)
    content = iterates == {"nodes", "edges"} and feeds_weight and feeds_label
    chained = any(isinstance(x, ast.Attribute) and x.attr == "version_etag" and isinstance(x.ctx, ast.Load) for x in walk_no_defs(be.node))
    len_only = not content and not chained
    ctx.check(content, "C05.VER", f"{be.qual}/content-derived", be.loc(), "the etag hashes node labels/attrs and edge fields (incl. weights) of the whole graph",
              ("the etag is a hash of (len(nodes), len(edges)) only: re-weighting an edge keeps the etag" if len_only else
               "the etag is not derived from graph content (chained/counter only): two store instances with the same mutation history share etags although their graphs differ"))
    # (b0) deriving the etag cannot fail on content the maps accept: a conversion that raises inside the hash (float() of a
    #      weight that is no number) makes EVERY later edit of the graph land without the etag moving
    from ..util import enclosing as _encl
    convs = [x for x in walk_no_defs(be.node) if isinstance(x, ast.Call) and isinstance(x.func, ast.Name) and x.func.id in ("float", "int") and x.args and not isinstance(x.args[0], ast.Constant)]
    for x in convs:
        okc = False
        for st, part in _encl(ctx.prog, be, x):
            if isinstance(st, ast.Try) and part == "body":
                caught = set()
                for h in st.handlers:
                    caught |= {"*"} if h.type is None else {src(e).split(".")[-1] for e in (h.type.elts if isinstance(h.type, ast.Tuple) else [h.type])}
                if caught & {"*", "Exception", "BaseException"} or {"TypeError", "ValueError"} <= caught:
                    okc = True
        ctx.check(okc, "C05.VER", ctx.okey(f"{be.qual}/hash-is-total"), be.loc(x), f"`{src(x)}` inside the etag derivation is under a handler for TypeError / ValueError",
                  f"`{src(x)}` can raise inside the etag derivation: one edge whose weight is no number wedges the etag - every later edit of that graph lands in the maps, raises out of the bump and "
                  "leaves the etag where it was, so the T1 cache serves the old propagation from then on")
    # (b') the etag sees what the walkers see: T1 reads the adjacency lists csr() builds, and under relax_cap / queue budgets the
    #      order of those lists decides the result.  Either csr() puts them in a canonical order, or the etag hashes the edge map
    #      in the same (insertion) order - a sorted hash over an insertion-ordered walk gives equal etags to graphs that propagate
    #      differently.
    def _canon_order(loop: ast.For) -> bool:
        return isinstance(loop.iter, ast.Call) and dotted(loop.iter.func) == "sorted"
    csr = ctx.func(STORE + ".csr")
    walk_loops = [x for x in walk_no_defs(csr.node) if isinstance(x, (ast.For, ast.comprehension)) and "edges" in src(x.iter)]
    walk_sorted = bool(walk_loops) and all(isinstance(x.iter, ast.Call) and dotted(x.iter.func) == "sorted" for x in walk_loops) or any(
        isinstance(x, ast.Call) and call_tail(x) in ("sort", "sorted") for x in walk_no_defs(csr.node))
    etag_edge_loops = [l for l in loops if "edges" in src(l.iter)]
    if not walk_loops or not etag_edge_loops:
        raise AnalysisError("anchor-vanished: edge loops of csr() / _bump_etag")
    etag_sorted = all(_canon_order(l) for l in etag_edge_loops)
    ctx.check(walk_sorted or not etag_sorted, "C05.VER", f"{be.qual}/hash-order-is-walk-order", be.loc(etag_edge_loops[0]),
              "the etag hashes the edge map in the order csr() hands it to T1" if not walk_sorted else "csr() builds adjacency lists in a canonical order",
              "the etag hashes edges in sorted-id order while csr() builds the adjacency lists in insertion order: two stores with the same edges inserted in another order get equal etags, yet "
              "under relax_cap / a queue budget T1 relaxes different edges - the process-global T1 cache serves the first store's propagation to the second")
    # (c) index version: every write to the episode list is followed, on every normal path, by an increment of the version;
    #     nothing resets it
    n_m = 0
    for kind, fn, at, p in index_version_gaps(ctx):
        if kind == "method":
            n_m += 1
        elif kind == "reset":
            ctx.violation("C05.VER", f"{fn.qual}/version-reset", fn.loc(at), f"`{src(at)[:40]}` assigns the index version: it can repeat an earlier value, so the T2 cache (keyed by the version) revives stale results")
        else:
            ctx.check(p is None, "C05.VER", ctx.okey(f"{fn.qual}/mutation-bumps-version"), fn.loc(at), "every path from this write of the episode list increments the version",
                      f"`{src(at)[:50]}` changes the episode list but a path to the return skips the version increment: the index version no longer tracks content, so the T2 stage cache and the turn-level "
                      "cache keep serving the result computed before the change (e.g. an episode re-added under its id with another owner)", ctx.path_witness(fn, p) if p else None)
    ctx.floor("C05.VER", "InMemoryIndex methods mutating the episode containers", n_m, 2)


def rule_iso(ctx) -> None:
    # T1: module-global cache keyed by (gid, etag, ...): etag must be content-derived (checked in VER) or an instance id must be in the key
    t1m = ctx.prog.module(T1)
    glob = [g for g in t1m.globals_assigned if g == "_T1_CACHE"]
    ctx.floor("C05.ISO", "process-global T1 cache", len(glob), 1)
    be = ctx.func(STORE + "._bump_etag")
    content = len([x for x in walk_no_defs(be.node) if isinstance(x, ast.For)]) >= 2
    inner = ctx.func(T1 + ":t1_propagate._t1_one_graph")
    ck = [x for x in walk_no_defs(inner.node) if isinstance(x, ast.Assign) and src(x.targets[0]) == "ckey"]
    inst = any("id(store)" in src(x.value) or "_uid" in src(x.value) or "_instance" in src(x.value) for x in ck)
    ctx.check(content or inst, "C05.ISO", "T1/_T1_CACHE", inner.loc(ck[0]) if ck else inner.loc(), "the process-global T1 cache is keyed by a content-derived graph etag" if content else "the T1 key carries a store-instance discriminator",
              "_T1_CACHE is process-global but its key has neither a content-derived graph version nor a store-instance discriminator: independent engine states in one process share entries")
    # the index identity: the attribute __init__ takes from a class-level counter
    meths = ctx.prog.methods(INDEX)
    idx = meths["__init__"]
    counters = {src(x.target) for x in walk_no_defs(idx.node) if isinstance(x, ast.AugAssign) and isinstance(x.target, ast.Attribute) and src(x.target.value) != "self"}
    ident = {t.attr for x in walk_no_defs(idx.node) if isinstance(x, (ast.Assign, ast.AnnAssign)) and x.value is not None and src(x.value) in counters
             for t in (x.targets if isinstance(x, ast.Assign) else [x.target]) if isinstance(t, ast.Attribute) and src(t.value) == "self"}
    ctx.check(bool(ident), "C05.ISO", f"{INDEX}/instance-uid", idx.loc(), f"every index instance takes a process-local identity from a class counter ({sorted(ident)})", "InMemoryIndex has no instance discriminator")
    # ... which a copy must not inherit: copy.copy / copy.deepcopy / unpickling bypass __init__
    copy_hooks = [m for n, m in meths.items() if n in ("__setstate__", "__deepcopy__", "__copy__", "__reduce__", "__reduce_ex__", "__getstate__")]
    refreshed = any(isinstance(x, (ast.Assign, ast.AnnAssign)) and any(isinstance(t, ast.Attribute) and src(t.value) in ("self", "new", "clone", "other") and t.attr in ident
                                                                       for t in (x.targets if isinstance(x, ast.Assign) else [x.target]))
                    for m in copy_hooks for x in walk_no_defs(m.node))
    dropped = any(isinstance(x, ast.Call) and call_tail(x) == "pop" and x.args and const_str(x.args[0]) in ident for m in copy_hooks for x in walk_no_defs(m.node))
    ctx.check(bool(ident) and (refreshed or dropped), "C05.ISO", f"{INDEX}/identity-not-inherited-by-copies", idx.loc(),
              "a copy of an index (copy / deepcopy / unpickle) is given an identity of its own",
              f"{sorted(ident)} is assigned in __init__ only: copy.deepcopy and pickle rebuild the object without __init__, so a forked engine state keeps the identity and the version of the original - "
              "after each fork adds a different episode both have the same (version, identity) and the process-global T2 cache serves one state's memories to the other")
    # the keys of the caches that outlive / span index objects carry that identity, and never an address
    n_keys = 0
    for tag, fn, pred, argi in (("T2", ctx.func(T2), lambda c: call_tail(c) == "get" and src(c.func.value) == "cache" and len(c.args) >= 1, 0),
                                ("TURN", ctx.func(RUN_TURN), lambda c: call_tail(c) == "get" and src(c.func.value) == "cm" and len(c.args) == 2, 1)):
        cfg = ctx.cfg(fn)
        site = next(((n, c) for n in cfg.nodes for c in node_calls(n) if pred(c)), None)
        if site is None:
            raise AnalysisError(f"anchor-vanished: cache lookup in {fn.qual}")
        n_keys += 1
        n, c = site
        sl = ctx.rd(fn).slice([c.args[argi]], n)
        exprs = list(sl.nodes())
        for call in [x for x in exprs if isinstance(x, ast.Call)]:
            r = ctx.prog.callee(fn, call)
            if r and r[1] in ctx.prog.funcs and len(list(ast.walk(ctx.prog.funcs[r[1]].node))) < 400:
                exprs += list(ast.walk(ctx.prog.funcs[r[1]].node))
        addr = next((x for x in exprs if isinstance(x, ast.Call) and isinstance(x.func, ast.Name) and x.func.id == "id" and len(x.args) == 1), None)
        has_ident = any((isinstance(x, ast.Attribute) and x.attr in ident) or (isinstance(x, ast.Constant) and x.value in ident) for x in exprs)
        ctx.check(has_ident, "C05.ISO", f"{tag}/index-identity-in-key", fn.loc(c), "the key carries the index's instance identity next to its per-instance version",
                  "the cache spans index objects but its key has the per-instance version only: a second engine state with the same number of adds is served the first state's episodes")
        ctx.check(addr is None, "C05.ISO", f"{tag}/no-address-in-key", fn.loc(addr) if addr is not None else fn.loc(c), "no key part is an object address",
                  (f"`{src(addr)[:40]}` puts an object's address into the key: CPython gives the address of a dropped object to the next one, so in a warm process a new index (one without the "
                   "identity attribute: LanceIndex, any MemoryIndex implementation) inherits the cache entries of a dead one - another world's retrieval is served") if addr is not None else "")
    ctx.floor("C05.ISO", "cache keys spanning index objects", n_keys, 2)
    # an index that carries no identity of its own gets one from the key helper: kept OUTSIDE the object.  A stamp written into
    # the instance travels with copy.deepcopy / pickle (the foreign class has no copy hook that renews it): two diverging copies
    # with equal version counters then share one cache identity.
    helpers = set()
    for tag, fn in (("T2", ctx.func(T2)), ("TURN", ctx.func(RUN_TURN))):
        for x in walk_no_defs(fn.node):
            if isinstance(x, ast.Call):
                r = ctx.prog.callee(fn, x)
                if r and r[0] == "func" and r[1] in ctx.prog.funcs and any(isinstance(y, ast.Attribute) and y.attr in ident or (isinstance(y, ast.Constant) and y.value in ident)
                                                                       for y in ast.walk(ctx.prog.funcs[r[1]].node)):
                    helpers.add(r[1])
    ctx.floor("C05.ISO", "helpers that give an index its cache identity", len(helpers), 1)
    for q in sorted(helpers):
        h = ctx.prog.funcs[q]
        ps = set(h.params)
        stamp = next((x for x in walk_no_defs(h.node)
                      if (isinstance(x, ast.Call) and dotted(x.func) == "setattr" and x.args and isinstance(x.args[0], ast.Name) and x.args[0].id in ps)
                      or (isinstance(x, (ast.Assign, ast.AugAssign)) and any(isinstance(t, ast.Attribute) and isinstance(t.value, ast.Name) and t.value.id in ps
                                                                                for t in (x.targets if isinstance(x, ast.Assign) else [x.target])))), None)
        ctx.check(stamp is None, "C05.ISO", f"{q}/identity-not-stored-in-foreign-object", h.loc(stamp) if stamp is not None else h.loc(), "the identity handed to a foreign index is kept outside the object",
                  (f"`{src(stamp)[:50]}` writes the identity into the index object: copy.deepcopy(state) / pickle copy the stamp along (only InMemoryIndex renews its identity in copies), so two forks of "
                   "an engine state share (version, identity) once each has added as many episodes - the process-global T2 cache serves one fork's memories to the other") if stamp is not None else "")


_EFMEMO: dict = {}


def _EF(ctx):
    from ..effects import Effects
    k = id(ctx)
    if k not in _EFMEMO:
        _EFMEMO.clear()
        _EFMEMO[k] = Effects(ctx, depth=2)
    return _EFMEMO[k]


def rule_alias(ctx) -> None:
    t2 = ctx.func(T2)
    diag = {"cache_used", "cache_hits", "cache_misses", "t2.cache_evictions", "t2.cache_bytes"}
    bad = []
    for x in walk_no_defs(t2.node):
        if isinstance(x, (ast.Assign, ast.AugAssign)):
            tg = x.targets if isinstance(x, ast.Assign) else [x.target]
            for t in tg:
                root = t
                while isinstance(root, (ast.Attribute, ast.Subscript)):
                    root = root.value
                if isinstance(root, ast.Name) and root.id in ("hit", "result") and t is not root:
                    k = const_str(t.slice) if isinstance(t, ast.Subscript) else None
                    if not (isinstance(t, ast.Subscript) and src(t.value).endswith(".metrics") and k in diag):
                        bad.append(t)
    ctx.check(not bad, "C05.ALIAS", "T2/hit-only-diagnostics-mutated", t2.loc(bad[0]) if bad else t2.loc(), "a hit / stored T2 result is only touched in cache-diagnostic metric fields",
              f"`{src(bad[0])[:50]}` mutates the cached T2 result object: later hits observe the mutation" if bad else "")
    # T1: the per-graph delta list is the cached object (returned on a hit and stored on a miss): callers must not mutate it
    outer = ctx.func(T1 + ":t1_propagate")
    funcs = [outer] + [f for f in ctx.prog.all_funcs(T1 + ":t1_propagate.") if f.name == "merge_fn"]
    n_checked = 0
    for f in funcs:
        alias: Set[str] = set()
        for x in walk_no_defs(f.node):
            if isinstance(x, ast.Assign) and isinstance(x.targets[0], ast.Tuple) and isinstance(x.value, ast.Call) and call_tail(x.value) == "_t1_one_graph":
                alias.add(x.targets[0].elts[0].id)
            if isinstance(x, ast.For) and isinstance(x.target, ast.Tuple) and len(x.target.elts) == 2 and isinstance(x.target.elts[1], ast.Tuple) and src(x.iter) == "pairs":
                alias.add(x.target.elts[1].elts[0].id)
        changed = True
        while changed:
            changed = False
            for x in walk_no_defs(f.node):
                if isinstance(x, ast.Assign) and len(x.targets) == 1 and isinstance(x.targets[0], ast.Name) and x.targets[0].id not in alias:
                    v = x.value
                    cands = [v] + (list(v.values) if isinstance(v, ast.BoolOp) else []) + ([v.body, v.orelse] if isinstance(v, ast.IfExp) else [])
                    if any(isinstance(cnd, ast.Name) and cnd.id in alias for cnd in cands):
                        alias.add(x.targets[0].id)
                        changed = True
                    # result of a helper that can return one of its arguments: acc = merge(acc, part)
                    if isinstance(v, ast.Call) and x.targets[0].id not in alias:
                        cal = ctx.prog.callee(f, v)
                        if cal is not None and cal[0] == "func" and cal[1] in ctx.prog.funcs:
                            callee = ctx.prog.funcs[cal[1]]
                            for o in _EF(ctx)._ret_origins(callee):
                                if o.startswith("param:"):
                                    ae = _EF(ctx)._actual(v, callee, o[6:])
                                    if isinstance(ae, ast.Name) and ae.id in alias:
                                        alias.add(x.targets[0].id)
                                        changed = True
        for x in walk_no_defs(f.node):
            recv = None
            if isinstance(x, ast.Call) and isinstance(x.func, ast.Attribute) and x.func.attr in ("append", "extend", "sort", "insert", "pop", "clear", "remove", "reverse") and isinstance(x.func.value, ast.Name):
                recv = x.func.value.id
            if isinstance(x, ast.AugAssign) and isinstance(x.target, ast.Name):
                recv = x.target.id
            if isinstance(x, ast.Call) and recv is None:
                cal = ctx.prog.callee(f, x)
                if cal is not None and cal[0] == "func" and cal[1] in ctx.prog.funcs and cal[1] != f.qual:
                    callee = ctx.prog.funcs[cal[1]]
                    for e in _EF(ctx).of(callee):
                        if e.kind == "mutate" and e.origin.startswith("param:"):
                            ae = _EF(ctx)._actual(x, callee, e.origin[6:])
                            if isinstance(ae, ast.Name) and ae.id in alias:
                                recv = ae.id
            if recv is not None and recv in alias:
                ctx.violation("C05.ALIAS", f"T1/{f.name}:{recv}", f.loc(x), f"`{src(x)[:50]}` mutates `{recv}`, which may be the very list stored in (or returned from) the T1 cache: "
                              "later hits return the grown list while a fresh computation does not")
            if recv is not None:
                n_checked += 1
    ctx.holds("C05.ALIAS", "T1/no-mutation-of-cached-deltas", outer.loc(), f"{n_checked} mutation sites in the fold/merge checked: none targets a name that aliases a per-graph (cached) delta list")


def _key_tree(ctx, fn: Func, e: ast.AST, at, depth: int = 0):
    """{field: subtree-or-True} of the dict denoted by e at `at`; None when it cannot be determined.  Follows locals, tuple
    unpacking of a program helper's returned tuple, dict comprehensions over a constant tuple, `{**a, k: v}` and dict(a)."""
    if depth > 6:
        return None
    if isinstance(e, ast.Dict):
        out = {}
        for k, v in zip(e.keys, e.values):
            if k is None:
                sub = _key_tree(ctx, fn, v, at, depth + 1)
                if not isinstance(sub, dict):
                    return None
                out.update(sub)
            elif const_str(k) is not None:
                sub = _key_tree(ctx, fn, v, at, depth + 1)
                out[const_str(k)] = sub if isinstance(sub, dict) else True
            else:
                return None
        return out
    if isinstance(e, ast.DictComp) and len(e.generators) == 1 and isinstance(e.generators[0].target, ast.Name) and isinstance(e.key, ast.Name) and e.key.id == e.generators[0].target.id \
            and not e.generators[0].ifs:
        it = e.generators[0].iter
        if isinstance(it, ast.Name):
            # module-level constant tuple / list
            for st in fn.module.tree.body:
                if isinstance(st, ast.Assign) and any(isinstance(t, ast.Name) and t.id == it.id for t in st.targets):
                    it = st.value
        if isinstance(it, (ast.Tuple, ast.List)) and all(const_str(x) is not None for x in it.elts):
            return {const_str(x): True for x in it.elts}
        return None
    if isinstance(e, ast.Call) and dotted(e.func) == "dict" and len(e.args) == 1 and not e.keywords:
        return _key_tree(ctx, fn, e.args[0], at, depth + 1)
    if isinstance(e, ast.Name):
        rd = ctx.rd(fn)
        ds = [d for d in rd.reaching(e.id, at) if d.kind != "mutate"]
        if len(ds) != 1:
            trees = [_key_tree_def(ctx, fn, d, depth) for d in ds]
            if trees and all(isinstance(t, dict) for t in trees):
                # fields present whichever definition reaches: the intersection
                keys = set(trees[0])
                for t in trees[1:]:
                    keys &= set(t)
                return {k: trees[0][k] for k in keys}
            return None
        return _key_tree_def(ctx, fn, ds[0], depth)
    return None


def _key_tree_def(ctx, fn: Func, d, depth: int):
    if d.kind in ("assign", "walrus") and d.value is not None:
        return _key_tree(ctx, fn, d.value, d.node, depth + 1)
    if d.kind == "unpack" and isinstance(d.node.ast, ast.Assign) and isinstance(d.node.ast.value, ast.Call):
        # a, b = helper(...): position of the name in the target tuple -> that element of the helper's returned tuple
        tgt = d.node.ast.targets[0]
        if isinstance(tgt, ast.Tuple):
            idx = next((i for i, t in enumerate(tgt.elts) if isinstance(t, ast.Name) and t.id == d.name), None)
            cal = ctx.prog.callee(fn, d.node.ast.value)
            if idx is not None and cal is not None and cal[0] == "func" and cal[1] in ctx.prog.funcs:
                g = ctx.prog.funcs[cal[1]]
                gcfg = ctx.cfg(g)
                trees = []
                for n in gcfg.nodes:
                    if n.kind == "stmt" and isinstance(n.ast, ast.Return) and isinstance(n.ast.value, ast.Tuple) and idx < len(n.ast.value.elts):
                        trees.append(_key_tree(ctx, g, n.ast.value.elts[idx], n, depth + 1))
                if trees and all(isinstance(t, dict) for t in trees):
                    keys = set(trees[0])
                    for t in trees[1:]:
                        keys &= set(t)
                    return {k: trees[0][k] for k in keys}
    return None


def rule_entry_complete(ctx) -> None:
    """a hit is rebuilt from the stored entry: every field the hit path reads out of the entry (with a silent default:
    `hit['metrics'].get('radius_cap_hits', 0)`) must be a field that every store site puts in.  An entry that carries fewer
    fields - e.g. a slimmed-down entry for the byte-bounded cache only - makes the hit report zeros where a fresh computation
    counted caps hit, with the right key, no error and no change for graphs that hit no cap."""
    fn = ctx.func(T1 + ":t1_propagate._t1_one_graph")
    cfg = ctx.cfg(fn)
    rd = ctx.rd(fn)
    # the hit variable(s): bound to cache.get(key)
    hits = {d.name for d in rd.all_defs if d.kind == "assign" and isinstance(d.value, ast.Call) and call_tail(d.value) == "get" and isinstance(d.value.func, ast.Attribute)
            and any(isinstance(p.value, ast.Call) and call_tail(p.value) in ("put", "set") and isinstance(p.value.func, ast.Attribute) and src(p.value.func.value) == src(d.value.func.value)
                    for p in walk_no_defs(fn.node) if isinstance(p, (ast.Expr, ast.Assign)) and isinstance(p.value, ast.Call))}
    if not hits:
        raise AnalysisError("anchor-vanished: no `hit = cache.get(key)` paired with a cache.put in _t1_one_graph")
    reads: Set[Tuple[str, ...]] = set()
    for x in walk_no_defs(fn.node):
        path: List[str] = []
        cur = x
        # hit[a][b] / hit[a].get(b, d) / hit.get(a)
        while True:
            if isinstance(cur, ast.Subscript) and const_str(cur.slice) is not None:
                path.append(const_str(cur.slice))
                cur = cur.value
            elif isinstance(cur, ast.Call) and isinstance(cur.func, ast.Attribute) and cur.func.attr == "get" and cur.args and const_str(cur.args[0]) is not None:
                path.append(const_str(cur.args[0]))
                cur = cur.func.value
            else:
                break
        if path and isinstance(cur, ast.Name) and cur.id in hits:
            reads.add(tuple(reversed(path)))
    reads = {r for r in reads if not any(len(o) > len(r) and o[:len(r)] == r for o in reads)}  # leaves only
    ctx.floor("C05.ENTRY", "fields the T1 hit path reads out of the cached entry", len(reads), 6)
    # what a hit returns is what the entry says - except the cache's own diagnostics (hit / miss flags, eviction tallies of the
    # cache, the max-delta gauge the statement exempts).  A work counter hard-coded to 0 on the hit path differs from the fresh
    # measurement although the key is right.
    DIAG = {"_cache_hit", "_cache_miss", "_max_delta_local", "_t1_cache_evicted", "_t1_cache_bytes"}
    n_hitf = 0
    for r in walk_no_defs(fn.node):
        if not (isinstance(r, ast.Return) and isinstance(r.value, ast.Tuple) and len(r.value.elts) == 2 and isinstance(r.value.elts[1], ast.Dict)):
            continue
        d = r.value.elts[1]
        if not any(isinstance(y, ast.Name) and y.id in hits for v in d.values for y in ast.walk(v)):
            continue  # the fresh return
        for kx, vx in zip(d.keys, d.values):
            kname = const_str(kx) if kx is not None else None
            if kname is None or kname in DIAG:
                continue
            n_hitf += 1
            from_entry = any(isinstance(y, ast.Name) and y.id in hits for y in ast.walk(vx))
            ctx.check(from_entry, "C05.ENTRY", f"{fn.qual}/hit-field-from-entry:{kname}", fn.loc(vx), f"`{kname}` is read out of the cached entry",
                      f"on a hit `{kname}` is `{src(vx)[:30]}`, not a value of the cached entry, and it is not one of the cache's own diagnostics: a fresh computation measures it, so the stage "
                      "result differs with the cache on")
    ctx.floor("C05.ENTRY", "non-diagnostic fields of the T1 hit return", n_hitf, 6)
    puts = [(n, c) for n in sorted(cfg.nodes, key=lambda z: z.id) for c in node_calls(n) if call_tail(c) in ("put", "set") and isinstance(c.func, ast.Attribute) and len(c.args) >= 2]
    ctx.floor("C05.ENTRY", "store sites of the T1 cache", len(puts), 2)
    for n, c in puts:
        tree = _key_tree(ctx, fn, c.args[1], n)
        key = ctx.okey(f"{fn.qual}/stored-entry-has-every-field-a-hit-reads")
        if tree is None:
            ctx.undecided("C05.ENTRY", key, fn.loc(c), f"the fields of the entry stored by `{src(c)[:50]}` cannot be determined")
            continue
        missing = []
        for r in sorted(reads):
            t = tree
            for part in r:
                if not isinstance(t, dict) or part not in t:
                    missing.append(".".join(r))
                    break
                t = t[part]
        ctx.check(not missing, "C05.ENTRY", key, fn.loc(c), f"the stored entry has all {len(reads)} fields the hit path reads",
                  f"the entry stored by `{src(c)[:50]}` lacks {missing}: the hit path reads them with a default, so a hit reports 0 where the fresh computation counted - "
                  "cache on and cache off disagree on T1 counters although the key is right")


def rule_hit_leaves_what_fresh_leaves(ctx) -> None:
    """"a cache hit equals a fresh computation" also in what the computation leaves behind on its arguments: whatever the
    fresh path of the stage writes into the turn context (or into objects reached from it) the hit path writes too.  A reused
    ctx otherwise keeps, on a hit, what an EARLIER turn's computation left there (the snippets the reflection step falls back
    to), and a configuration section completed in place by the fresh path differs after a hit."""
    from ..effects import Effects
    fn = ctx.func(T2)
    cfg = ctx.cfg(fn)
    hit_rets = [n for n in cfg.nodes if n.kind == "stmt" and isinstance(n.ast, ast.Return) and isinstance(n.ast.value, ast.Name)
                and any(pol and t.replace(" ", "") == f"{n.ast.value.id}isnotNone" for t, pol in cfg.facts(n))]
    if not hit_rets:
        raise AnalysisError("anchor-vanished: `return <hit>` under `<hit> is not None` in t2_semantic")
    hitname = hit_rets[0].ast.value.id
    ef = Effects(ctx, depth=3)
    pname = fn.params[0]
    on_hit, on_fresh = {}, {}
    for n in cfg.nodes:
        if n.ast is None or n.kind not in ("stmt", "cond"):
            continue
        hitside = any(pol and t.replace(" ", "") == f"{hitname}isnotNone" for t, pol in cfg.facts(n))
        found = []
        for c in node_calls(n):
            if dotted(c.func) == "setattr" and c.args and isinstance(c.args[0], ast.Name) and c.args[0].id == pname:
                found.append((f"setattr({pname}, {src(c.args[1]) if len(c.args) > 1 else ''})", c))
                continue
            pos = [i for i, a in enumerate(c.args) if isinstance(a, ast.Name) and a.id == pname]
            r = ctx.prog.callee(fn, c)
            if not pos or not r or r[0] != "func" or r[1] not in ctx.prog.funcs:
                continue
            cal = ctx.prog.funcs[r[1]]
            cps = [p_ for p_ in cal.params if p_ not in ("self", "cls")]
            tgt = {f"param:{cps[i]}" for i in pos if i < len(cps)}
            ws = [e for e in ef.of(cal) if e.kind in ("mutate", "setattr") and e.origin in tgt]
            if ws:
                found.append((f"{cal.name}: " + "; ".join(sorted({e.desc for e in ws}))[:120], c))
        if isinstance(n.ast, (ast.Assign, ast.AugAssign)):
            for t in (n.ast.targets if isinstance(n.ast, ast.Assign) else [n.ast.target]):
                base = t
                while isinstance(base, (ast.Subscript, ast.Attribute)):
                    base = base.value
                if isinstance(base, ast.Name) and base.id == pname and base is not t:
                    found.append((f"store `{src(t)[:40]}`", n.ast))
        for what, node in found:
            (on_hit if hitside else on_fresh).setdefault(what, node)
    ctx.floor("C05.ENTRY", "writes into the turn context on the fresh path of T2", len(on_fresh), 1)
    missing = sorted(w for w in on_fresh if w not in on_hit)
    ctx.check(not missing, "C05.ENTRY", f"{fn.qual}/hit-path-leaves-what-the-fresh-path-leaves", fn.loc(hit_rets[0].ast),
              f"all {len(on_fresh)} writes of the fresh path into the turn context are made on the hit path as well",
              (f"the fresh path writes into the turn context ({missing[0][:110]}{' ...' if len(missing) > 1 else ''}, {fn.loc(on_fresh[missing[0]])}) and the hit path does not: with a ctx reused "
               "across turns a hit leaves there what an earlier turn's computation wrote - the reflection of a turn that retrieved nothing is fed the snippets of an earlier turn - or the caller's "
               "configuration differs after a hit") if missing else "")
    # the turn-level cache wraps the same stage: on its hit the orchestrator makes up for what the skipped stage call leaves on ctx
    rt = ctx.func(RUN_TURN)
    rcfg = ctx.cfg(rt)
    wrote = {w.split(": ", 1)[0] for w in on_fresh if ": " in w}   # helpers through which the fresh path writes
    hit_nodes = [n for n in rcfg.nodes if any(pol and t.strip() == "hit" for t, pol in rcfg.facts(n))]
    if not hit_nodes:
        raise AnalysisError("anchor-vanished: the `if hit:` branch of the turn-level T2 cache")
    called = set()
    for n in hit_nodes:
        for c in node_calls(n):
            called.add(call_tail(c))
            if isinstance(c.func, ast.Name):
                for x in walk_no_defs(rt.node):
                    if isinstance(x, ast.ImportFrom):
                        for a in x.names:
                            if (a.asname or a.name) == c.func.id:
                                called.add(a.name)
    lacking = sorted(wrote - called)
    ctx.check(not lacking, "C05.ENTRY", f"{rt.qual}/turn-level-hit-leaves-what-the-stage-leaves", rt.loc(hit_nodes[0].ast),
              f"on a turn-level hit run_turn calls {sorted(wrote)} itself", f"on a turn-level hit the stage is not called and run_turn does not make up for `{lacking[0] if lacking else ''}`: "
              "what the stage leaves on ctx besides its result stays as an earlier turn left it")


def run(ctx) -> None:
    rule_hit_leaves_what_fresh_leaves(ctx)
    rule_entry_complete(ctx)
    ka = rule_key_t2(ctx)
    rule_key_turn(ctx, ka)
    rule_store_versioned(ctx)
    rule_quality_digest(ctx)
    rule_key_t1(ctx)
    rule_key_keeps_consumed_order(ctx)
    rule_key_t1_roots(ctx)
    rule_key_injective(ctx)
    rule_key_names_resource(ctx)
    rule_ver(ctx)
    rule_iso(ctx)
    rule_alias(ctx)
