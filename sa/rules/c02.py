"""C02 Features behind a closed gate are inert."""
from __future__ import annotations

import ast
from typing import Dict, List, Optional, Set, Tuple

from ..dataflow import node_exprs
from ..model import AnalysisError, Func, const_str, dotted, kwarg, src, walk_no_defs
from ..paths import PathEval
from ..util import call_tail, enclosing, find_calls, gate_on, implied_atoms, node_calls

EXPLANATION = (
    "C02 decided statically: (DOM) for every value read from a gated configuration subtree (perf.*, perf.parallel.*, graph.*, "
    "t2.quality.*, t2.hybrid.*, scheduler.*; t3.reflection.* through the reflection gate) every use that can influence "
    "control flow, a loop, a call argument, a return value or a store is dominated by - or conjoined with - the gate-on "
    "predicate, is confined to a cache key / gated-metrics record, or is handed to a callee that tests the gate itself; sub-gate "
    "predicates (parallel T1/T2/agents, metrics) conjoin the master switch; (ART) every writer of a gated artefact (gel.jsonl, "
    "t3_reflection.jsonl, scheduler.jsonl, quality traces) is dominated by its gate; (MUT) GEL state is touched only after the "
    "graph gate (shared with C18.GATE) and run_turn's GEL / scheduler / reflection call sites are gate-dominated; (VAL) the "
    "validator materialises perf / t2.quality only when the user supplied them. Not decided: equality of logs and state with "
    "the run that omits the subtree (execution equality)."
)
RULES = {
    "C02.DOM": "forward flow of gated-subtree reads to observable uses, with gate dominance / conjunction as the only discharges",
    "C02.SUBGATE": "sub-gate predicate functions conjoin the master switch",
    "C02.ART": "gate dominance of artefact writers",
    "C02.MUT": "gate dominance of GEL / scheduler / reflection call sites in run_turn",
    "C02.VAL": "control dependence of the validator's perf / quality materialisation on user-supplied sections",
}

CORE = "clematis.engine.orchestrator.core"
RUN_TURN = CORE + ":Orchestrator.run_turn"

# subtree prefix -> gate atom(s) (all must hold), one reason per row
GATES: List[Tuple[str, Tuple[str, ...], str]] = [
    ("perf.parallel", ("cfg:perf.parallel.enabled",), "parallel execution selects a strategy whose observable equivalence with the sequential one is C09/C10; its own switch gates its knobs"),
    ("perf", ("cfg:perf.enabled",), "performance master switch"),
    ("graph", ("cfg:graph.enabled",), "GEL graph"),
    ("t2.quality", ("cfg:t2.quality.enabled",), "retrieval quality layer (shadow tracing has its own triple gate)"),
    ("t2.hybrid", ("cfg:t2.hybrid.enabled",), "hybrid graph rerank"),
    ("scheduler", ("cfg:scheduler.enabled",), "scheduler"),
]
# reads that are not gated values: the gates themselves and documented sub-gates
GATE_KEYS = {"perf.enabled", "perf.parallel.enabled", "graph.enabled", "t2.quality.enabled", "t2.hybrid.enabled", "scheduler.enabled",
             # containers of a sub-gate: reading the sub-dictionary is how its own switch is reached
             "perf.parallel", "perf.metrics", "perf.metrics.report_memory"}

# functions analysed for DOM (anchored: a vanished one fails the run)
DOM_FUNCS = [
    "clematis.engine.stages.t1:t1_propagate",
    "clematis.engine.stages.t1:_get_cache",
    "clematis.engine.stages.t1:_t1_parallel_enabled",
    "clematis.engine.stages.t2.cache:get_cache",
    "clematis.engine.stages.t2.parallel:t2_parallel_enabled",
    "clematis.engine.stages.t2.quality:apply_quality",
    "clematis.engine.orchestrator.parallel:_agents_parallel_enabled",
    "clematis.engine.orchestrator.core:_derive_budgets",
    "clematis.engine.orchestrator.core:_run_reflection_if_enabled",
    "clematis.engine.stages.t3.reflect:reflect",
    "clematis.engine.orchestrator.reflection:write_reflection_entries",
]


def _gate_for(path: str) -> Optional[Tuple[str, Tuple[str, ...]]]:
    for pre, atoms, _ in GATES:
        if path.startswith(pre + ".") and path not in GATE_KEYS:
            return pre, atoms
    return None


class GatedFlow:
    def __init__(self, ctx, fn: Func, pe: PathEval, outer: Optional["GatedFlow"] = None):
        self.ctx, self.fn, self.pe = ctx, fn, pe
        # free variables of a closure inherit the taint of the enclosing function's definitions
        self.outer_taint: Dict[str, Tuple[str, Tuple[str, ...], str]] = {}
        self.outer = outer
        if outer is not None:
            self.outer_taint = dict(outer.outer_taint)
            for d in outer.rd.all_defs:
                if id(d) in outer.taint:
                    self.outer_taint.setdefault(d.name, outer.taint[id(d)])
        self.cfg = ctx.cfg(fn)
        self.rd = ctx.rd(fn)
        self.taint: Dict[int, Tuple[str, Tuple[str, ...], str]] = {}  # id(def) -> (subtree, gates, atom)
        self.clean: Set[int] = set()
        self._compute()

    def _expr_gated(self, e: ast.AST, at) -> Optional[Tuple[str, Tuple[str, ...], str]]:
        for x in walk_no_defs(e):
            if isinstance(x, (ast.Call, ast.Subscript)):
                try:
                    ps = self.pe.paths(self.fn, x, at)
                except Exception:
                    continue
                for r, k in sorted(ps):
                    if r != "cfg" or not k:
                        continue
                    key = ".".join(k)
                    g = _gate_for(key)
                    if g:
                        return g[0], g[1], key
        return None

    def _compute(self) -> None:
        changed = True
        rounds = 0
        while changed and rounds < 6:
            changed = False
            rounds += 1
            for d in self.rd.all_defs:
                if id(d) in self.taint or id(d) in self.clean or d.value is None or d.kind in ("param", "mutate"):
                    continue
                g = self._expr_gated(d.value, d.node)
                if g is None:
                    for x in walk_no_defs(d.value):
                        if isinstance(x, ast.Name) and isinstance(x.ctx, ast.Load):
                            rds = self.rd.reaching(x.id, d.node)
                            for dd in rds:
                                if id(dd) in self.taint:
                                    g = self.taint[id(dd)]
                            if not rds and x.id in self.outer_taint:
                                g = self.outer_taint[x.id]
                if g is not None and isinstance(d.value, ast.IfExp):
                    # `x = Feature(knob) if (gate and knob > 0) else None`: the knob only matters on the gated arm
                    try:
                        tatoms = self.pe.atoms(self.fn, d.value.test, d.node)
                        arm_free = not self._expr_gated(d.value.orelse, d.node) and not any(
                            isinstance(y, ast.Name) and (any(id(dd) in self.taint for dd in self.rd.reaching(y.id, d.node)) or (not self.rd.reaching(y.id, d.node) and y.id in self.outer_taint))
                            for y in walk_no_defs(d.value.orelse))
                        test_and = d.value.test.values if isinstance(d.value.test, ast.BoolOp) and isinstance(d.value.test.op, ast.And) else [d.value.test]
                        gate_in_test = all(any(ga in self.atoms_of(v, d.node) for v in test_and) for ga in g[1])
                        if arm_free and gate_in_test:
                            self.clean.add(id(d))
                            continue
                    except Exception:
                        pass
                if g is not None and isinstance(d.value, ast.BoolOp) and isinstance(d.value.op, ast.And):
                    # `flag = gate and knob > 0`: the conjunction with the gate makes the flag itself a gated predicate
                    try:
                        if all(any(ga in self.atoms_of(v, d.node) for v in d.value.values) for ga in g[1]):
                            self.clean.add(id(d))
                            continue
                    except Exception:
                        pass
                if g is not None:
                    # a value computed where the gate is known to be on is a legitimate product of the enabled feature
                    if all(self.gate_known(d.node, ga) for ga in g[1]):
                        self.clean.add(id(d))
                        continue
                    self.taint[id(d)] = g
                    changed = True

    def atoms_of(self, e: ast.AST, at) -> Set[str]:
        """access paths of e, following free variables of a closure into the enclosing function's definitions"""
        out: Set[str] = set()
        try:
            out |= self.pe.atoms(self.fn, e, at)
        except Exception:
            pass
        if self.outer is not None:
            for y in walk_no_defs(e):
                if isinstance(y, ast.Name) and isinstance(y.ctx, ast.Load) and not self.rd.reaching(y.id, at):
                    for d in self.outer.rd.all_defs:
                        if d.name == y.id and d.value is not None and d.kind in ("assign", "walrus"):
                            out |= self.outer.atoms_of(d.value, d.node)
        return out

    def gate_known(self, node, ga: str) -> bool:
        if gate_on(self.ctx, self.fn, node, self.pe, ga):
            return True
        for e, pol, at in implied_atoms(self.ctx, self.fn, node):
            if pol and not isinstance(e, ast.BoolOp) and ga in self.atoms_of(e, at):
                return True
        return False

    def gate_holds(self, node, gates: Tuple[str, ...], use: ast.AST) -> bool:
        ok_all = True
        for ga in gates:
            ok = self.gate_known(node, ga)
            if not ok:
                ok = self._conjoined(use, node, ga)
            if not ok:
                ok_all = False
        return ok_all

    def _conjoined(self, use: ast.AST, node, gate_atom: str) -> bool:
        """`use` sits in an `and` chain / IfExp body whose sibling operand (or test) reads the gate."""
        pm = self.ctx.prog.parents(self.fn.node)
        cur = use
        while id(cur) in pm:
            p = pm[id(cur)]
            sibs: List[ast.AST] = []
            if isinstance(p, ast.BoolOp) and isinstance(p.op, ast.And):
                sibs = [v for v in p.values if v is not cur and not any(y is cur for y in ast.walk(v))]
            if isinstance(p, ast.IfExp) and (cur is p.body or any(y is cur for y in ast.walk(p.body))):
                sibs = [p.test]
            for s in sibs:
                if gate_atom in self.atoms_of(s, node):
                    return True
            if isinstance(p, ast.stmt):
                break
            cur = p
        return False

    def uses(self) -> List[Tuple[object, ast.Name, Tuple[str, Tuple[str, ...], str], str]]:
        out = []
        for n in self.cfg.nodes:
            if n not in self.cfg.reachable_from_entry():
                continue
            kind = {"cond": "branch condition", "iter": "loop", "with": "with"}.get(n.kind, None)
            for e in node_exprs(n):
                is_def_stmt = n.kind == "stmt" and isinstance(n.ast, (ast.Assign, ast.AnnAssign, ast.AugAssign))
                # direct reads of a gated key inside an observable position (no local in between)
                if not is_def_stmt or not all(isinstance(t, ast.Name) for t in (n.ast.targets if isinstance(n.ast, ast.Assign) else [n.ast.target])):
                    for x in walk_no_defs(e):
                        if isinstance(x, ast.Call) and (call_tail(x) in ("get", "cfg_get", "_cfg_get")):
                            g0 = self._expr_gated(x, n)
                            if g0 is not None:
                                w0 = kind or ("return value" if (n.kind == "stmt" and isinstance(n.ast, ast.Return)) else "use")
                                out.append((n, x, g0, w0))
                for x in walk_no_defs(e):
                    if not (isinstance(x, ast.Name) and isinstance(x.ctx, ast.Load)):
                        continue
                    rds = self.rd.reaching(x.id, n)
                    gs = [self.taint[id(d)] for d in rds if id(d) in self.taint]
                    if not gs and not rds and x.id in self.outer_taint:
                        gs = [self.outer_taint[x.id]]
                    if not gs:
                        continue
                    what = kind
                    if what is None:
                        if n.kind == "stmt" and isinstance(n.ast, ast.Return):
                            what = "return value"
                        elif is_def_stmt:
                            tg = n.ast.targets if isinstance(n.ast, ast.Assign) else [n.ast.target]
                            if all(isinstance(t, ast.Name) for t in tg):
                                continue  # pure propagation into a local: judged at that local's uses
                            what = "store"
                        elif n.kind == "stmt" and isinstance(n.ast, ast.Expr):
                            what = "call argument"
                        else:
                            what = "use"
                    out.append((n, x, gs[0], what))
        return out


def _exempt_use(ctx, fn: Func, n, x: ast.AST) -> Optional[str]:
    """uses that cannot change a result: building a cache key / a gated metrics record"""
    pm = ctx.prog.parents(fn.node)
    cur = x
    while id(cur) in pm:
        p = pm[id(cur)]
        if isinstance(p, ast.stmt):
            if isinstance(p, (ast.Assign, ast.AnnAssign)):
                tg = p.targets if isinstance(p, ast.Assign) else [p.target]
                names = {src(t) for t in tg}
                if any(nm in ("ckey", "key", "cfg_tuple", "policy_caps", "ckey_payload") or nm.startswith(("ckey_payload[", "policy_caps[")) for nm in names):
                    return "cache-key component (cannot change a result if C05 holds)"
            if isinstance(p, ast.Expr) and isinstance(p.value, ast.Call) and isinstance(p.value.func, ast.Attribute) and p.value.func.attr == "update" and src(p.value.func.value) in ("policy_caps", "ckey_payload"):
                return "cache-key component (cannot change a result if C05 holds)"
            break
        cur = p
    return None


def _callers_gated(ctx, pe, fn: Func, gates: Tuple[str, ...]) -> bool:
    """every engine call site of fn is dominated by the gate-on predicate(s)"""
    sites = 0
    for g in ctx.prog.all_funcs("clematis.engine."):
        if g is fn:
            continue
        for x in walk_no_defs(g.node):
            if isinstance(x, ast.Call) and call_tail(x) == fn.name:
                r = ctx.prog.callee(g, x)
                if r is None or r[0] != "func" or r[1] != fn.qual:
                    continue
                sites += 1
                cn = ctx.cfg(g).node_containing(x)
                if not cn or not all(gate_on(ctx, g, cn[0], pe, ga) for ga in gates):
                    return False
    return sites > 0


def rule_dom(ctx) -> None:
    pe = PathEval(ctx, depth=4)
    n_uses = 0
    n_reads = 0
    for q in DOM_FUNCS:
        fn = ctx.func(q)
        funcs = [fn] + [f for f in ctx.prog.all_funcs(q + ".")]
        flows: Dict[str, GatedFlow] = {}
        for f in funcs:
            gf = GatedFlow(ctx, f, pe, outer=flows.get(f.parent.qual) if f.parent is not None else None)
            flows[f.qual] = gf
            n_reads += len(gf.taint) + len(gf.clean)
            per_atom: Dict[str, List[str]] = {}
            meta: Dict[str, Tuple] = {}
            for n, x, (sub, gates, atom), what in gf.uses():
                n_uses += 1
                if _exempt_use(ctx, f, n, x):
                    continue
                if gf.gate_holds(n, gates, x):
                    continue
                per_atom.setdefault(atom, []).append(f"`{x.id if isinstance(x, ast.Name) else src(x)[:40]}` as {what} at L{n.lineno}")
                meta.setdefault(atom, (sub, gates, x))
            for atom, where in sorted(per_atom.items()):
                sub, gates, x0 = meta[atom]
                if _callers_gated(ctx, pe, fn, gates):
                    ctx.holds("C02.DOM", f"{f.qual}/{atom}", f.loc(x0), f"cfg:{atom} is used ungated inside {f.name}, but every caller enters it under {gates}")
                    continue
                ctx.violation("C02.DOM", f"{f.qual}/{atom}", f.loc(x0),
                              f"cfg:{atom} (inside the gated subtree `{sub}.*`) influences {f.name} without {', '.join(gates)} being known true ({'; '.join(where[:3])}): "
                              f"with the gate off a value placed there still has an effect")
    ctx.floor("C02.DOM", "definitions carrying gated-subtree values", n_reads, 20)
    ctx.holds("C02.DOM", "summary/uses-examined", "clematis/engine", f"{n_uses} observable uses of {n_reads} gated-value definitions examined in {len(DOM_FUNCS)} anchored functions (+ closures)")


# Readers of a gated subtree outside DOM_FUNCS whose ungated use was confirmed harmless by reading (frozen instances:
# a new reader, or a confirmed reader touching another subtree, is reported).  (function, subtree prefix) -> reason
CONFIRMED_UNGATED: Dict[Tuple[str, str], str] = {
    ("clematis.engine.gel:_graph_cfg", "graph."): "normalising accessor: copies graph.* sub-dictionaries and fills defaults, returns the dict; every consumer tests cfg['enabled'] first (C18.GATE) and run_turn's GEL call sites are gate-dominated (C02.MUT)",
    ("clematis.engine.gel:observe_retrieval", "graph."): "disabled path echoes threshold/mode/alpha in its metrics dict; the only engine call sites are gate-dominated (C02.MUT), so the echo is never observed with the gate off",
    ("clematis.engine.gel:tick", "graph."): "disabled path echoes half_life/floor in its metrics dict; call sites gate-dominated (C02.MUT)",
    ("clematis.engine.orchestrator.core:Orchestrator.run_turn", "scheduler.policy"): "policy name copied into yield events, which exist only while slice_ctx is set, i.e. under scheduler.enabled (C02.MUT: budget derivation gate-dominated, stale budgets cleared)",
    ("clematis.engine.stages.hybrid:_hybrid_cfg", "t2.hybrid."): "normalising accessor for t2.hybrid; rerank_with_gel returns the input unchanged unless cfg['enabled']",
    ("clematis.engine.stages.hybrid:rerank_with_gel", "t2.hybrid."): "the flagged read IS the gate test on the normalised dict (`if not cfg.get('enabled')`), path imprecision of the accessor summary",
    ("clematis.engine.stages.t2.core:t2_semantic", "perf.t2.reader.partitions"): "availability probe (read-only) feeding reader_mode, which assemble_metrics emits only under the metrics gate; use_reader itself is bool(perf.enabled and ... and partitions.enabled)",
    ("clematis.engine.stages.t2.quality_trace:_config_digest", "t2.quality."): "helper of emit_trace, which is called only under the shadow triple gate (C02.ART)",
    ("clematis.engine.stages.t2.quality_trace:_derive_trace_dir", "t2.quality."): "helper of emit_trace (C02.ART triple gate)",
    ("clematis.engine.stages.t2.quality_trace:emit_trace", "t2.quality."): "called only under the shadow triple gate (C02.ART)",
}


def _validator_tables(ctx) -> Dict[str, Set[str]]:
    m = ctx.prog.module("configs.validate")
    out: Dict[str, Set[str]] = {}
    for name, sts in m.globals_assigned.items():
        if name.startswith("ALLOWED_"):
            v = getattr(sts[0], "value", None)
            if isinstance(v, ast.Set):
                out[name] = {x.value for x in v.elts if isinstance(x, ast.Constant) and isinstance(x.value, str)}
    if len(out) < 20:
        raise AnalysisError("anchor-vanished: ALLOWED_* tables of configs/validate.py")
    return out


def _dead_key(tables: Dict[str, Set[str]], atom: str) -> bool:
    """the validator rejects this key (its parent's ALLOWED_ table exists and does not list it): a validated config
    cannot carry a value there, so reading it ungated has no effect"""
    parts = [p for p in atom.split(".") if p != "*"]
    for i in range(1, len(parts)):
        tname = "ALLOWED_" + "_".join(parts[:i]).upper()
        if tname in tables and parts[i] not in tables[tname]:
            return True
    return False


def rule_dom_all(ctx) -> None:
    """who-may-read: every other engine function that reads a gated subtree uses it gated, reads a key the validator rejects,
    or is a confirmed instance"""
    pe = PathEval(ctx, depth=4)
    tables = _validator_tables(ctx)
    n_fn = n_readers = 0
    used_confirmed: Set[Tuple[str, str]] = set()
    for fn in ctx.prog.all_funcs("clematis.engine"):
        if fn.parent is not None or any(fn.qual == q or fn.qual.startswith(q + ".") for q in DOM_FUNCS):
            continue
        n_fn += 1
        try:
            gf = GatedFlow(ctx, fn, pe)
        except AnalysisError:
            raise
        if not gf.taint and not gf.clean:
            continue
        n_readers += 1
        per_atom: Dict[str, List[str]] = {}
        meta: Dict[str, Tuple] = {}
        for n, x, (sub, gates, atom), what in gf.uses():
            if _exempt_use(ctx, fn, n, x) or gf.gate_holds(n, gates, x):
                continue
            per_atom.setdefault(atom, []).append(f"{what} at L{n.lineno}")
            meta.setdefault(atom, (sub, gates, x))
        for atom, where in sorted(per_atom.items()):
            sub, gates, x0 = meta[atom]
            if _dead_key(tables, atom):
                ctx.info("C02.DOM", f"{fn.qual}/{atom}", fn.loc(x0), f"cfg:{atom} is read ungated but the validator rejects that key: no validated config carries a value there")
                continue
            if _callers_gated(ctx, pe, fn, gates):
                ctx.holds("C02.DOM", f"{fn.qual}/{atom}", fn.loc(x0), f"cfg:{atom} is used ungated inside {fn.name}, but every caller enters it under {gates}")
                continue
            hit = [k for k in CONFIRMED_UNGATED if k[0] == fn.qual and (atom + ".").startswith(k[1] if k[1].endswith(".") else k[1] + ".") or (k[0] == fn.qual and atom.startswith(k[1]))]
            if hit:
                used_confirmed.add(hit[0])
                continue
            ctx.violation("C02.DOM", f"{fn.qual}/{atom}", fn.loc(x0),
                          f"cfg:{atom} (inside the gated subtree `{sub}.*`, a key the validator accepts) influences {fn.name} without {', '.join(gates)} being known true ({'; '.join(where[:3])}) "
                          "and this reader is not among the confirmed instances: with the gate off a value placed there still has an effect")
    for k in sorted(used_confirmed):
        ctx.holds("C02.DOM", f"{k[0]}/confirmed:{k[1]}", "sa/rules/c02.py", f"confirmed reader: {CONFIRMED_UNGATED[k]}", nontrivial=False)
    stale = sorted(set(CONFIRMED_UNGATED) - used_confirmed)
    for k in stale:
        ctx.info("C02.DOM", f"{k[0]}/confirmed-unused:{k[1]}", "sa/rules/c02.py", "confirmed instance no longer needed (the read is now gated, dead or gone)")
    ctx.floor("C02.DOM", "engine functions scanned for gated-subtree reads", n_fn, 300)
    ctx.floor("C02.DOM", "engine functions outside the anchored list that read a gated subtree", n_readers, 8)


def rule_subgate(ctx) -> None:
    pe = PathEval(ctx, depth=4)
    for q, sub in (("clematis.engine.util.metrics:gate_on", "cfg:perf.metrics.report_memory"),):
        fn = ctx.func(q)
        cfg = ctx.cfg(fn)
        bad = None
        for n in cfg.nodes:
            if n.kind == "stmt" and isinstance(n.ast, ast.Return) and n.ast.value is not None and n in cfg.reachable_from_entry():
                v = n.ast.value
                if isinstance(v, ast.Constant) and v.value is False:
                    continue
                facts = cfg.facts(n)
                master = any((not p) and "enabled" in t and "perf" in t and t.startswith("bool(") for t, p in facts) or any(p and "enabled" in t and "perf" in t for t, p in facts)
                # `if not bool(perf.get("enabled")): return False` dominates: its False branch carries the fact (negated form)
                master = master or any(t.startswith("bool(perf.get('enabled'") and p for t, p in facts)
                if not master:
                    bad = n
        ctx.check(bad is None, "C02.SUBGATE", f"{fn.qual}/conjoins-master", fn.loc(bad.ast) if bad is not None else fn.loc(),
                  "the metrics gate can only be true when perf.enabled is true",
                  f"`{src(bad.ast)[:60] if bad is not None else ''}` can be true although perf.enabled is false: {sub.split(':')[1]} takes effect with the performance master switch off")
    # T1 / T2 caches behind the perf gate
    for q in ("clematis.engine.stages.t1:_get_cache", "clematis.engine.stages.t2.cache:get_cache"):
        fn = ctx.func(q)
        cfg = ctx.cfg(fn)
        ctors = [(n, c) for n in cfg.nodes for c in node_calls(n) if call_tail(c) in ("LRUBytes", "ThreadSafeBytesCache")]
        ok = bool(ctors) and all(gate_on(ctx, fn, n, pe, "cfg:perf.enabled") for n, c in ctors)
        ctx.check(ok, "C02.SUBGATE", f"{fn.qual}/bytes-cache-behind-perf", fn.loc(), "the size-aware cache is selected only under perf.enabled", "the perf-only byte cache can be selected with perf.enabled off")
    for q in ("clematis.engine.stages.t1:_t1_parallel_enabled", "clematis.engine.stages.t2.parallel:t2_parallel_enabled", "clematis.engine.orchestrator.parallel:_agents_parallel_enabled"):
        fn = ctx.func(q)
        cfg = ctx.cfg(fn)
        bad = None
        for n in cfg.nodes:
            if n.kind == "stmt" and isinstance(n.ast, ast.Return) and n.ast.value is not None and n in cfg.reachable_from_entry():
                v = n.ast.value
                if isinstance(v, ast.Constant) and v.value is False:
                    continue
                if not gate_on(ctx, fn, n, pe, "cfg:perf.enabled"):
                    bad = bad or n
        ctx.check(bad is None, "C02.SUBGATE", f"{fn.qual}/parallel-without-master", fn.loc(bad.ast) if bad is not None else fn.loc(),
                  "the parallel gate can only be true when perf.enabled is true",
                  f"`{src(bad.ast)[:60] if bad is not None else ''}` can be true although perf.enabled is false: perf.parallel.* selects the fan-out path with the performance master switch off, and that "
                  "path is not result-identical to the sequential one (per-shard cluster cut, completion-order cache fill, read-only state writes: the C09 / C10 findings), so a value in the gated-off subtree has an effect")


ARTEFACTS = {
    "gel.jsonl": ("cfg:graph.enabled",),
    "scheduler.jsonl": ("cfg:scheduler.enabled",),
}


def rule_art(ctx) -> None:
    pe = PathEval(ctx, depth=4)
    fn = ctx.func(RUN_TURN)
    cfg = ctx.cfg(fn)
    n_w = 0
    for n in cfg.nodes:
        for c in node_calls(n):
            if call_tail(c) == "_append_jsonl" and c.args and const_str(c.args[0]) in ARTEFACTS:
                n_w += 1
                name = const_str(c.args[0])
                ok = all(gate_on(ctx, fn, n, pe, g) for g in ARTEFACTS[name])
                ctx.check(ok, "C02.ART", ctx.okey(f"{fn.qual}/{name}"), fn.loc(c), f"{name} is written only under {ARTEFACTS[name]}", f"{name} can be written with its feature gate off")
            if call_tail(c) == "_write_or_capture_scheduler_event":
                n_w += 1
                # slice_ctx is not None  <=>  scheduler enabled at turn start
                facts = cfg.facts(n)
                ok = ("slice_ctx is not None", True) in facts or ("slice_ctx is None", False) in facts
                ctx.check(ok, "C02.ART", ctx.okey(f"{fn.qual}/scheduler-event"), fn.loc(c), "the scheduler event is emitted only when a slice context exists", "a scheduler event can be emitted without a slice context")
    ctx.floor("C02.ART", "gated artefact writers in run_turn", n_w, 7)
    # slice_ctx is created only under the scheduler gate
    sl = [d for d in ctx.rd(fn).all_defs if d.name == "slice_ctx" and d.value is not None and isinstance(d.value, ast.Dict)]
    for d in sl:
        ctx.check(gate_on(ctx, fn, d.node, pe, "cfg:scheduler.enabled"), "C02.ART", f"{fn.qual}/slice-ctx-under-gate", fn.loc(d.value), "the slice context (and ctx.slice_budgets) exists only with scheduler.enabled",
                  "a slice context is created with the scheduler gate off")
    # reflection telemetry: only with a result of this turn (C19.GATE / C19.FRESH decide the gate itself)
    tel = [(n, c) for n in cfg.nodes for c in node_calls(n) if call_tail(c) == "log_t3_reflection"]
    for n, c in tel:
        facts = cfg.facts(n)
        ctx.check(("res is not None", True) in facts, "C02.ART", f"{fn.qual}/t3_reflection.jsonl", fn.loc(c), "t3_reflection.jsonl is written only with a reflection result of this turn",
                  "the reflection log can be written without a result")
    # quality shadow trace: triple gate
    aq = ctx.func("clematis.engine.stages.t2.quality:apply_quality")
    acfg = ctx.cfg(aq)
    for n in acfg.nodes:
        for c in node_calls(n):
            if call_tail(c) == "_emit_quality_trace":
                pe2 = PathEval(ctx, depth=4)
                need = ("cfg:perf.enabled", "cfg:perf.metrics.report_memory", "cfg:t2.quality.shadow")
                missing = [ga for ga in need if not gate_on(ctx, aq, n, pe2, ga)]
                ctx.check(not missing, "C02.ART", f"{aq.qual}/shadow-trace", aq.loc(c), "the quality shadow trace needs perf.enabled, perf.metrics.report_memory and t2.quality.shadow",
                          f"the quality trace is emitted without {missing}")


def rule_mut(ctx) -> None:
    pe = PathEval(ctx, depth=4)
    fn = ctx.func(RUN_TURN)
    cfg = ctx.cfg(fn)
    sites = []
    for n in cfg.nodes:
        for c in node_calls(n):
            t = call_tail(c)
            if t.startswith("gel_"):
                sites.append((n, c, ("cfg:graph.enabled",)))
            if t in ("_derive_budgets", "_maybe_load_scheduler"):
                sites.append((n, c, ("cfg:scheduler.enabled",)))
    ctx.floor("C02.MUT", "GEL / scheduler call sites in run_turn", len(sites), 9)
    for n, c, gates in sites:
        ok = all(gate_on(ctx, fn, n, pe, g) for g in gates)
        ctx.check(ok, "C02.MUT", ctx.okey(f"{fn.qual}/{call_tail(c)}"), fn.loc(c), f"{call_tail(c)} is reached only under {gates}", f"{call_tail(c)} is reachable with {gates} off")
    # with the scheduler off, stale slice budgets are removed from ctx
    dels = [n for n in cfg.nodes if any(dotted(c.func) == "delattr" and len(c.args) == 2 and const_str(c.args[1]) == "slice_budgets" for c in node_calls(n))]
    ctx.check(bool(dels), "C02.MUT", f"{fn.qual}/slice-budgets-cleared", fn.loc(), "with the scheduler off, ctx.slice_budgets is removed so stages see no caps", "stale ctx.slice_budgets is not cleared when the scheduler is off")


def rule_val(ctx) -> None:
    fn = ctx.func("configs.validate:_validate_config_normalize_impl")
    cfg = ctx.cfg(fn)
    from .c14 import _validator_subdicts
    subs = _validator_subdicts(ctx, fn)
    rd = ctx.rd(fn)
    inp = fn.params[0] if fn.params else "cfg_in"
    for key, parent in (("perf", ""), ("quality", "t2")):
        holders = {v for v, (pth, _n) in subs.items() if pth == parent}
        stores = [n for n in cfg.nodes if n.kind == "stmt" and isinstance(n.ast, ast.Assign) and any(isinstance(t, ast.Subscript) and const_str(t.slice) == key and src(t.value) in holders for t in n.ast.targets)]
        if not stores:
            raise AnalysisError(f"anchor-vanished: validator store of [{key!r}]")
        for s in stores:
            ok = False
            for test, pol, gn in cfg.guards(s):
                if not pol:
                    continue
                # `'<key>' in <input>` or the truthiness of a local read from <input>...get("<key>")
                if isinstance(test, ast.Compare) and len(test.ops) == 1 and isinstance(test.ops[0], ast.In) and const_str(test.left) == key:
                    ok = True
                for y in ast.walk(test):
                    if isinstance(y, ast.Name):
                        for d in rd.reaching(y.id, gn):
                            if d.value is not None and any(const_str(z) == key for z in ast.walk(d.value)):
                                ok = True
            ctx.check(ok, "C02.VAL", f"{fn.qual}/materialises-{key}-only-if-given", fn.loc(s.ast), f"[{key!r}] is written into the normalised config only when the user supplied that section",
                      f"the validator materialises [{key!r}] although the user gave no such section: a config that omits the subtree no longer normalises to the same tree")
    pops = [n for n in cfg.nodes if any(call_tail(c) == "pop" and c.args and const_str(c.args[0]) == "perf" and isinstance(c.func.value, ast.Name) and c.func.value.id not in (inp,) for c in node_calls(n))]

    def _absent(test: ast.AST, pol: bool) -> bool:
        if isinstance(test, ast.Compare) and len(test.ops) == 1 and const_str(test.left) == "perf":
            return (isinstance(test.ops[0], ast.NotIn) and pol) or (isinstance(test.ops[0], ast.In) and not pol)
        return False

    ok = bool(pops) and all(any(_absent(t, p) for t, p, _g in cfg.guards(n)) for n in pops)
    ctx.check(ok, "C02.VAL", f"{fn.qual}/perf-defaults-dropped", fn.loc(pops[0].ast) if pops else fn.loc(), "the perf defaults are dropped when the user gave no perf section", "perf defaults are injected although the user gave no perf section")


def run(ctx) -> None:
    rule_dom(ctx)
    rule_dom_all(ctx)
    rule_subgate(ctx)
    rule_art(ctx)
    rule_mut(ctx)
    rule_val(ctx)
