"""C07 Delta snapshots reconstruct the full payload exactly (structural clauses)."""
from __future__ import annotations

import ast
from typing import Dict, List, Optional, Set, Tuple

from ..model import AnalysisError, Func, arg, const_str, dotted, kwarg, src, walk_no_defs
from ..typestate import explore
from ..util import call_tail, find_calls, implied_atoms, must_pass, no_exc, node_calls

EXPLANATION = (
    "C07 decided statically: (CODEC) dictionary keys are untrusted strings - a join/split path codec must escape its "
    "separator on the encode side and split escape-aware on the decode side (or carry list-valued paths), and must not "
    "map the empty path to 'no keys'; (SECT) the sections written by compute_delta equal those consumed by apply_delta, "
    "the three key-set expressions b-c / c-b / b&c feed dels / adds / mods, recursion only when both sides are mappings; "
    "(STATE) a payload read from a delta-mode file is DELTA until apply_delta reconstructs it - every use as a body "
    "(return, version/store/gel read) requires a non-DELTA state on every CFG path of read_snapshot and "
    "load_latest_snapshot; (WFALL) write_snapshot_auto emits a delta header only on the path where the baseline file was "
    "found and read, and exactly one file per call. Not decided: apply(base, diff(base,cur)) == cur as a value law over "
    "all JSON pairs."
)
RULES = {
    "C07.CODEC": "separator-injectivity rule over join/split sites of the delta codec (taint: dict keys are untrusted)",
    "C07.SECT": "writer/reader section tables + provenance of the three key-set loops + recursion guard",
    "C07.STATE": "typestate DELTA/RAW/OK of each payload variable over the CFG of the readers",
    "C07.WFALL": "guard dominance of the delta-header write + exactly-one-write typestate",
}

SD = "clematis.engine.util.snapshot_delta"
SNAP = "clematis.engine.snapshot"


# ------------------------------------------------------------------ CODEC
def _escape_fn(ctx, fn: Func, call: ast.Call, sep: str) -> Optional[Func]:
    """call resolves to a repo function whose body replaces `sep` (an escaper)."""
    r = ctx.prog.callee(fn, call)
    if r and r[0] == "func":
        f = ctx.prog.funcs[r[1]]
        for x in walk_no_defs(f.node):
            if isinstance(x, ast.Call) and isinstance(x.func, ast.Attribute) and x.func.attr == "replace" and x.args and const_str(x.args[0]) == sep:
                return f
    return None


def _replace_chain(e: ast.AST) -> List[Tuple[str, str]]:
    """[(old, new), ...] of a `x.replace(a, b).replace(c, d)` chain, innermost first."""
    out: List[Tuple[str, str]] = []
    while isinstance(e, ast.Call) and isinstance(e.func, ast.Attribute) and e.func.attr == "replace" and len(e.args) >= 2:
        a, b = const_str(e.args[0]), const_str(e.args[1])
        if a is None or b is None:
            break
        out.append((a, b))
        e = e.func.value
    out.reverse()
    return out


def _escaper_total(ctx, ef: Func, sep: str) -> None:
    """Every return of the escaper must apply the complete escaping (escape
    character first, then the separator) unless the dominating guards establish
    that the key contains neither character."""
    cfg = ctx.cfg(ef)
    rd = ctx.rd(ef)
    param = ef.params[0] if ef.params else None
    rets = [n for n in cfg.nodes if n.kind == "stmt" and isinstance(n.ast, ast.Return) and n.ast.value is not None and n in cfg.reachable_from_entry()]
    # the escape character is whatever the separator is prefixed with
    esc = None
    for x in walk_no_defs(ef.node):
        if isinstance(x, ast.Call):
            for a, b in _replace_chain(x):
                if a == sep and b.endswith(sep) and len(b) > len(sep):
                    esc = b[: -len(sep)]
    if esc is None:
        ctx.violation("C07.CODEC", f"{ef.qual}/escape-shape", ef.loc(), f"escaper does not map {sep!r} to <esc>{sep!r}")
        return
    for r in rets:
        inl = rd.inline(r.ast.value, r)
        chain = _replace_chain(inl)
        i_esc = next((i for i, (a, b) in enumerate(chain) if a == esc and b == esc + esc), None)
        i_sep = next((i for i, (a, b) in enumerate(chain) if a == sep and b == esc + sep), None)
        key = f"{ef.qual}/escaper-total:{src(r.ast.value)[:40]}"
        if i_esc is not None and i_sep is not None and i_esc < i_sep:
            ctx.holds("C07.CODEC", key, ef.loc(r.ast), f"returns the key with {esc!r} doubled first and {sep!r} escaped after")
            continue
        if i_esc is not None and i_sep is not None:
            ctx.violation("C07.CODEC", key, ef.loc(r.ast),
                          f"escaper escapes {sep!r} before doubling {esc!r}: the escape characters it just inserted are doubled again (not invertible)")
            continue
        # an unescaped return is fine only where both characters are known to be absent
        facts = cfg.facts(r)
        def absent(ch: str) -> bool:
            for a_src, pol in facts:
                try:
                    a = ast.parse(a_src, mode="eval").body
                except SyntaxError:
                    continue
                if isinstance(a, ast.Compare) and len(a.ops) == 1 and const_str(a.left) == ch and isinstance(a.comparators[0], ast.Name) \
                        and a.comparators[0].id == param:
                    if (isinstance(a.ops[0], ast.NotIn) and pol) or (isinstance(a.ops[0], ast.In) and not pol):
                        return True
            return False
        need = [ch for ch, i in ((esc, i_esc), (sep, i_sep)) if i is None]
        missing = [ch for ch in need if not absent(ch)]
        ctx.check(not missing, "C07.CODEC", key, ef.loc(r.ast),
                  f"unescaped return only where the key is known to contain neither {esc!r} nor {sep!r}",
                  f"escaper returns `{src(r.ast.value)[:40]}` on a path where the key may still contain {missing}: the decoder treats "
                  f"{esc!r}x as a literal x, so such a key is rebuilt as a different key",
                  ctx.path_witness(ef, cfg.path([cfg.entry], lambda n: n is r)))


def rule_codec(ctx) -> None:
    m = ctx.prog.module(SD)
    ctx.analysed_modules.add(SD)
    joins: List[Tuple[Func, ast.Call, str]] = []
    splits: List[Tuple[Func, ast.Call, str]] = []
    for fn in m.funcs.values():
        ctx.analysed_funcs.add(fn.qual)
        for x in walk_no_defs(fn.node):
            if isinstance(x, ast.Call) and isinstance(x.func, ast.Attribute):
                if x.func.attr == "join" and const_str(x.func.value) and x.args:  # "" .join = plain concatenation
                    joins.append((fn, x, const_str(x.func.value)))
                if x.func.attr in ("split", "rsplit", "partition", "rpartition") and x.args and const_str(x.args[0]) is not None:
                    splits.append((fn, x, const_str(x.args[0])))
    enc = ctx.func(SD + ":compute_delta")
    dec = ctx.func(SD + ":apply_delta")
    if not joins and not splits:
        ctx.holds("C07.CODEC", f"{SD}/no-string-paths", "snapshot_delta.py",
                  "the codec neither joins nor splits key components into strings (list-valued or structural paths): injective by construction")
        return
    for fn, c, sep in joins:
        a = c.args[0]
        escaped = False
        # every component must pass through an escaper: generator/listcomp/map applying f, or the join sits inside an encoder helper fed escaped parts
        comps = []
        if isinstance(a, (ast.GeneratorExp, ast.ListComp)):
            comps = [a.elt]
        elif isinstance(a, ast.Call) and dotted(a.func) == "map" and len(a.args) == 2:
            fake = ast.Call(func=a.args[0], args=[ast.Name(id="_", ctx=ast.Load())], keywords=[])
            comps = [fake]
        for e in comps:
            for y in ast.walk(e):
                if isinstance(y, ast.Call) and _escape_fn(ctx, fn, y, sep) is not None:
                    escaped = True
        if escaped:
            for e in comps:
                for y in ast.walk(e):
                    if isinstance(y, ast.Call):
                        ef = _escape_fn(ctx, fn, y, sep)
                        if ef is not None:
                            _escaper_total(ctx, ef, sep)
        ctx.check(escaped, "C07.CODEC", f"{fn.qual}/join:{sep!r}", fn.loc(c),
                  f"path components are escaped for {sep!r} before being joined",
                  f"dictionary keys are joined with {sep!r} without escaping: a key containing {sep!r} (node/edge ids are user-controlled) "
                  f"is indistinguishable from nesting and is rebuilt as a nested object")
    for fn, c, sep in splits:
        ctx.violation("C07.CODEC", f"{fn.qual}/split:{sep!r}", fn.loc(c),
                      f"the decoder splits the path with plain str.{c.func.attr}({sep!r}): an escaped or literal {sep!r} inside a key cannot be recovered")
    if joins and not splits:
        # decode side must use an escape-aware splitter that mentions the separator
        seps = {s for _, _, s in joins}
        aware = False
        for fn in m.funcs.values():
            if fn.name in ("_set_path", "_del_path"):
                for x in walk_no_defs(fn.node):
                    if isinstance(x, ast.Call):
                        r = ctx.prog.callee(fn, x)
                        if r and r[0] == "func" and r[1].startswith(SD + ":"):
                            g = ctx.prog.funcs[r[1]]
                            consts = {y.value for y in ast.walk(g.node) if isinstance(y, ast.Constant) and isinstance(y.value, str)}
                            if seps & consts and "\\" in consts:
                                aware = True
        ctx.check(aware, "C07.CODEC", f"{SD}/escape-aware-decoder", "snapshot_delta.py",
                  "the decoder obtains path components from a separator-aware splitter of this module",
                  "no separator-aware splitter is used by _set_path/_del_path")
    # the empty path must stay addressable: no `... if path else []`
    for fn in m.funcs.values():
        if fn.name not in ("_set_path", "_del_path"):
            continue
        for x in walk_no_defs(fn.node):
            if isinstance(x, ast.IfExp) and isinstance(x.orelse, (ast.List, ast.Tuple)) and not x.orelse.elts and isinstance(x.test, ast.Name):
                ctx.violation("C07.CODEC", f"{fn.qual}/empty-path", fn.loc(x),
                              f"`{src(x)[:60]}` maps the empty path to 'no keys': the top-level key \"\" is unaddressable (adds/mods of it are dropped)")
    sp = m.funcs.get("_set_path")
    dp = m.funcs.get("_del_path")
    if sp is None or dp is None:
        raise AnalysisError("anchor-vanished: _set_path/_del_path")


# ------------------------------------------------------------------- SECT
def rule_sect(ctx) -> None:
    enc = ctx.func(SD + ":compute_delta")
    dec = ctx.func(SD + ":apply_delta")
    wd = ctx.func(SD + ":_walk_diff")
    written: Set[str] = set()
    order: List[Tuple[str, str]] = []
    for x in walk_no_defs(enc.node):
        if isinstance(x, ast.Return) and isinstance(x.value, ast.Dict):
            for k, v in zip(x.value.keys, x.value.values):
                if const_str(k) is not None:
                    written.add(const_str(k))
                    order.append((const_str(k), src(v)))
    read: Set[str] = set()
    dparam = dec.params[1] if len(dec.params) > 1 else None
    for x in walk_no_defs(dec.node):
        if isinstance(x, ast.Call) and isinstance(x.func, ast.Attribute) and x.func.attr == "get" and isinstance(x.func.value, ast.Name) \
                and x.func.value.id == dparam and x.args and const_str(x.args[0]) is not None:
            read.add(const_str(x.args[0]))
        if isinstance(x, ast.Subscript) and isinstance(x.value, ast.Name) and x.value.id == dparam and const_str(x.slice) is not None:
            read.add(const_str(x.slice))
    ctx.floor("C07.SECT", "sections written", len(written), 3)
    ctx.check(written == read, "C07.SECT", f"{SD}/sections-agree", "snapshot_delta.py",
              f"compute_delta writes and apply_delta consumes exactly {sorted(written)}",
              f"section tables disagree: written {sorted(written)} vs consumed {sorted(read)} (a section is silently ignored)")
    # _walk_diff: the three loops
    cfg = ctx.cfg(wd)
    rd = ctx.rd(wd)
    bp, cp = wd.params[0], wd.params[1]
    loops = [n for n in cfg.nodes if n.kind == "iter"]
    ctx.floor("C07.SECT", "loops in _walk_diff", len(loops), 3)
    rets = [x for x in walk_no_defs(wd.node) if isinstance(x, ast.Return) and isinstance(x.value, ast.Tuple) and len(x.value.elts) == 3]
    if not rets:
        raise AnalysisError("anchor-vanished: _walk_diff returns (adds, mods, dels)")
    adds_n, mods_n, dels_n = [src(e) for e in rets[0].value.elts]

    def side(e: ast.AST, at) -> str:
        sl = rd.slice([e], at)
        s = ""
        if bp in sl.params:
            s += "B"
        if cp in sl.params:
            s += "C"
        return s

    found = {}
    for n in loops:
        it = n.ast.iter
        core = it.args[0] if isinstance(it, ast.Call) and dotted(it.func) == "sorted" and it.args else it
        if not isinstance(core, ast.BinOp):
            continue
        l, r = side(core.left, n), side(core.right, n)
        # which containers does the body write?
        wr = set()
        for x in ast.walk(n.ast):
            if isinstance(x, ast.Assign):
                for t in x.targets:
                    if isinstance(t, ast.Subscript) and isinstance(t.value, ast.Name):
                        wr.add(t.value.id)
            if isinstance(x, ast.Call) and isinstance(x.func, ast.Attribute) and x.func.attr in ("append", "extend", "update") and isinstance(x.func.value, ast.Name):
                wr.add(x.func.value.id)
        if isinstance(core.op, ast.Sub) and l == "B" and r == "C":
            found["dels"] = (n, wr)
        elif isinstance(core.op, ast.Sub) and l == "C" and r == "B":
            found["adds"] = (n, wr)
        elif isinstance(core.op, ast.BitAnd):
            found["mods"] = (n, wr)
    for sec, name in (("dels", dels_n), ("adds", adds_n), ("mods", mods_n)):
        if sec not in found:
            ctx.violation("C07.SECT", f"{wd.qual}/loop:{sec}", wd.loc(), f"no loop over the key set that defines `{sec}` (base−cur / cur−base / base∩cur)")
            continue
        n, wr = found[sec]
        want = {name} if sec != "mods" else {adds_n, mods_n, dels_n}
        ok = name in wr and wr <= want
        ctx.check(ok, "C07.SECT", f"{wd.qual}/loop:{sec}", wd.loc(n.ast),
                  f"keys of `{src(n.ast.iter)[:40]}` flow into {sorted(wr)}", f"keys of `{src(n.ast.iter)[:40]}` are recorded in {sorted(wr)}, expected {name}")
    # recursion only when both sides are mappings
    rec = find_calls(ctx, wd, lambda c, nm: nm == wd.qual)
    ctx.floor("C07.SECT", "recursive calls in _walk_diff", len(rec), 1)
    for n, c in rec:
        atoms = [(src(e), pol) for e, pol, at in implied_atoms(ctx, wd, n)]
        maps = [a for a, pol in atoms if pol and "_is_mapping(" in a or (pol and "isinstance(" in a and "dict" in a)]
        ctx.check(len(maps) >= 2, "C07.SECT", f"{wd.qual}/recurse-both-mappings", wd.loc(c),
                  f"recursion guarded by {maps}", "recursion into a subtree is not guarded by both sides being mappings (a scalar<->dict replacement is lost)")
    # changed scalars are recorded: the mods store is guarded by an inequality of the two values
    # apply_delta applies sets before deletions, on a deep copy
    acfg = ctx.cfg(dec)
    sets = find_calls(ctx, dec, lambda c, nm: nm.endswith(":_set_path"))
    dels = find_calls(ctx, dec, lambda c, nm: nm.endswith(":_del_path"))
    ctx.check(len(sets) >= 2 and len(dels) >= 1, "C07.SECT", f"{dec.qual}/applies-all", dec.loc(),
              f"apply_delta applies adds and mods ({len(sets)} _set_path sites) and dels ({len(dels)} _del_path sites)",
              "apply_delta does not apply all three sections")
    if sets and dels:
        back = acfg.reach([n for n, _ in dels], include_start=True)
        ctx.check(not any(n in back for n, _ in sets), "C07.SECT", f"{dec.qual}/dels-last", dec.loc(), "deletions are applied after all sets",
                  "a _set_path is reachable after deletions started")
    # what is patched is a TREE copy of the base: not the caller's object, not a shallow copy, and not copy.deepcopy either -
    # deepcopy keeps sharing, so a dict that sits at two places of the base (the loader leaves the same GEL dict under
    # state["graph"] and state["gel"]) is one object in the copy and a path written below one place appears below the other
    rdd = ctx.rd(dec)
    patched = {c.args[0].id for _, c in sets + dels if c.args and isinstance(c.args[0], ast.Name)}
    defs = [d for nm in patched for d in rdd.all_defs if d.name == nm and d.kind != "mutate"]
    why = None
    if not defs:
        why = "the patched object has no local definition (the caller's base is patched in place)"
    for d in defs:
        v = d.value
        while isinstance(v, ast.BoolOp):
            v = v.values[0]
        inner = v
        if not isinstance(inner, ast.Call):
            why = why or f"`{src(d.value)[:40] if d.value is not None else d.kind}` is not a copy"
            continue
        dn = dotted(inner.func) or ""
        if dn in ("copy.deepcopy", "deepcopy"):
            why = why or f"`{src(inner)[:40]}` keeps sharing inside the copy (one object at two places of the base stays one object)"
        elif dn in ("copy.copy", "dict", "copy") or (isinstance(inner.func, ast.Attribute) and inner.func.attr == "copy"):
            why = why or f"`{src(inner)[:40]}` is a shallow copy: nested containers of the caller's base are patched in place"
        elif dn in ("json.loads",):
            pass
        else:
            r = ctx.prog.callee(dec, inner)
            cal = ctx.prog.funcs.get(r[1]) if r and r[0] == "func" else None
            rec = cal is not None and any(isinstance(y, ast.Call) and isinstance(y.func, ast.Name) and y.func.id == cal.name for y in walk_no_defs(cal.node)) \
                and any(isinstance(y, (ast.DictComp, ast.Dict)) for y in walk_no_defs(cal.node))
            if not rec:
                why = why or f"`{src(inner)[:40]}` is not a recursive rebuild of the base"
    ctx.check(why is None, "C07.SECT", f"{dec.qual}/patches-a-tree-copy", dec.loc(), "the delta is applied to a copy of the base in which every place holds an object of its own",
              f"apply_delta patches something else than a tree copy of the base: {why} - apply_delta(base, compute_delta(base, curr)) != curr for a base in which one dict sits at two places, "
              "or the caller's baseline is edited")


# ------------------------------------------------------------------ STATE
BODY_KEYS = {"version_etag", "store", "gel", "graph"}


def _payload_vars(ctx, fn: Func):
    """names bound as 2nd element of `h, p = _read_header_payload(x)` with their def nodes"""
    cfg = ctx.cfg(fn)
    out = []
    for n in cfg.nodes:
        if n.kind == "stmt" and isinstance(n.ast, ast.Assign) and isinstance(n.ast.value, ast.Call) \
                and (dotted(n.ast.value.func) or "").endswith("_read_header_payload"):
            t = n.ast.targets[0]
            if isinstance(t, ast.Tuple) and len(t.elts) == 2 and isinstance(t.elts[1], ast.Name):
                h = t.elts[0].id if isinstance(t.elts[0], ast.Name) else None
                out.append((n, h, t.elts[1].id, n.ast.value.args[0] if n.ast.value.args else None))
    return out


def _is_delta_mode_test(e: ast.AST, header: Optional[str]) -> bool:
    if isinstance(e, ast.Compare) and len(e.ops) == 1 and isinstance(e.ops[0], ast.Eq):
        sides = [e.left, e.comparators[0]]
        if any(const_str(s) == "delta" for s in sides):
            other = [s for s in sides if const_str(s) != "delta"][0]
            names = {x.id for x in ast.walk(other) if isinstance(x, ast.Name)}
            consts = {x.value for x in ast.walk(other) if isinstance(x, ast.Constant)}
            return "mode" in consts and (header is None or header in names)
    return False


def _state_rule(ctx, fn: Func) -> None:
    cfg = ctx.cfg(fn)
    rd = ctx.rd(fn)
    pv = _payload_vars(ctx, fn)
    ctx.floor("C07.STATE", f"payload reads in {fn.name}", len(pv), 1)
    by_var: Dict[str, List] = {}
    for n, h, v, patharg in pv:
        by_var.setdefault(v, []).append((n, h, patharg))
    for var, defs in by_var.items():
        headers = {h for _, h, _ in defs if h and h != "_"}
        defnodes = {n: (h, p) for n, h, p in defs}

        def path_is_delta(n, p) -> bool:
            if p is None:
                return False
            sl = rd.slice([p], n)
            return any(isinstance(c, str) and ".delta" in c for c in sl.constants())

        def step(n, s, lab, t):
            if n.kind == "branch":
                test = n.ast
                if isinstance(test, ast.AST):
                    for a_, pol in _atoms(test, n.label == "T"):
                        if _is_delta_mode_test(a_, None) and any(h in {x.id for x in ast.walk(a_) if isinstance(x, ast.Name)} for h in headers):
                            if pol and s == "RAW":
                                return ["DELTA"]
                            if (not pol) and s == "RAW":
                                return ["OK"]
                return [s]
            if lab == "exc":
                return [s]
            if n in defnodes:
                h, p = defnodes[n]
                if path_is_delta(n, p):
                    return ["DELTA"]
                if h in (None, "_"):
                    return ["OK"]  # header discarded: the file was selected as a *.full baseline
                return ["RAW"]
            for d in rd.defs.get(n, []):
                if d.name == var and d.kind in ("assign", "unpack", "walrus"):
                    return ["OK"]
            return [s]

        def uses_as_body(n) -> Optional[str]:
            a = n.ast
            if n.kind == "stmt" and isinstance(a, ast.Return) and a.value is not None:
                # returned directly (possibly `x or {}`), not as an argument of apply_delta
                v = a.value
                if isinstance(v, ast.BoolOp):
                    v = v.values[0]
                if isinstance(v, ast.Name) and v.id == var:
                    return f"returned as the snapshot body (`{src(a)}`)"
            if n.kind in ("stmt", "cond"):
                for x in walk_no_defs(a):
                    if isinstance(x, ast.Call) and isinstance(x.func, ast.Attribute) and x.func.attr == "get" and x.args \
                            and const_str(x.args[0]) in BODY_KEYS:
                        names = {y.id for y in ast.walk(x.func.value) if isinstance(y, ast.Name)}
                        if var in names:
                            return f"read as a snapshot body (`{src(x)[:50]}`)"
            return None

        def bad(n, s):
            if s == "DELTA":
                u = uses_as_body(n)
                if u:
                    return f"`{var}` still holds a raw delta blob when it is {u}"
            return None

        visited, wit = explore(cfg, ["OK"], step, bad)
        key = f"{fn.qual}/delta-used-as-body:{var}"
        if wit:
            msg, path = wit[0]
            ctx.violation("C07.STATE", key, fn.loc(path[-1][0].ast), msg, ctx.path_witness(fn, [x for x, _ in path]))
        else:
            ctx.holds("C07.STATE", key, fn.loc(),
                      f"`{var}` is never used as a body while in state DELTA ({len(visited)} product states; only apply_delta/reassignment leaves DELTA)")


def _atoms(test: ast.AST, pol: bool):
    out = []
    if isinstance(test, ast.UnaryOp) and isinstance(test.op, ast.Not):
        return _atoms(test.operand, not pol)
    if isinstance(test, ast.BoolOp):
        if (isinstance(test.op, ast.And) and pol) or (isinstance(test.op, ast.Or) and not pol):
            for v in test.values:
                out += _atoms(v, pol)
            return out
        return []
    return [(test, pol)]


def rule_state(ctx) -> None:
    _state_rule(ctx, ctx.func(SNAP + ":read_snapshot"))
    _state_rule(ctx, ctx.func(SNAP + ":load_latest_snapshot"))
    # apply_delta is the only reconstruction: both readers call it with (baseline payload, delta payload)
    for q in (SNAP + ":read_snapshot", SNAP + ":load_latest_snapshot"):
        fn = ctx.func(q)
        calls = find_calls(ctx, fn, lambda c, nm: nm.endswith(":apply_delta") or call_tail(c) == "apply_delta")
        ctx.check(bool(calls), "C07.STATE", f"{q}/reconstructs", fn.loc(), f"{len(calls)} apply_delta reconstruction site(s)",
                  "the reader never reconstructs a delta through apply_delta")


# ------------------------------------------------------------------ WFALL
def rule_wfall(ctx) -> None:
    fn = ctx.func(SNAP + ":write_snapshot_auto")
    cfg = ctx.cfg(fn)
    rd = ctx.rd(fn)
    writes = find_calls(ctx, fn, lambda c, nm: nm.endswith(":_write_lines"))
    ctx.floor("C07.WFALL", "_write_lines sites", len(writes), 2)
    payload_p = "payload"
    n_delta = 0
    for n, c in writes:
        hdr = rd.inline(c.args[1], n) if len(c.args) > 1 else None
        mode = None
        if isinstance(hdr, ast.Dict):
            for k, v in zip(hdr.keys, hdr.values):
                if const_str(k) == "mode":
                    mode = const_str(v)
        key = f"{fn.qual}/write:{mode}"
        if mode == "delta":
            n_delta += 1
            # (a) guarded by the baseline having been found
            found = False
            for e, pol, at in implied_atoms(ctx, fn, n):
                names = {x.id for x in ast.walk(e) if isinstance(x, ast.Name)}
                for nm in names:
                    for d in rd.reaching(nm, at):
                        if d.value is not None and isinstance(d.value, ast.Call) and (dotted(d.value.func) or "").endswith("_find_snapshot_file"):
                            txt = src(d.value)
                            isnot_none = (isinstance(e, ast.Compare) and isinstance(e.ops[0], ast.IsNot) and pol) or \
                                         (isinstance(e, ast.Compare) and isinstance(e.ops[0], ast.Is) and not pol) or (isinstance(e, ast.Name) and pol)
                            if ".full" in txt and isnot_none:
                                found = True
            ctx.check(found, "C07.WFALL", key + "/baseline-found", fn.loc(c),
                      "the delta header is written only where _find_snapshot_file(..'.full') returned a path",
                      "a delta header can be written although no baseline file was found (reader cannot reconstruct)")
            # (b) the baseline was read and diffed against the payload
            readn = [x for x, cc in find_calls(ctx, fn, lambda c2, nm: nm.endswith(":_read_header_payload") or nm.endswith(":_read_baseline_payload"))]
            ctx.check(any(cfg.dominates(x, n) for x in readn), "C07.WFALL", key + "/baseline-read", fn.loc(c),
                      "the baseline payload is read before the delta is written", "delta written without reading the baseline")
            body = c.args[2] if len(c.args) > 2 else None
            sl = rd.slice([body], n) if body is not None else None
            okb = sl is not None and any((dotted(cc.func) or "").endswith("compute_delta") for cc in sl.calls()) and payload_p in sl.params
            ctx.check(okb, "C07.WFALL", key + "/body-is-diff", fn.loc(c), "delta body = compute_delta(baseline payload, payload)",
                      "delta body is not the diff of the baseline against the payload")
        elif mode == "full":
            body = c.args[2] if len(c.args) > 2 else None
            sl = rd.slice([body], n) if body is not None else None
            okb = sl is not None and payload_p in sl.params and not any((dotted(cc.func) or "").endswith("compute_delta") for cc in sl.calls())
            ctx.check(okb, "C07.WFALL", key + "/body-is-payload", fn.loc(c), "full body = canonical JSON of the payload itself",
                      "a full-mode header is written with a body that is not the payload")
        else:
            ctx.undecided("C07.WFALL", key, fn.loc(c), f"header mode not a constant: {src(hdr)[:60] if hdr is not None else ''}")
    # exactly one file per call
    wn = {n for n, _ in writes}

    def step(n, s, lab, t):
        if n in wn and lab != "exc":
            return [min(2, s + 1)]
        return [s]

    visited, wit = explore(cfg, [0], step, lambda n, s: (f"normal return after {s} snapshot writes" if n is cfg.exit and s != 1 else None))
    ctx.check(not wit, "C07.WFALL", f"{fn.qual}/exactly-one-write", fn.loc(), "every normal path writes exactly one snapshot file (delta or full fallback)",
              wit[0][0] if wit else "", ctx.path_witness(fn, [x for x, _ in wit[0][1]]) if wit else None)


def _name_suffixes(e: ast.AST) -> Optional[Tuple[str, Set[str]]]:
    """`os.path.join(d, f"{stem}<c>" [+ ("<x>" if .. else "")])` -> (stem expression text, set of constant suffixes)"""
    if not (isinstance(e, ast.Call) and (dotted(e.func) or "").endswith("path.join") and len(e.args) == 2):
        return None
    nm = e.args[1]
    tails = [""]
    if isinstance(nm, ast.BinOp) and isinstance(nm.op, ast.Add):
        r = nm.right
        if isinstance(r, ast.IfExp) and isinstance(r.body, ast.Constant) and isinstance(r.orelse, ast.Constant):
            tails = [str(r.body.value), str(r.orelse.value)]
        elif isinstance(r, ast.Constant):
            tails = [str(r.value)]
        else:
            return None
        nm = nm.left
    if not isinstance(nm, ast.JoinedStr) or not nm.values:
        return None
    head = nm.values[:-1]
    last = nm.values[-1]
    const = str(last.value) if isinstance(last, ast.Constant) else ""
    if not isinstance(last, ast.Constant):
        head = nm.values
    stem = "".join(src(v.value) if isinstance(v, ast.FormattedValue) else str(v.value) for v in head)
    return stem, {const + t for t in tails}


def rule_locator(ctx) -> None:
    """the baseline / sibling locator resolves a stem to exactly the file names the writer produces - never to a prefix
    match or a directory listing (a `.meta` sidecar or a leftover temp next to a missing body would become 'the baseline')"""
    fn = ctx.func(SNAP + ":_find_snapshot_file")
    cfg = ctx.cfg(fn)
    rd = ctx.rd(fn)
    found: Set[str] = set()
    bad: List[Tuple[ast.AST, str]] = []
    n_ret = 0
    for n in cfg.nodes:
        if n.kind != "stmt" or not isinstance(n.ast, ast.Return) or n not in cfg.reachable_from_entry():
            continue
        v = n.ast.value
        if v is None or (isinstance(v, ast.Constant) and v.value is None):
            continue
        n_ret += 1
        e = v
        if isinstance(v, ast.Name):
            uv = rd.unique_value(v.id, n)
            e = uv[0] if uv is not None else v
        ns = _name_suffixes(e)
        if ns is None or ns[0] != "stem":
            bad.append((v, f"returns `{src(e)[:60]}`, which is not os.path.join(root, f\"{{stem}}<constant suffix>\")"))
            continue
        found |= ns[1]
        guarded = any(pol and "isfile" in t and src(v) in t for t, pol in cfg.facts(n))
        if not guarded:
            bad.append((v, f"returns `{src(v)}` without an os.path.isfile test of that exact path"))
    for x in walk_no_defs(fn.node):
        if isinstance(x, ast.Call):
            d = dotted(x.func) or ""
            if d.endswith("listdir") or d.endswith("scandir") or d.endswith("glob") or (isinstance(x.func, ast.Attribute) and x.func.attr in ("iterdir", "startswith", "endswith", "glob", "rglob", "match", "fnmatch")):
                bad.append((x, f"`{src(x)[:50]}`: resolves the stem by listing / pattern match instead of by exact name"))
    if not bad:
        ctx.floor("C07.STATE", "non-None returns of _find_snapshot_file", n_ret, 2)
    ctx.check(not bad, "C07.STATE", f"{fn.qual}/exact-names", fn.loc(bad[0][0]) if bad else fn.loc(),
              f"resolves a stem only to the exact names stem+{sorted(found)}, each tested with isfile",
              (bad[0][1] if bad else "") + ": a sidecar (`.meta`) or leftover temp file next to a missing body is taken for the baseline and the delta is applied onto it")
    # writer / locator table agreement
    w = ctx.func(SNAP + ":write_snapshot_auto")
    wrd = ctx.rd(w)
    written: Set[str] = set()
    for n, c in find_calls(ctx, w, lambda c, nm: nm.endswith(":_write_lines")):
        e = rd_inline = wrd.inline(c.args[0], n, depth=1) if c.args else None
        ns = _name_suffixes(e) if e is not None else None
        if ns is None:
            ctx.undecided("C07.STATE", ctx.okey(f"{w.qual}/written-name"), w.loc(c), f"written path not of the form join(dir, f-string + suffix): {src(e)[:60] if e is not None else ''}")
            continue
        for suf in ns[1]:
            # ".full.json" / ".delta.json.zst" -> the part after the mode word
            for mode in (".full", ".delta"):
                if suf.startswith(mode):
                    written.add(suf[len(mode):])
    ctx.check(bool(written) and written == found, "C07.STATE", "locator/writer-suffix-agreement", fn.loc(),
              f"locator suffixes {sorted(found)} == suffixes the writer produces {sorted(written)}",
              f"the locator looks for {sorted(found)} but the writer produces {sorted(written)}: a written snapshot cannot be found (or a never-written name is accepted)")


def rule_framing(ctx) -> None:
    """snapshot files are `header\\nbody`; the reader separates them with str.splitlines(), which also breaks at U+2028,
    U+2029, U+0085 and the ASCII separators.  That is injective only while the writer's serialiser escapes every non-ASCII
    character (json.dumps default ensure_ascii=True; control characters are always escaped): a serialiser reached from
    _canonical_json that passes ensure_ascii=False lets a key or string containing U+2028 cut the body in two."""
    rdr = ctx.func(SNAP + ":_read_header_payload")
    wide = [x for x in walk_no_defs(rdr.node) if isinstance(x, ast.Call) and call_tail(x) == "splitlines"]
    narrow = [x for x in walk_no_defs(rdr.node) if isinstance(x, ast.Call) and call_tail(x) == "split" and x.args and const_str(x.args[0]) == "\n"]
    ctx.floor("C07.CODEC", "line split sites in the snapshot reader", len(wide) + len(narrow), 1)
    cj = ctx.func(SNAP + ":_canonical_json")
    seen, work, dumps = set(), [cj], []
    for _ in range(3):
        nxt = []
        for f in work:
            if f.qual in seen:
                continue
            seen.add(f.qual)
            for x in walk_no_defs(f.node):
                if isinstance(x, ast.Call):
                    if (dotted(x.func) or "").endswith("json.dumps") or dotted(x.func) == "dumps":
                        dumps.append((f, x))
                    else:
                        cal = ctx.prog.callee(f, x)
                        if cal is not None and cal[0] == "func" and cal[1] in ctx.prog.funcs:
                            nxt.append(ctx.prog.funcs[cal[1]])
        work = nxt
    ctx.floor("C07.CODEC", "json.dumps calls reached from _canonical_json", len(dumps), 1)
    raw = [(f, x) for f, x in dumps if any(k.arg == "ensure_ascii" and not (isinstance(k.value, ast.Constant) and k.value.value is True) for k in x.keywords)]
    ok = not wide or not raw
    ctx.check(ok, "C07.CODEC", f"{cj.qual}/line-framing-injective", raw[0][0].loc(raw[0][1]) if raw else cj.loc(),
              ("the reader splits only at \\n" if not wide else "every serialiser behind _canonical_json escapes non-ASCII, so the body never contains a character str.splitlines() breaks at"),
              (f"`{src(raw[0][1])[:70]}` (reached from _canonical_json via {raw[0][0].name}) emits raw non-ASCII while _read_header_payload separates header and body with str.splitlines(): "
               "a key or string containing U+2028 / U+2029 / U+0085 splits the body, the reader raises (or loads nothing) although baseline and delta are on disk") if raw else "")


def rule_pure(ctx) -> None:
    """reconstruction is a function of (base, delta) alone: the codec keeps no state between calls.  Module-level containers
    written from its functions, or a memoised helper whose cached list a caller edits in place (`keys.pop()` on the result of a
    cached path split), make the second application of the same path in one process differ from the first."""
    from .. import hazards
    from ..util import module_state_writes
    mods = [SD, SNAP]
    n_fn = sum(len(ctx.prog.module(m).funcs) for m in mods)
    ws = [w for m in [SD] for w in module_state_writes(ctx, m)]
    for fn, node, name, how in ws:
        ctx.violation("C07.CODEC", ctx.okey(f"{fn.qual}/codec-keeps-state"), fn.loc(node),
                      f"{fn.name} {how} the module-level `{name}`: the delta codec carries state from one reconstruction to the next")
    memo, hits = hazards.memo_shared_mutation(ctx, mods)
    for caller, node, target in hits:
        ctx.violation("C07.CODEC", ctx.okey(f"{caller.qual}/edits-memoised-result"), caller.loc(node),
                      f"`{src(node)[:50]}` edits in place the container returned by the memoised {target.name}(): the cached value is damaged, so the next reconstruction "
                      "that meets the same path writes to (or deletes from) the wrong place - silently")
    ctx.floor("C07.CODEC", "functions of the delta codec and the snapshot module", n_fn, 30)
    ctx.holds("C07.CODEC", "codec/stateless", "clematis/engine/util/snapshot_delta.py",
              f"{n_fn} functions: {len(ws)} writes to module-level state in the codec, {len(memo)} memoised helpers with a mutable result, {len(hits)} in-place edits of such a result; "
              + hazards.controls(ctx, "clematis.engine.health", ["memo"]))


def rule_usable_baseline(ctx) -> None:
    """"baseline present / missing / corrupt": a baseline file that exists but is not a readable full snapshot (truncated after
    its header, not JSON, body not an object) must be treated like a missing one - never diffed against, never patched.  Every
    first argument of apply_delta / compute_delta in the reader and the writer comes from the one baseline reader, is used
    only where it is not None, and that reader returns a payload only for a two-part file whose header says mode full and
    whose body is an object."""
    br = ctx.prog.funcs.get(SNAP + ":_read_baseline_payload")
    if br is None:
        ctx.violation("C07.STATE", f"{SNAP}/baseline-reader", "clematis/engine/snapshot.py", "there is no single baseline reader that rejects unusable baseline files: a truncated or corrupt baseline is "
                      "parsed by the generic header/payload reader, whose single-JSON fallback hands the HEADER back as the payload")
        return
    ctx.analysed_funcs.add(br.qual)
    tests = " ".join(src(x.test) for x in walk_no_defs(br.node) if isinstance(x, ast.If)).replace("not ", "")
    guarded_read = any(isinstance(x, ast.Try) and any(isinstance(c, ast.Call) and call_tail(c) == "_read_header_payload" for b in x.body for c in ast.walk(b)) for x in walk_no_defs(br.node))
    # roles: (header, payload) = _read_header_payload(path)
    hv = pv = None
    for x in walk_no_defs(br.node):
        if isinstance(x, ast.Assign) and isinstance(x.value, ast.Call) and call_tail(x.value) == "_read_header_payload" and isinstance(x.targets[0], ast.Tuple) and len(x.targets[0].elts) == 2:
            hv, pv = src(x.targets[0].elts[0]), src(x.targets[0].elts[1])
    ok_checks = guarded_read and hv is not None and f"isinstance({hv}, dict)" in tests and "'full'" in tests and f"{hv}.get('mode')" in tests and f"isinstance({pv}, dict)" in tests
    ctx.check(ok_checks, "C07.STATE", f"{br.qual}/accepts-only-full-object-bodies", br.loc(),
              "the baseline reader catches parse errors and returns a payload only for header.mode == 'full' with an object body",
              "the baseline reader does not reject every unusable file (parse error / missing header / mode other than full / non-object body)")
    n_uses = 0
    for q in (SNAP + ":read_snapshot", SNAP + ":write_snapshot_auto", SNAP + ":load_latest_snapshot"):
        fn = ctx.func(q)
        cfg = ctx.cfg(fn)
        rd = ctx.rd(fn)
        for n in cfg.nodes:
            for c in node_calls(n):
                if call_tail(c) not in ("apply_delta", "compute_delta") or not c.args:
                    continue
                n_uses += 1
                a0 = c.args[0]
                nm = a0.id if isinstance(a0, ast.Name) else None
                ds = [d for d in rd.reaching(nm, n) if d.kind != "mutate"] if nm else []
                from_reader = bool(ds) and all(d.value is not None and any(isinstance(z, ast.Call) and call_tail(z) == "_read_baseline_payload" for z in ast.walk(d.value)) for d in ds)
                notnone = any((pol and t == f"{nm} is not None") or ((not pol) and t == f"{nm} is None") for t, pol in cfg.facts(n)) if nm else False
                ctx.check(from_reader and notnone, "C07.STATE", ctx.okey(f"{fn.qual}/baseline-usable-before-use"), fn.loc(c),
                          f"`{src(a0)}` comes from the baseline reader and is used only where it is not None",
                          f"`{src(c)[:60]}` uses a baseline that did not pass the usability check (from _read_baseline_payload, and not None): a truncated or corrupt baseline is diffed against / "
                          "patched, giving a wrongly reconstructed state or an unreadable delta instead of the full-snapshot fallback")
    ctx.floor("C07.STATE", "uses of a baseline payload (apply_delta / compute_delta)", n_uses, 4)
    # the OTHER operand: what is applied is a delta object.  A delta file whose body is not an object (torn after a falsy token,
    # `null`) must count as unusable - `apply_delta(base, payload or {})` reads it as "no changes" and hands the BASELINE back
    # as the snapshot of the later version.
    n_ops = 0
    for q in (SNAP + ":read_snapshot", SNAP + ":load_latest_snapshot"):
        fn = ctx.func(q)
        cfg = ctx.cfg(fn)
        rd = ctx.rd(fn)
        for n in cfg.nodes:
            for c in node_calls(n):
                if call_tail(c) != "apply_delta" or len(c.args) < 2:
                    continue
                n_ops += 1
                a1 = c.args[1]
                coerced = isinstance(a1, ast.BoolOp) and isinstance(a1.op, ast.Or)
                nm = a1.id if isinstance(a1, ast.Name) else None
                checked = False
                if nm:
                    sl = rd.slice([a1], n, control=True)
                    tests = [t for t, _pol, _b in sl.ctrl] + [e for e, _ in sl.exprs]
                    checked = any(isinstance(y, ast.Call) and dotted(y.func) == "isinstance" and len(y.args) == 2 and isinstance(y.args[0], ast.Name) and y.args[0].id == nm
                                  and "dict" in src(y.args[1]) or (isinstance(y, ast.Call) and dotted(y.func) == "isinstance" and len(y.args) == 2 and "Mapping" in src(y.args[1]) and isinstance(y.args[0], ast.Name) and y.args[0].id == nm)
                                  for t in tests for y in ast.walk(t))
                ctx.check(checked and not coerced, "C07.STATE", ctx.okey(f"{fn.qual}/delta-operand-is-an-object"), fn.loc(c), f"`{src(a1)}` is applied only where it is known to be an object",
                          f"`{src(c)[:70]}` applies whatever the delta file's body parsed to ({'a falsy body is read as `no changes`' if coerced else 'never tested to be an object'}): a damaged delta (body `null`, "
                          "cut off after a falsy token) returns the baseline's payload as the snapshot of the later version - a state that version never had - instead of the full snapshot / absence")
    ctx.floor("C07.STATE", "apply_delta sites of the readers", n_ops, 3)
    # the baseline is the version the delta was made from: the reader takes the expected etag and compares it with the
    # file's own header, and every caller passes it (a full snapshot of another version under the baseline's name - a
    # wrong backup restored - would otherwise be patched into a state that never existed)
    ps = [p for p in br.params]
    cmp_ok = False
    for x in walk_no_defs(br.node):
        if isinstance(x, ast.Compare) and any(isinstance(o, (ast.NotEq, ast.Eq)) for o in x.ops):
            names = {y.id for y in ast.walk(x) if isinstance(y, ast.Name)}
            if hv and hv in names and any(p in names for p in ps[1:]) and any(isinstance(y, ast.Constant) and isinstance(y.value, str) and "etag" in y.value for y in ast.walk(x)):
                cmp_ok = True
    ctx.check(cmp_ok, "C07.STATE", f"{br.qual}/baseline-is-the-delta-s-own", br.loc(), "the baseline reader compares the file's etag with the version the delta names",
              "the baseline reader never compares the baseline header's etag_to with the delta's delta_of: a full snapshot of another version stored under the baseline's name is used silently and "
              "the reconstructed payload is a state that never existed")
    n_calls = 0
    for fn in ctx.prog.module(SNAP).funcs.values():
        for x in walk_no_defs(fn.node):
            if isinstance(x, ast.Call) and call_tail(x) == "_read_baseline_payload" and fn.qual != br.qual:
                # the fallback FULL of the wanted version is read through the same reader (usability only): its name is built from etag_to
                is_fallback = any(isinstance(y, ast.Return) and any(z is x for z in ast.walk(y)) for y in walk_no_defs(fn.node))
                if is_fallback:
                    continue
                n_calls += 1
                ctx.check(len(x.args) + len(x.keywords) >= 2, "C07.STATE", ctx.okey(f"{fn.qual}/baseline-etag-passed"), fn.loc(x), f"`{src(x)[:60]}` names the version it expects",
                          f"`{src(x)[:60]}` does not say which version the baseline must be: a mislabelled baseline is patched")
    ctx.floor("C07.STATE", "baseline reads that name the expected version", n_calls, 4)
    # ... and the CONTENT the delta was made from: version etags are small counters that start again with every fresh state, so
    # two histories sharing a directory reuse them - the file under the baseline's name may be another history's snapshot of
    # the same etag.  The writer records something computed from the baseline payload in the delta header, the baseline reader
    # takes it and compares, and every reader of a delta passes it on from the header.
    wa = ctx.func(SNAP + ":write_snapshot_auto")
    rdw = ctx.rd(wa)
    cfgw = ctx.cfg(wa)
    base_names = set()
    for n in cfgw.nodes:
        for c in node_calls(n):
            if call_tail(c) == "compute_delta" and c.args and isinstance(c.args[0], ast.Name):
                base_names.add(c.args[0].id)
    digest_keys = set()
    for x in walk_no_defs(wa.node):
        if isinstance(x, ast.Dict) and any(const_str(k) == "mode" and const_str(v) == "delta" for k, v in zip(x.keys, x.values)):
            for k, v in zip(x.keys, x.values):
                if const_str(k) and any(isinstance(y, ast.Name) and y.id in base_names for y in ast.walk(v)) and any(isinstance(y, ast.Call) for y in ast.walk(v)):
                    digest_keys.add(const_str(k))
    ctx.check(bool(digest_keys), "C07.STATE", f"{wa.qual}/delta-records-its-baseline-content", wa.loc(), f"the delta header records {sorted(digest_keys)} computed from the baseline payload",
              "the delta header names its baseline by etag only: after another history (a fresh state starts again at etag 1) has overwritten the file of that name, the reader applies the delta to "
              "a payload it was not made from and returns a state that never existed")
    if digest_keys:
        takes = any(isinstance(x, ast.Compare) and any(isinstance(y, ast.Name) and y.id in ps[2:] for y in ast.walk(x)) for x in walk_no_defs(br.node)) if len(ps) >= 3 else False
        ctx.check(takes, "C07.STATE", f"{br.qual}/baseline-content-compared", br.loc(), "the baseline reader compares the recorded content digest with the file it read",
                  "the baseline reader takes no content digest / never compares it: a baseline of the right etag but of another history is accepted")
        for fn in ctx.prog.module(SNAP).funcs.values():
            if fn.qual in (br.qual, wa.qual):
                continue
            for x in walk_no_defs(fn.node):
                if isinstance(x, ast.Call) and call_tail(x) == "_read_baseline_payload" and len(x.args) + len(x.keywords) >= 2 \
                        and not any(isinstance(y, ast.Return) and any(z is x for z in ast.walk(y)) for y in walk_no_defs(fn.node)):
                    rest = list(x.args[2:]) + [k.value for k in x.keywords]
                    passed = any(any(const_str(z) in digest_keys for z in ast.walk(a)) for a in rest)
                    ctx.check(passed, "C07.STATE", ctx.okey(f"{fn.qual}/baseline-content-passed"), fn.loc(x), f"`{src(x)[:70]}` passes the delta header's {sorted(digest_keys)}",
                              f"`{src(x)[:70]}` does not pass the delta header's {sorted(digest_keys)}: this reader applies the delta to whatever full snapshot of that etag the directory holds")
    # a file that holds only its header line is torn: the generic reader must not hand the header back as a body
    rh = ctx.func(SNAP + ":_read_header_payload")
    cfgh = ctx.cfg(rh)
    rets = [n for n in cfgh.nodes if n.kind == "stmt" and isinstance(n.ast, ast.Return) and isinstance(n.ast.value, ast.Tuple) and len(n.ast.value.elts) == 2
            and isinstance(n.ast.value.elts[0], ast.Constant) and n.ast.value.elts[0].value is None]
    ctx.floor("C07.STATE", "single-JSON fallback returns of the header/payload reader", len(rets), 1)
    for n in rets:
        body = src(n.ast.value.elts[1])
        rejecting = [m for m in cfgh.nodes if m.kind == "stmt" and isinstance(m.ast, ast.Raise)
                     and any(body in t and ("'mode'" in t or "'schema'" in t or "'etag_to'" in t) and pol for t, pol in cfgh.facts(m))]
        ok = bool(rejecting) and all(cfgh.path([cfgh.entry], lambda z: z is n, avoid=lambda z: False) is not None for _ in [0]) and \
            any(("'mode'" in t or "'schema'" in t) for t, pol in cfgh.facts(n)) or bool(rejecting)
        ctx.check(ok, "C07.STATE", f"{rh.qual}/lone-header-is-not-a-body", rh.loc(n.ast), "a file whose only JSON value is a snapshot header is rejected, not returned as (None, body)",
                  "the single-JSON fallback returns whatever the file holds as the body: a full or delta file cut off after its header line comes back as (None, header) and the reader returns the "
                  "header dict as the payload")
    # the codec is settled before the file name and the header are made
    wa = ctx.func(SNAP + ":write_snapshot_auto")
    cfgw = ctx.cfg(wa)
    avail = [n for n in cfgw.nodes if n.kind in ("cond", "branch") and n.ast is not None and "_zstd" in src(n.ast) and "None" in src(n.ast)]
    names = [n for n in cfgw.nodes if n.kind == "stmt" and any(isinstance(y, ast.Constant) and isinstance(y.value, str) and ".zst" in y.value for y in ast.walk(n.ast))]
    ctx.floor("C07.STATE", "file names that depend on the codec", len(names), 2)
    settled = bool(avail) and all(any(cfgw.dominates(a, n) for a in avail) for n in names)
    ctx.check(settled, "C07.STATE", f"{wa.qual}/codec-settled-before-naming", wa.loc(names[0].ast) if names else wa.loc(),
              "the availability of zstandard is decided before the .zst name and the header's codec field are built",
              "the file name (.json.zst) and the header (codec: zstd) are built from the REQUESTED codec while _write_lines silently degrades to plain text when zstandard is missing: plain text lands "
              "under a .zst name, which the reader refuses - the snapshot just written cannot be read back")


def rule_exact_leaves(ctx) -> None:
    """"yields current exactly": whether a leaf changed is decided on its JSON value, not with Python's == / != alone - those
    equate 0 / False, 1 / 1.0 / True, 0.0 / -0.0 and [1] / [True], so the change would get no entry and the rebuilt payload keeps
    the base value.  Every test that decides 'modified' in the diff walker combines the comparison with a serialisation-level
    (json.dumps) or type-level check."""
    fn = ctx.func(SD + ":_walk_diff")
    n_dec = 0
    for x in walk_no_defs(fn.node):
        if not isinstance(x, ast.If):
            continue
        stores = [y for st in x.body for y in walk_no_defs(st) if isinstance(y, ast.Assign) and any(isinstance(t, ast.Subscript) for t in y.targets)]
        cmps = [c for c in ast.walk(x.test) if isinstance(c, ast.Compare) and len(c.ops) == 1 and isinstance(c.ops[0], (ast.NotEq, ast.Eq)) and all(isinstance(z, ast.Name) for z in (c.left, c.comparators[0]))]
        if not stores or not cmps:
            continue
        n_dec += 1
        exact = False
        for c in ast.walk(x.test):
            if isinstance(c, ast.Call):
                if call_tail(c) in ("dumps", "type"):
                    exact = True
                r = ctx.prog.callee(fn, c)
                if r and r[0] == "func" and r[1] in ctx.prog.funcs and any(isinstance(z, ast.Call) and call_tail(z) in ("dumps", "type") for z in ast.walk(ctx.prog.funcs[r[1]].node)):
                    exact = True
        ctx.check(exact, "C07.CODEC", ctx.okey(f"{fn.qual}/leaf-change-decided-on-json-value"), fn.loc(x.test),
                  f"`{src(x.test)[:60]}`: the comparison is combined with a serialisation / type level check",
                  f"a leaf counts as modified only if `{src(x.test)[:40]}`: Python's != equates 0 / False, 1 / 1.0 / True, 0.0 / -0.0 and [1] / [True], so such a change gets no entry in the delta "
                  "and the payload rebuilt from it keeps the base value - not the current payload exactly")
    ctx.floor("C07.CODEC", "leaf 'modified' decisions in the diff walker", n_dec, 1)


def run(ctx) -> None:
    rule_exact_leaves(ctx)
    rule_usable_baseline(ctx)
    rule_pure(ctx)
    rule_codec(ctx)
    rule_framing(ctx)
    rule_sect(ctx)
    rule_state(ctx)
    rule_locator(ctx)
    rule_wfall(ctx)
