"""C13 Planning and speaking stay within caps; untrusted plans are sanitised."""
from __future__ import annotations

import ast
from typing import Dict, List, Optional, Set, Tuple

from ..effects import Effects
from ..model import AnalysisError, Func, const_str, dotted, kwarg, src, walk_no_defs
from ..util import call_tail, enclosing, find_calls, guarded_by_catch_all, node_calls

EXPLANATION = (
    "C13 decided statically: (CAP) in deliberate and rag_once the op list handed to Plan(...) passes, on every path, the "
    "`len(ops) > caps_ops -> ops[:caps_ops]` truncation with caps_ops = min(per-turn cap, per-slice cap) and no append "
    "afterwards; the first appended op is a Speak op; (RR) the RequestRetrieve constructor is control-dependent on "
    "s_max < tau_low and the intent follows the two-threshold cascade; (ONCE) run_turn calls rag_once at one site outside "
    "any loop under `requested_retrieve and max_rag_loops >= 1`, and rag_once calls its retrieve function at one site "
    "outside any loop; (TOK) speak and llm_speak return the first component of _truncate_to_tokens(text, max_tokens) "
    "on every path and that helper counts and cuts with the same tokeniser; (PURE) deliberate and its callees have no "
    "effects and read no clock/RNG/env; (TOTAL) in the plan sanitiser every operation on an untrusted value is dominated by "
    "an isinstance narrowing, short-circuited behind one, or inside try/except Exception; (SCHEMA) the limits are the imported "
    "schema constants, applied to the very values that are returned, and key sets equal the schema's. Not decided: threshold "
    "monotonicity as an I/O law, behaviour of arbitrary LLMs. The utterance filter that runs after speak is decided per rule: "
    "the replacement has no more whitespace tokens than a lower bound of what every match touches (parsed pattern)."
)
RULES = {
    "C13.CAP": "dominance of the truncation over the Plan constructor + no later append; cap provenance",
    "C13.RR": "guard facts of the RequestRetrieve constructor and of the intent assignments",
    "C13.ONCE": "call-site count / loop membership / guard facts of rag_once and retrieve_fn",
    "C13.TOK": "return-value provenance in speak / llm_speak; tokeniser agreement in _truncate_to_tokens",
    "C13.PURE": "effect analysis of deliberate",
    "C13.TOTAL": "may-raise analysis of the sanitiser: narrowing guards on every operation applied to untrusted values",
    "C13.SCHEMA": "limit constants resolve to json_schemas and are compared against the raw returned values; key-set agreement",
}

POLICY = "clematis.engine.stages.t3.policy"
LEGACY = "clematis.engine.stages.t3.legacy"
DIALOGUE = "clematis.engine.stages.t3.dialogue"
SAN = "clematis.engine.policy.sanitize"
SCHEMAS = "clematis.engine.policy.json_schemas"
RUN_TURN = "clematis.engine.orchestrator.core:Orchestrator.run_turn"
CORE_MOD = "clematis.engine.orchestrator.core"


def rule_cap(ctx) -> None:
    for q in (POLICY + ":deliberate", LEGACY + ":rag_once"):
        fn = ctx.func(q)
        cfg = ctx.cfg(fn)
        rd = ctx.rd(fn)
        ctors = [(n, c) for n in cfg.nodes for c in node_calls(n) if call_tail(c) == "Plan" and kwarg(c, "ops") is not None and n in cfg.reachable_from_entry()]
        ctx.floor("C13.CAP", f"Plan(...) constructors in {fn.name}", len(ctors), 1)
        for n, c in ctors:
            ov = kwarg(c, "ops")
            key = f"{fn.qual}/plan-ops-truncated"
            if not isinstance(ov, ast.Name):
                ctx.violation("C13.CAP", key, fn.loc(c), f"Plan(ops={src(ov)[:40]}) is not the truncated local list")
                continue
            X = ov.id
            conds = [m for m in cfg.nodes if m.kind == "cond" and isinstance(m.ast, ast.Compare) and len(m.ast.ops) == 1 and isinstance(m.ast.ops[0], ast.Gt)
                     and src(m.ast.left) == f"len({X})" and cfg.dominates(m, n)]
            ok = False
            capname = None
            for m in conds:
                capname = src(m.ast.comparators[0])
                tb = [t for t, l in m.succ if l == "T"][0]
                trunc = [t for t in cfg.nodes if t.kind == "stmt" and cfg.dominates(tb, t) and isinstance(t.ast, ast.Assign) and src(t.ast.targets[0]) == X
                         and isinstance(t.ast.value, ast.Subscript) and isinstance(t.ast.value.slice, ast.Slice) and t.ast.value.slice.lower is None
                         and t.ast.value.slice.upper is not None and src(t.ast.value.slice.upper) == capname and src(t.ast.value.value) == X]
                # nothing grows X between the test and the constructor
                later_growth = [g for g in cfg.reach([m], include_start=False) if any(d.name == X and d.kind in ("mutate", "aug") for d in rd.defs.get(g, []))
                                and n in cfg.reach([g], include_start=False)]
                # every path from the T branch to the constructor passes the truncation
                p = cfg.path([tb], lambda t: t is n, avoid=lambda t: t in trunc) if trunc else [tb]
                if trunc and p is None and not later_growth:
                    ok = True
            ctx.check(ok, "C13.CAP", key, fn.loc(c), f"Plan.ops is `{X}` after `if len({X}) > {capname}: {X} = {X}[:{capname}]` with no append afterwards",
                      f"on some path Plan(ops={X}) is built without the op list having been truncated to the op cap (or ops are appended after the truncation)")
            if capname:
                cd = [d for d in rd.all_defs if d.name == capname and d.kind == "assign"]
                def _is_min2(v):
                    return isinstance(v, ast.Call) and dotted(v.func) == "min" and len(v.args) == 2

                def _helper_of(d):
                    # extract-function refactor: `cap = helper(bundle)` where every return of helper is min(a, b)
                    if isinstance(d.value, ast.Call) and not _is_min2(d.value):
                        r = ctx.prog.callee(fn, d.value)
                        if r and r[0] == "func" and r[1] in ctx.prog.funcs:
                            h = ctx.prog.funcs[r[1]]
                            rets = [x for x in walk_no_defs(h.node) if isinstance(x, ast.Return)]
                            if rets and all(x.value is not None and _is_min2(x.value) for x in rets):
                                return h
                    return None

                okc = bool(cd) and all(_is_min2(d.value) or _helper_of(d) is not None for d in cd)
                srcs = set()
                for d in cd:
                    h = _helper_of(d)
                    if h is not None:
                        hrd = ctx.rd(h)
                        hcfg = ctx.cfg(h)
                        for hn in hcfg.nodes:
                            if hn.kind == "stmt" and isinstance(hn.ast, ast.Return) and hn.ast.value is not None:
                                srcs |= hrd.slice([hn.ast.value], hn).constants()
                    else:
                        srcs |= rd.slice([d.value], d.node).constants()
                okc = okc and {"ops", "t3_ops"} <= srcs
                ctx.check(okc, "C13.CAP", f"{fn.qual}/cap-is-min-of-turn-and-slice", fn.loc(cd[0].value) if cd else fn.loc(),
                          f"{capname} = min(agent.caps.ops, slice_caps.t3_ops)", f"{capname} is not min(per-turn op cap, per-slice op cap)")
    fn = ctx.func(POLICY + ":deliberate")
    cfg = ctx.cfg(fn)
    ops_names = {src(kwarg(c, "ops")) for c in walk_no_defs(fn.node) if isinstance(c, ast.Call) and call_tail(c) == "Plan" and kwarg(c, "ops") is not None}
    apps = [(n, c) for n in cfg.nodes for c in node_calls(n) if call_tail(c) == "append" and src(c.func.value) in ops_names]
    first = [n for n, c in apps if all(cfg.dominates(n, m) for m, _ in apps)]
    okf = bool(first) and any(isinstance(c.args[0], ast.Call) and call_tail(c.args[0]) == "SpeakOp" for n, c in apps if n in first)
    ctx.check(okf, "C13.CAP", f"{fn.qual}/speak-leads", fn.loc(), "the first (unconditional) append is the Speak op", "the plan is not led by an unconditionally appended Speak op")


def rule_rr(ctx) -> None:
    fn = ctx.func(POLICY + ":deliberate")
    cfg = ctx.cfg(fn)
    rr = [(n, c) for n in cfg.nodes for c in node_calls(n) if call_tail(c) == "RequestRetrieveOp"]
    ctx.floor("C13.RR", "RequestRetrieveOp constructors", len(rr), 1)
    rdf = ctx.rd(fn)
    # roles: evidence = float(<sim_stats>.get("max")), thresholds = <thresholds>["tau_low" / "tau_high"], intent = SpeakOp(intent=...)
    sm = [d for d in rdf.all_defs if d.kind == "assign" and d.value is not None and {"sim_stats", "max"} <= rdf.slice([d.value], d.node).constants() and any(const_str(z) == "max" for z in ast.walk(d.value))]
    s_max = sm[0].name if sm else "s_max"
    def _thr(key):
        return next((d.name for d in rdf.all_defs if d.kind == "assign" and d.value is not None and isinstance(d.value, ast.Subscript) and const_str(d.value.slice) == key), key)
    tau_low, tau_high = _thr("tau_low"), _thr("tau_high")
    intent_names = {src(kwarg(c, "intent")) for c in walk_no_defs(fn.node) if isinstance(c, ast.Call) and call_tail(c) == "SpeakOp" and kwarg(c, "intent") is not None}
    for n, c in rr:
        facts = cfg.facts(n)
        ok = (f"{s_max} < {tau_low}", True) in facts or (f"{s_max} >= {tau_low}", False) in facts
        ctx.check(ok, "C13.RR", f"{fn.qual}/request-only-below-low-threshold", fn.loc(c), "RequestRetrieve is constructed only under s_max < tau_low",
                  "RequestRetrieve can be emitted although the similarity evidence is not below the low threshold")
    want = {"summary": [(f"{s_max} >= {tau_high}", True)], "question": [(f"{s_max} >= {tau_high}", False), (f"{s_max} >= {tau_low}", False)]}
    for n in cfg.nodes:
        if n.kind == "stmt" and isinstance(n.ast, ast.Assign) and src(n.ast.targets[0]) in intent_names:
            v = n.ast.value
            facts = cfg.facts(n)
            s = const_str(v)
            if s in want:
                ok = all(f in facts for f in want[s])
                ctx.check(ok, "C13.RR", f"{fn.qual}/intent:{s}", fn.loc(n.ast), f"intent '{s}' under {want[s]}", f"intent '{s}' is assigned under {sorted(facts)} - not the documented threshold cascade")
            elif isinstance(v, ast.IfExp):
                ok = (f"{s_max} >= {tau_high}", False) in facts and (f"{s_max} >= {tau_low}", True) in facts and {const_str(v.body), const_str(v.orelse)} == {"assertion", "ack"}
                ctx.check(ok, "C13.RR", f"{fn.qual}/intent:mid", fn.loc(n.ast), "assertion/ack between the two thresholds", "the middle intent is not assigned between tau_low and tau_high")
    used = any(isinstance(y, ast.Name) and y.id == s_max for n, c in rr for t, p in cfg.facts(n) for y in ast.walk(ast.parse(t, mode="eval")))
    ctx.check(bool(sm) and used, "C13.RR", f"{fn.qual}/evidence-source", fn.loc(),
              "s_max is the retrieval similarity maximum from the bundle", "s_max is not read from t2.metrics.sim_stats.max")


def rule_once(ctx) -> None:
    rt = ctx.func(RUN_TURN)
    cfg = ctx.cfg(rt)
    sites = [(n, c) for n in cfg.nodes for c in node_calls(n) if call_tail(c) == "rag_once" and n in cfg.reachable_from_entry()]
    ctx.check(len(sites) == 1, "C13.ONCE", f"{rt.qual}/one-rag-site", rt.loc(sites[0][1]) if sites else rt.loc(), "run_turn has exactly one rag_once call site",
              f"run_turn has {len(sites)} rag_once call sites")
    for n, c in sites:
        ctx.check(not cfg.in_loop(n), "C13.ONCE", f"{rt.qual}/rag-not-in-loop", rt.loc(c), "rag_once is outside any loop", "rag_once lies on a CFG cycle: a turn can refine more than once")
        facts = cfg.facts(n)
        ok = ("requested_retrieve", True) in facts and (("max_rag_loops >= 1", True) in facts or ("max_rag_loops > 0", True) in facts)
        ctx.check(ok, "C13.ONCE", f"{rt.qual}/rag-guard", rt.loc(c), "rag_once runs only under requested_retrieve and max_rag_loops >= 1",
                  f"rag_once is guarded by {sorted(a for a, p in facts if p)[:6]}, not by `requested_retrieve and max_rag_loops >= 1`")
        au = kwarg(c, "already_used")
        ctx.check(au is None or (isinstance(au, ast.Constant) and au.value is False), "C13.ONCE", f"{rt.qual}/rag-first-use", rt.loc(c), "already_used=False at the single site", "already_used is not False")
    ro = ctx.func(LEGACY + ":rag_once")
    rcfg = ctx.cfg(ro)
    rs = [(n, c) for n in rcfg.nodes for c in node_calls(n) if isinstance(c.func, ast.Name) and c.func.id == ro.params[2]]
    ctx.check(len(rs) == 1 and not rcfg.in_loop(rs[0][0]), "C13.ONCE", f"{ro.qual}/one-retrieve", ro.loc(rs[0][1]) if rs else ro.loc(),
              "rag_once calls retrieve_fn at one site outside any loop", f"rag_once calls retrieve_fn at {len(rs)} sites / inside a loop")
    if rs:
        facts = rcfg.facts(rs[0][0])
        rrn = {d.name for d in ctx.rd(ro).all_defs if d.kind == "assign" and d.value is not None and isinstance(d.value, ast.Call) and call_tail(d.value) == "_first_request_retrieve_payload"}
        ok = (ro.params[3], False) in facts and any((f"{x} is None", False) in facts or (f"{x} is not None", True) in facts for x in rrn)
        ctx.check(ok, "C13.ONCE", f"{ro.qual}/retrieve-guards", ro.loc(rs[0][1]), "retrieve_fn runs only when not already used and a RequestRetrieve op exists",
                  "retrieve_fn is reachable when already_used is true or without a RequestRetrieve op")


def rule_tok(ctx) -> None:
    for q in (DIALOGUE + ":speak", DIALOGUE + ":llm_speak"):
        fn = ctx.func(q)
        cfg = ctx.cfg(fn)
        rd = ctx.rd(fn)
        rets = [n for n in cfg.nodes if n.kind == "stmt" and isinstance(n.ast, ast.Return) and n in cfg.reachable_from_entry()]
        ctx.floor("C13.TOK", f"returns of {fn.name}", len(rets), 1)
        for r in rets:
            v = r.ast.value
            first = v.elts[0] if isinstance(v, ast.Tuple) and v.elts else v
            ok = False
            why = src(first)
            if isinstance(first, ast.Name):
                ds = [d for d in rd.reaching(first.id, r) if d.kind != "mutate"]
                ok = bool(ds) and all(d.kind == "unpack" and isinstance(d.value, ast.Call) and call_tail(d.value) == "_truncate_to_tokens" and isinstance(d.target, ast.Tuple)
                                      and isinstance(d.target.elts[0], ast.Name) and d.target.elts[0].id == first.id for d in ds)
                if ok:
                    for d in ds:
                        lim = d.value.args[1] if len(d.value.args) > 1 else None
                        lsl = rd.slice([lim], d.node) if lim is not None else None
                        if lsl is None or not ({"max_tokens"} & lsl.constants() or "max_tokens" in {a.split(".")[-1] for a in lsl.attrs()}):
                            ok = False
                            why = f"limit `{src(lim) if lim is not None else None}` is not the Speak op's max_tokens / token cap"
            ctx.check(ok, "C13.TOK", f"{fn.qual}/returns-truncated-text", fn.loc(r.ast), "the returned text is the first component of _truncate_to_tokens(text, max_tokens)",
                      f"`{why}` is returned without passing _truncate_to_tokens(., max_tokens): the utterance can exceed its token budget")
    tt = ctx.func(DIALOGUE + ":_truncate_to_tokens")
    body = src(tt.node)
    ok = "_tokenize(" in body and any(isinstance(x, ast.Subscript) and isinstance(x.slice, ast.Slice) and x.slice.upper is not None and src(x.slice.upper) == tt.params[1]
                                      for x in walk_no_defs(tt.node)) and any(isinstance(x, ast.Compare) and isinstance(x.ops[0], ast.LtE) and src(x.comparators[0]) == tt.params[1]
                                                                             for x in walk_no_defs(tt.node))
    ctx.check(ok, "C13.TOK", f"{tt.qual}/prefix-by-same-tokeniser", tt.loc(), "tokens are counted and cut with the same _tokenize(); at most max_tokens are kept",
              "_truncate_to_tokens does not keep a max_tokens prefix of its own tokenisation")
    tk = ctx.func(DIALOGUE + ":_tokenize")
    ctx.check(".split()" in src(tk.node), "C13.TOK", f"{tk.qual}/whitespace-split", tk.loc(), "_tokenize = str.split() (whitespace tokens)", "_tokenize is not whitespace split()")
    _sanitiser_rules_do_not_lengthen(ctx)


def _min_gaps(items) -> int:
    """lower bound on the number of whitespace GAPS every match of a parsed regex sequence contains (a gap = a mandatory run of
    whitespace between two mandatory non-whitespace elements; optional elements and anything not understood count 0).  A match
    with g gaps touches at least g + 1 whitespace-separated tokens."""
    import re._constants as C
    ws_cat = {C.CATEGORY_SPACE}
    seq = []  # 'w' mandatory non-space, 's' mandatory space, '?' unknown / optional, or an int = gaps of a nested unit

    def classify(op, av):
        if op is C.LITERAL:
            return "s" if chr(av).isspace() else "w"
        if op is C.NOT_LITERAL:
            return "?"
        if op is C.IN:
            kinds = set()
            for o2, a2 in av:
                if o2 is C.CATEGORY:
                    kinds.add("s" if a2 in ws_cat else "?")
                elif o2 is C.LITERAL:
                    kinds.add("s" if chr(a2).isspace() else "w")
                else:
                    kinds.add("?")
            return kinds.pop() if len(kinds) == 1 else "?"
        if op is C.AT:
            return None  # zero-width
        if op is C.ANY:
            return "?"
        return "?"

    for op, av in items:
        if op is C.SUBPATTERN:
            sub = av[-1]
            seq.append(("unit", _min_gaps(list(sub)), _edge(list(sub), 0), _edge(list(sub), -1)))
        elif op is C.BRANCH:
            seq.append(("unit", min(_min_gaps(list(b)) for b in av[1]), "?", "?"))
        elif op in (C.MAX_REPEAT, C.MIN_REPEAT, getattr(C, "POSSESSIVE_REPEAT", None)):
            lo, hi, sub = av
            k = classify(*list(sub)[0]) if len(list(sub)) == 1 else None
            if lo == 0:
                seq.append(("unit", 0, "?", "?"))
            elif k in ("s", "w"):
                seq.append((k,))
            else:
                seq.append(("unit", lo * _min_gaps(list(sub)), "?", "?"))
        else:
            k = classify(op, av)
            if k is not None:
                seq.append((k,))
    gaps = 0
    prev = None  # last mandatory kind seen: 'w' / 's' / '?'
    pending_space = False
    for it in seq:
        if it[0] == "unit":
            gaps += it[1]
            first, last = it[2], it[3]
            if pending_space and prev == "w" and first == "w":
                gaps += 1
            pending_space = False
            prev = last
            continue
        k = it[0]
        if k == "s":
            if prev == "w":
                pending_space = True
        elif k == "w":
            if pending_space:
                gaps += 1
            pending_space = False
            prev = "w"
        else:
            pending_space = False
            prev = "?"
    return gaps


def _edge(items, idx):
    import re._constants as C
    its = [x for x in items if x[0] is not C.AT]
    if not its:
        return "?"
    op, av = its[idx]
    if op is C.LITERAL:
        return "s" if chr(av).isspace() else "w"
    return "?"


def _sanitiser_rules_do_not_lengthen(ctx) -> None:
    """"the utterance never exceeds its token budget": run_turn filters the line AFTER speak / llm_speak truncated it, so no filter
    rule may add tokens.  A rule (pattern, replacement) is safe when the replacement has no more whitespace-separated tokens than
    every match must touch: tokens(replacement) <= gaps(pattern) + 1, with gaps(pattern) a lower bound read off the parsed
    pattern (re._parser): mandatory whitespace between mandatory non-whitespace."""
    import re._parser as P
    m = ctx.prog.module(CORE_MOD)
    table = None
    for st in m.tree.body:
        tgt = st.target if isinstance(st, ast.AnnAssign) else (st.targets[0] if isinstance(st, ast.Assign) else None)
        if isinstance(tgt, ast.Name) and isinstance(getattr(st, "value", None), ast.List) and all(isinstance(e, ast.Tuple) and len(e.elts) == 3 for e in st.value.elts) and st.value.elts \
                and all(isinstance(e.elts[1], ast.Call) and dotted(e.elts[1].func) == "re.compile" for e in st.value.elts):
            table = st.value
    if table is None:
        raise AnalysisError("anchor-vanished: the utterance filter's rule table")
    # the filter runs after the truncation?  (if it ran before, lengthening would be cut again)
    ctx.floor("C13.TOK", "utterance filter rules", len(table.elts), 3)
    for e in table.elts:
        tag = const_str(e.elts[0]) or "?"
        pat = const_str(e.elts[1].args[0]) if e.elts[1].args else None
        def cev(x):
            # literal, module-level string constant, or a + of those
            if const_str(x) is not None:
                return const_str(x)
            if isinstance(x, ast.Name):
                vals = [st.value for st in m.tree.body if isinstance(st, (ast.Assign, ast.AnnAssign)) and getattr(st, "value", None) is not None
                        and any(isinstance(t, ast.Name) and t.id == x.id for t in (st.targets if isinstance(st, ast.Assign) else [st.target]))]
                return cev(vals[0]) if len(vals) == 1 else None
            if isinstance(x, ast.BinOp) and isinstance(x.op, ast.Add):
                a, b = cev(x.left), cev(x.right)
                return a + b if a is not None and b is not None else None
            return None
        repl = cev(e.elts[2])
        key = f"{RUN_TURN}/filter-rule-does-not-lengthen:{tag}"
        if pat is None or repl is None:
            ctx.undecided("C13.TOK", key, f"clematis/engine/orchestrator/core.py:{e.lineno}", "pattern or replacement is not a literal")
            continue
        if "\\" in repl and any(ch.isdigit() or ch == "g" for ch in repl.split("\\", 1)[1][:1]):
            ctx.undecided("C13.TOK", key, f"clematis/engine/orchestrator/core.py:{e.lineno}", "replacement uses a group reference")
            continue
        try:
            gaps = _min_gaps(list(P.parse(pat)))
        except Exception as ex:  # noqa
            ctx.undecided("C13.TOK", key, f"clematis/engine/orchestrator/core.py:{e.lineno}", f"pattern not parsed: {ex}")
            continue
        r = len(repl.split())
        ctx.check(r <= gaps + 1, "C13.TOK", key, f"clematis/engine/orchestrator/core.py:{e.lineno}",
                  f"replacement {repl!r} has {r} token(s); every match of the pattern touches at least {gaps + 1} (lower bound)",
                  f"the replacement {repl!r} has {r} tokens but a match of `{pat[:50]}` is only known to touch {gaps + 1} token(s) (lower bound from the parsed pattern): the filter runs after speak truncated the line to its budget, so "
                  "each such match makes the utterance longer than its token budget")


def rule_pure(ctx) -> None:
    fn = ctx.func(POLICY + ":deliberate")
    ef = Effects(ctx, depth=4)
    bad = [e for e in ef.of(fn) if (e.kind in ("mutate", "global-write") and e.origin not in ("fresh", "unknown")) or e.kind in ("io", "nondet", "env", "io-read")]
    if not bad:
        ctx.holds("C13.PURE", f"{fn.qual}/effects", fn.loc(), f"{len(ef._memo)} functions reached: no write through the bundle, no I/O, clock, RNG or environment read")
    for e in bad:
        ctx.violation("C13.PURE", f"{fn.qual}/{e.kind}:{e.origin}:{e.desc[:40]}", e.where, f"the rule-based planner is not a pure function of its bundle: {e.fmt()}")


# ------------------------------------------------------------------ TOTAL
def _narrowed_in_boolop(prog, fn: Func, use: ast.AST, name: str) -> bool:
    """`use` sits in an Or-chain after `not isinstance(name, T)` or in an And-chain after `isinstance(name, T)`."""
    pm = prog.parents(fn.node)
    cur = use
    while id(cur) in pm:
        p = pm[id(cur)]
        if isinstance(p, ast.BoolOp):
            idx = next((i for i, v in enumerate(p.values) if v is cur or any(x is cur for x in ast.walk(v))), None)
            for prev in p.values[: idx or 0]:
                t = prev
                neg = False
                if isinstance(t, ast.UnaryOp) and isinstance(t.op, ast.Not):
                    t, neg = t.operand, True
                if isinstance(t, ast.Call) and dotted(t.func) == "isinstance" and t.args and src(t.args[0]) == name:
                    if (isinstance(p.op, ast.Or) and neg) or (isinstance(p.op, ast.And) and not neg):
                        return True
        if isinstance(p, ast.stmt):
            break
        cur = p
    return False


def _sensitive_uses(fn: Func, names: Set[str]) -> List[Tuple[ast.AST, str, str]]:
    out = []
    for x in walk_no_defs(fn.node):
        if isinstance(x, ast.Call):
            d = dotted(x.func)
            if d in ("len", "sorted", "list", "tuple", "set", "sum", "max", "min", "int", "float", "dict") and x.args and isinstance(x.args[0], ast.Name) and x.args[0].id in names:
                out.append((x, x.args[0].id, f"{d}()"))
            if isinstance(x.func, ast.Attribute) and isinstance(x.func.value, ast.Name) and x.func.value.id in names:
                out.append((x, x.func.value.id, f".{x.func.attr}()"))
        if isinstance(x, ast.Subscript) and isinstance(x.value, ast.Name) and x.value.id in names and isinstance(x.ctx, ast.Load):
            out.append((x, x.value.id, "[...]"))
        if isinstance(x, (ast.For, ast.comprehension)) and isinstance(x.iter, ast.Name) and x.iter.id in names:
            out.append((x.iter, x.iter.id, "iteration"))
        if isinstance(x, ast.Compare) and len(x.ops) == 1 and isinstance(x.ops[0], (ast.In, ast.NotIn)) and isinstance(x.comparators[0], ast.Name) and x.comparators[0].id in names:
            out.append((x, x.comparators[0].id, "membership"))
        if isinstance(x, ast.Compare) and any(isinstance(o, (ast.Lt, ast.Gt, ast.LtE, ast.GtE)) for o in x.ops):
            for side in [x.left] + list(x.comparators):
                if isinstance(side, ast.Name) and side.id in names:
                    out.append((x, side.id, "ordering comparison"))
    return out


def rule_total(ctx) -> None:
    pv = ctx.func(SAN + ":parse_and_validate")
    cfg = ctx.cfg(pv)
    rd = ctx.rd(pv)
    # untrusted names: the parameter, the parsed object and everything subscripted / iterated from it
    names: Set[str] = {pv.params[0]}
    changed = True
    while changed:
        changed = False
        for d in rd.all_defs:
            if d.name in names or d.value is None:
                continue
            v = d.value
            if isinstance(v, ast.Call) and dotted(v.func) == "json.loads":
                names.add(d.name); changed = True
            elif isinstance(v, ast.Subscript) and isinstance(v.value, ast.Name) and v.value.id in names:
                names.add(d.name); changed = True
            elif d.kind == "for" and isinstance(v, ast.Name) and v.id in names:
                names.add(d.name); changed = True
    for x in walk_no_defs(pv.node):
        if isinstance(x, ast.comprehension) and isinstance(x.iter, ast.Name) and x.iter.id in names and isinstance(x.target, ast.Name):
            names.add(x.target.id)
    # values produced by a helper from guarded text are strings (candidate, lang): not tracked
    uses = _sensitive_uses(pv, names)
    ctx.floor("C13.TOTAL", "operations on untrusted values in parse_and_validate", len(uses), 8)
    for node, nm, what in uses:
        cn = cfg.node_containing(node)
        facts = set()
        for c in cn:
            facts |= cfg.facts(c)
        narrowed = any(p and a.startswith(f"isinstance({nm},") for a, p in facts) or any((not p) and a.startswith(f"isinstance({nm},") is False and False for a, p in facts)
        narrowed = narrowed or _narrowed_in_boolop(ctx.prog, pv, node, nm)
        in_try = guarded_by_catch_all(ctx.prog, pv, node) is not None
        # keys of a dict iterate / membership as strings: `k in (..)` on dict keys is hashable by construction (JSON keys are str)
        key = f"{pv.qual}/{nm}{what}@{src(node)[:30]}"
        ok = narrowed or in_try
        if what == "[...]" and ok:
            # constant-key subscript must be dominated by the membership loop
            k = const_str(node.slice)
            if k is not None:
                chk = any(isinstance(st, ast.For) and isinstance(st.iter, (ast.Tuple, ast.List)) and any(const_str(e) == k for e in st.iter.elts)
                          and any(isinstance(y, ast.Compare) and isinstance(y.ops[0], ast.NotIn) for y in ast.walk(st)) and any(isinstance(y, ast.Return) for y in ast.walk(st))
                          for st in walk_no_defs(pv.node) if isinstance(st, ast.For) and st.lineno < node.lineno)
                in_guard = any(p and a == f"'{k}' in {nm}" for a, p in facts)
                ok = chk or in_guard
                if not ok:
                    ctx.violation("C13.TOTAL", key, pv.loc(node), f"`{src(node)}` is not dominated by a presence check of key {k!r}: a JSON object without it raises KeyError")
                    continue
        ctx.check(ok, "C13.TOTAL", key, pv.loc(node), f"{what} on `{nm}` is guarded by an isinstance narrowing / try-except",
                  f"{what} is applied to untrusted `{nm}` (`{src(node)[:50]}`) without a dominating isinstance narrowing or try/except: some input makes the sanitiser raise")
    # json.loads inside try/except Exception
    for x in walk_no_defs(pv.node):
        if isinstance(x, ast.Call) and dotted(x.func) == "json.loads":
            ctx.check(guarded_by_catch_all(ctx.prog, pv, x) is not None, "C13.TOTAL", f"{pv.qual}/json-loads-guarded", pv.loc(x), "json.loads is inside try/except Exception",
                      "json.loads is not inside try/except Exception")
    # the first statement narrows the parameter
    first_guard = any(isinstance(st, ast.If) and src(st.test) == f"not isinstance({pv.params[0]}, str)" and any(isinstance(y, ast.Return) for y in st.body) for st in pv.node.body[:3])
    ctx.check(first_guard, "C13.TOTAL", f"{pv.qual}/input-narrowed", pv.loc(), "non-string input is rejected before any string operation", "the input is not narrowed to str first")
    # the second entry point: sanitize_plan(plan_dict, errors) - a decoded plan of ANY JSON type (array, string, number)
    sp = ctx.func(SAN + ":sanitize_plan")
    cfgs = ctx.cfg(sp)
    uses_sp = _sensitive_uses(sp, {sp.params[0]})
    ctx.floor("C13.TOTAL", "operations on the untrusted plan in sanitize_plan", len(uses_sp), 1)
    for node, nm, what in uses_sp:
        facts = set()
        for c in cfgs.node_containing(node):
            facts |= cfgs.facts(c)
        ok = any(p and a.startswith(f"isinstance({nm},") for a, p in facts) or any((not p) and a.replace(" ", "").replace("(", "").replace(")", "") == f"{nm}isnotNoneandnotisinstance{nm},dict" for a, p in facts) \
            or any((not p) and a == f"not isinstance({nm}, dict)" for a, p in facts) or _narrowed_in_boolop(ctx.prog, sp, node, nm) or guarded_by_catch_all(ctx.prog, sp, node) is not None
        ctx.check(ok, "C13.TOTAL", f"{sp.qual}/{nm}{what}", sp.loc(node), f"{what} on the plan runs only where it is a mapping (or inside try/except)",
                  f"{what} is applied to the untrusted plan (`{src(node)[:40]}`) without a dominating isinstance narrowing: a plan that decodes to a list, string or number makes the sanitiser raise")
    cb = ctx.func(SAN + ":_coerce_bool")
    cfgb = ctx.cfg(cb)
    for node, nm, what in _sensitive_uses(cb, {cb.params[0]}):
        cn = cfgb.node_containing(node)
        facts = set()
        for c in cn:
            facts |= cfgb.facts(c)
        ok = any(p and a.startswith(f"isinstance({nm},") for a, p in facts) or _narrowed_in_boolop(ctx.prog, cb, node, nm)
        if not ok:
            # `<use of v> if isinstance(v, T) else ...`: narrowed by the conditional expression it sits in
            for st, part in enclosing(ctx.prog, cb, node):
                pass
            par = ctx.prog.parents(cb.node)
            cur = node
            while cur is not None and not ok:
                up = par.get(id(cur))
                if isinstance(up, ast.IfExp) and up.body is cur and any(isinstance(y, ast.Call) and dotted(y.func) == "isinstance" and y.args and isinstance(y.args[0], ast.Name) and y.args[0].id == nm for y in ast.walk(up.test)):
                    ok = True
                cur = up
        ctx.check(ok, "C13.TOTAL", f"{cb.qual}/{nm}{what}", cb.loc(node), f"{what} on the flag value is narrowed", f"{what} on the untrusted flag value is not narrowed")
    # hashing: `<value> in <dict / set>`, `<dict>[<value>]`, `<dict>.get(<value>)` raise TypeError for an unhashable value (a JSON
    # array or object where the flag was expected) - each such use is narrowed to hashable types first
    tainted = {cb.params[0]}
    for _ in range(2):
        for x in walk_no_defs(cb.node):
            if isinstance(x, ast.Assign) and len(x.targets) == 1 and isinstance(x.targets[0], ast.Name) and any(isinstance(y, ast.Name) and y.id in tainted for y in ast.walk(x.value)):
                tainted.add(x.targets[0].id)
    mod_tables = {n_ for n_, v in ((k, vs[0]) for k, vs in cb.module.globals_assigned.items() if len(vs) == 1) if isinstance(getattr(v, "value", None), (ast.Dict, ast.Set, ast.DictComp, ast.SetComp))
                  or (isinstance(getattr(v, "value", None), ast.Call) and dotted(v.value.func) in ("dict", "set", "frozenset"))}
    for x in walk_no_defs(cb.node):
        hashed = None
        if isinstance(x, ast.Compare) and isinstance(x.ops[0], (ast.In, ast.NotIn)) and isinstance(x.left, ast.Name) and x.left.id in tainted:
            c0 = x.comparators[0]
            if isinstance(c0, (ast.Dict, ast.Set)) or (isinstance(c0, ast.Name) and c0.id in mod_tables):
                hashed = x.left
        elif isinstance(x, ast.Subscript) and isinstance(x.value, ast.Name) and x.value.id in mod_tables and isinstance(x.slice, ast.Name) and x.slice.id in tainted:
            hashed = x.slice
        elif isinstance(x, ast.Call) and call_tail(x) == "get" and isinstance(x.func.value, ast.Name) and x.func.value.id in mod_tables and x.args and isinstance(x.args[0], ast.Name) and x.args[0].id in tainted:
            hashed = x.args[0]
        if hashed is None:
            continue
        cn = cfgb.node_containing(x)
        facts = set()
        for c in cn:
            facts |= cfgb.facts(c)
        okh = any(p and a.replace(" ", "").startswith("isinstance(") and any(t in a for t in ("str", "int", "bool", "float")) and "list" not in a and "dict" not in a for a, p in facts)
        ctx.check(okh, "C13.TOTAL", ctx.okey(f"{cb.qual}/hashed-only-when-hashable"), cb.loc(x), f"`{src(x)[:50]}` hashes the flag value only where it is known to be a scalar",
                  f"`{src(x)[:50]}` hashes the untrusted flag value: a JSON array or object there (`\"reflection\": []`) raises TypeError: unhashable type out of the sanitiser")


LENIENT_CODEC_ERRORS = ("ignore", "replace", "surrogatepass", "surrogateescape", "backslashreplace", "xmlcharrefreplace", "namereplace")


def _partial_text_ops(fn: Func, names: Set[str]) -> List[Tuple[ast.AST, str, str]]:
    """operations that raise for SOME value of a str (not for a wrong type): strict encoding (lone surrogates - what json.loads
    makes of half an emoji), number parsing, .index / .rindex, %-formatting / .format with the text as the template."""
    out = []

    def mentions(e):
        return next((y.id for y in ast.walk(e) if isinstance(y, ast.Name) and y.id in names), None)

    for x in walk_no_defs(fn.node):
        if isinstance(x, ast.Call) and isinstance(x.func, ast.Attribute):
            nm = mentions(x.func.value)
            if nm is None:
                continue
            a = x.func.attr
            if a == "encode":
                err = kwarg(x, "errors") or (x.args[1] if len(x.args) > 1 else None)
                if not (err is not None and const_str(err) in LENIENT_CODEC_ERRORS):
                    out.append((x, nm, "strict .encode() (UnicodeEncodeError on a lone surrogate)"))
            elif a in ("index", "rindex"):
                out.append((x, nm, f".{a}() (ValueError when absent)"))
            elif a in ("format", "format_map") and isinstance(x.func.value, ast.Name):
                out.append((x, nm, f".{a}() with the text as template"))
        elif isinstance(x, ast.Call) and dotted(x.func) in ("int", "float", "complex", "bytes", "bytearray") and x.args and mentions(x.args[0]):
            if dotted(x.func) in ("bytes", "bytearray") and len(x.args) + len(x.keywords) < 2:
                continue
            out.append((x, mentions(x.args[0]), f"{dotted(x.func)}() of text"))
        elif isinstance(x, ast.BinOp) and isinstance(x.op, ast.Mod) and isinstance(x.left, ast.Name) and x.left.id in names:
            out.append((x, x.left.id, "%-formatting with the text as template"))
    return out


def rule_text_total(ctx) -> None:
    """"no input makes the sanitiser raise" also over the VALUES of a str: every operation on the untrusted text (and on what
    helpers derive from it) that raises for some string value sits under a catch-all handler.  Followed into the module's own
    helpers through the arguments that carry the text."""
    pv = ctx.func(SAN + ":parse_and_validate")
    rd = ctx.rd(pv)
    tainted: Set[str] = {pv.params[0]}
    changed = True
    while changed:
        changed = False
        for d in rd.all_defs:
            if d.name not in tainted and d.value is not None and any(isinstance(y, ast.Name) and y.id in tainted for y in ast.walk(d.value)):
                tainted.add(d.name)
                changed = True
    work: List[Tuple[Func, Set[str], int]] = [(pv, tainted, 0)]
    seen: Set[Tuple[str, Tuple[str, ...]]] = set()
    n_fn = 0
    n_ops = 0
    while work:
        fn, names, depth = work.pop()
        sig = (fn.qual, tuple(sorted(names)))
        if sig in seen:
            continue
        seen.add(sig)
        n_fn += 1
        ctx.analysed_funcs.add(fn.qual)
        for node, nm, what in _partial_text_ops(fn, names):
            n_ops += 1
            ok = guarded_by_catch_all(ctx.prog, fn, node) is not None
            ctx.check(ok, "C13.TOTAL", ctx.okey(f"{fn.qual}/text-op-cannot-raise"), fn.loc(node), f"{what} runs under a catch-all handler",
                      f"`{src(node)[:50]}`: {what} is applied to the untrusted text outside any try/except: a planner text with such a value makes the sanitiser raise instead of returning a verdict")
        if depth >= 3:
            continue
        for x in walk_no_defs(fn.node):
            if not isinstance(x, ast.Call):
                continue
            kind, q = ctx.prog.callee(fn, x) or (None, None)
            if q not in ctx.prog.funcs or guarded_by_catch_all(ctx.prog, fn, x) is not None:
                continue
            cal = ctx.prog.funcs[q]
            if cal.module.name != fn.module.name:
                continue
            ps = [p for p in cal.params if p != "self"]
            carried = {ps[i] for i, a in enumerate(x.args) if i < len(ps) and any(isinstance(y, ast.Name) and y.id in names for y in ast.walk(a))}
            carried |= {k.arg for k in x.keywords if k.arg in ps and any(isinstance(y, ast.Name) and y.id in names for y in ast.walk(k.value))}
            if not carried:
                continue
            crd = ctx.rd(cal)
            t2 = set(carried)
            ch = True
            while ch:
                ch = False
                for d in crd.all_defs:
                    if d.name not in t2 and d.value is not None and any(isinstance(y, ast.Name) and y.id in t2 for y in ast.walk(d.value)):
                        t2.add(d.name)
                        ch = True
            work.append((cal, t2, depth + 1))
    ctx.floor("C13.TOTAL", "functions the untrusted text is followed into", n_fn, 2)
    # positive control: the detector itself must still see the three idioms (the clean tree has none of them)
    import types
    probe = ast.parse("def _p(t):\n    a = len(t.encode('utf-8'))\n    b = t.index('{')\n    c = int(t)\n    d = t.encode('utf-8', 'replace')\n    return a, b, c, d\n").body[0]
    ctx.floor("C13.TOTAL", "positive control: value-partial text operations recognised in a synthetic helper", len(_partial_text_ops(types.SimpleNamespace(node=probe), {"t"})), 3)
    ctx.holds("C13.TOTAL", f"{pv.qual}/text-ops-scanned", pv.loc(), f"{n_ops} value-partial text operation(s) found in {n_fn} function(s) reached by the untrusted text; each is under a catch-all", nontrivial=False)


def rule_bundle_supplies_cfg(ctx) -> None:
    """"intent follows the documented similarity thresholds ... for all thresholds": the planner is a pure function of its
    bundle, so every configuration key it reads from bundle['cfg'][<section>] must be put there by the bundle builder
    (cfg_snapshot) - a key the builder does not copy is silently replaced by the planner's built-in default, whatever the
    configuration says."""
    bq = "clematis.engine.stages.t3.bundle:cfg_snapshot"
    b = ctx.func(bq)
    supplied: Dict[str, Set[str]] = {}
    for r in [x for x in walk_no_defs(b.node) if isinstance(x, ast.Return) and isinstance(x.value, ast.Dict)]:
        for k, v in zip(r.value.keys, r.value.values):
            if k is not None and const_str(k) and isinstance(v, ast.Dict):
                supplied.setdefault(const_str(k), set()).update(const_str(kk) for kk in v.keys if kk is not None and const_str(kk))
    if not supplied:
        raise AnalysisError("anchor-vanished: cfg_snapshot no longer returns a literal of sections")
    n_reads = 0
    for mn in ("clematis.engine.stages.t3.policy", "clematis.engine.stages.t3.legacy", "clematis.engine.stages.t3.dialogue", "clematis.engine.stages.t3.core"):
        if mn not in ctx.prog.modules:
            continue
        for fn in ctx.prog.module(mn).funcs.values():
            if not any("bundle" in p for p in fn.params):
                continue
            rd = ctx.rd(fn)
            # locals bound to bundle['cfg'][section]
            secs: Dict[str, str] = {}
            for d in rd.all_defs:
                if d.value is None:
                    continue
                consts = [const_str(y) for y in ast.walk(d.value) if isinstance(y, ast.Constant) and isinstance(y.value, str)]
                if "cfg" in consts and any(isinstance(y, ast.Name) and "bundle" in y.id for y in ast.walk(d.value)):
                    sec = next((c for c in consts if c in supplied), None)
                    if sec:
                        secs[d.name] = sec
            for x in walk_no_defs(fn.node):
                key = None
                if isinstance(x, ast.Call) and call_tail(x) == "get" and isinstance(x.func.value, ast.Name) and x.func.value.id in secs and x.args and const_str(x.args[0]):
                    key = (secs[x.func.value.id], const_str(x.args[0]))
                elif isinstance(x, ast.Subscript) and isinstance(x.value, ast.Name) and x.value.id in secs and const_str(x.slice):
                    key = (secs[x.value.id], const_str(x.slice))
                if key is None:
                    continue
                n_reads += 1
                ctx.check(key[1] in supplied[key[0]], "C13.PURE", f"{fn.qual}/bundle-supplies:{key[0]}.{key[1]}", fn.loc(x), f"cfg_snapshot copies {key[0]}.{key[1]} into the bundle",
                          f"`{src(x)[:50]}` reads {key[0]}.{key[1]} from the bundle, but cfg_snapshot copies only {sorted(supplied[key[0]])} of that section: the configured value never reaches the planner, "
                          "which falls back to its built-in default - intent and retrieval do not follow the configured thresholds")
    ctx.floor("C13.PURE", "configuration keys the planner reads from the bundle", n_reads, 1)


def rule_token_budget_identity(ctx) -> None:
    """the Speak op's own token budget is told from 'not set' by identity: `if op and getattr(op, "max_tokens", None):` sends a
    budget of 0 to the fallback (the bundle's caps.tokens) and an utterance is emitted against a zero budget"""
    from ..zero import truthy_operands
    m = ctx.prog.module("clematis.engine.stages.t3.dialogue")
    n_sites = 0
    for fn in m.funcs.values():
        for x in walk_no_defs(fn.node):
            if not isinstance(x, (ast.If, ast.IfExp)):
                continue
            reads = [c for c in ast.walk(x.test) if isinstance(c, ast.Call) and dotted(c.func) == "getattr" and len(c.args) >= 2 and const_str(c.args[1]) == "max_tokens"]
            reads += [c for c in ast.walk(x.test) if isinstance(c, ast.Attribute) and c.attr == "max_tokens"]
            if not reads:
                continue
            n_sites += 1
            def operands(t):
                if isinstance(t, ast.UnaryOp) and isinstance(t.op, ast.Not):
                    return operands(t.operand)
                if isinstance(t, ast.BoolOp):
                    return [y for v in t.values for y in operands(v)]
                return [t]

            bad = [o for o in operands(x.test) if any(o is r for r in reads)]
            ctx.check(not bad, "C13.TOK", ctx.okey(f"{fn.qual}/op-token-budget-by-identity"), fn.loc(x.test),
                      "the op's max_tokens is compared with None, so 0 is a budget",
                      f"`{src(x.test)[:60]}` tests the Speak op's max_tokens for truthiness: a budget of 0 is read as 'not set' and the utterance falls back to the bundle's caps.tokens - "
                      "it exceeds its token budget")
    ctx.floor("C13.TOK", "tests of the Speak op's max_tokens in the dialogue module", n_sites, 2)


def rule_schema(ctx) -> None:
    pv = ctx.func(SAN + ":parse_and_validate")
    m = pv.module
    sm = ctx.prog.module(SCHEMAS)
    consts = {"PLAN_MAX_ITEMS": "plan", "PLAN_ITEM_MAX_LEN": "item", "RATIONALE_MAX_LEN": "rationale"}
    # helpers called from the sanitiser are included
    funcs = [pv] + [ctx.prog.funcs[r[1]] for x in walk_no_defs(pv.node) if isinstance(x, ast.Call) for r in [ctx.prog.callee(pv, x)] if r and r[0] == "func" and r[1].startswith(SAN + ":")]
    for cname in consts:
        imp = m.imports.get(cname)
        ok_imp = imp is not None and imp[0] == "symbol" and imp[1] == SCHEMAS
        cmps = []
        for f in funcs:
            for x in walk_no_defs(f.node):
                if isinstance(x, ast.Compare) and any(isinstance(y, ast.Name) and y.id == cname for y in ast.walk(x)):
                    cmps.append((f, x))
        ctx.check(ok_imp and bool(cmps), "C13.SCHEMA", f"{pv.qual}/{cname}-imported-and-used", pv.loc(), f"{cname} is imported from json_schemas and enforced ({len(cmps)} comparisons)",
                  f"{cname} is not imported from json_schemas / not enforced by the sanitiser")
        for f, x in cmps:
            # the measured expression must be len(<plain name>) - the value that is returned - not a transformed copy
            frd = ctx.rd(f)
            fcfg = ctx.cfg(f)
            xe = x
            cn = fcfg.node_containing(x)
            if cn:
                xe = frd.inline(x, cn[0], depth=1, stop=(cname,))
            lens = [y for y in ast.walk(xe) if isinstance(y, ast.Call) and dotted(y.func) == "len"]
            def _plain(a):  # a name or a constant-key element of one: the value itself, not a computed copy
                return not any(isinstance(z, ast.Call) for z in ast.walk(a))
            raw = bool(lens) and all(y.args and _plain(y.args[0]) for y in lens)
            ctx.check(raw, "C13.SCHEMA", f"{f.qual}/{cname}-on-raw-value", f.loc(x), f"`{src(x)[:50]}` measures the raw value that is passed through",
                      f"`{src(x)[:60]}` applies the limit to a transformed copy (e.g. stripped text) while the raw value is returned: an item padded with whitespace beyond "
                      f"the limit is accepted")
    # key sets
    pl = None
    for st in sm.tree.body:
        if isinstance(st, (ast.Assign, ast.AnnAssign)) and any(isinstance(t, ast.Name) and t.id == "PLANNER_V1" for t in (st.targets if isinstance(st, ast.Assign) else [st.target])):
            pl = st.value
    if not isinstance(pl, ast.Dict):
        raise AnalysisError("anchor-vanished: PLANNER_V1 schema literal")
    d = {const_str(k): v for k, v in zip(pl.keys, pl.values) if k is not None}
    req = {const_str(e) for e in d["required"].elts} if isinstance(d.get("required"), (ast.List, ast.Tuple)) else set()
    props = {const_str(k) for k in d["properties"].keys} if isinstance(d.get("properties"), ast.Dict) else set()
    tuples = [x for x in walk_no_defs(pv.node) if isinstance(x, ast.Tuple) and x.elts and all(const_str(e) is not None for e in x.elts)]
    sets_ = [{const_str(e) for e in t.elts} for t in tuples]
    ctx.check(req in sets_, "C13.SCHEMA", f"{pv.qual}/required-keys", pv.loc(), f"required keys {sorted(req)} are checked", f"required keys {sorted(req)} are not checked as a set (found {sets_[:3]})")
    ctx.check(props in sets_, "C13.SCHEMA", f"{pv.qual}/allowed-keys", pv.loc(), f"allowed keys {sorted(props)} equal the schema's properties", f"allowed-key set differs from the schema's {sorted(props)}")


def rule_zero_budget(ctx) -> None:
    from ..zero import zero_budget_rule
    zero_budget_rule(ctx, "C13.CAP", ["clematis.engine.stages.t3.bundle", "clematis.engine.stages.t3.policy", "clematis.engine.stages.t3.legacy"], 3)


def rule_refinement_keeps_the_speak_budget(ctx) -> None:
    """"the utterance never exceeds its token budget" across the retrieval refinement: rag_once replaces the plan's Speak op by a
    fresh one (new intent).  The budget of the replacement must depend on the replaced op's own max_tokens (min with the
    configured t3.tokens) - a fresh op built from the configuration alone silently widens a Speak budget the plan had set
    lower, and the spoken line exceeds the budget the plan asked for."""
    rq = "clematis.engine.stages.t3.legacy:rag_once"
    fn = ctx.func(rq)
    cfg = ctx.cfg(fn)
    rd = ctx.rd(fn)
    n = 0
    for lp in [x for x in walk_no_defs(fn.node) if isinstance(x, ast.For) and isinstance(x.target, ast.Name)]:
        v = lp.target.id
        for st in lp.body:
            for x in ast.walk(st):
                if isinstance(x, ast.Call) and call_tail(x) == "SpeakOp":
                    mt = kwarg(x, "max_tokens")
                    if mt is None:
                        continue
                    n += 1
                    at = cfg.node_containing(x)
                    sl = rd.slice([mt], at[0], control=False) if at else None
                    reads_own = sl is not None and any((isinstance(y, ast.Attribute) and y.attr == "max_tokens" and isinstance(y.value, ast.Name) and y.value.id == v)
                                                       or (isinstance(y, ast.Call) and dotted(y.func) == "getattr" and len(y.args) >= 2 and isinstance(y.args[0], ast.Name) and y.args[0].id == v
                                                           and const_str(y.args[1]) == "max_tokens") for y in sl.nodes())
                    narrows = sl is not None and any(isinstance(y, ast.Call) and dotted(y.func) == "min" for y in sl.nodes())
                    ctx.check(reads_own and narrows, "C13.TOK", ctx.okey(f"{fn.qual}/refined-speak-keeps-its-budget"), fn.loc(x), f"the replacement's budget `{src(mt)}` is min(configured tokens, the replaced op's own budget)",
                              f"the Speak op that replaces `{v}` gets max_tokens=`{src(mt)}`, which does not depend on `{v}.max_tokens`: a plan whose Speak asked for fewer tokens than t3.tokens is widened by "
                              "the retrieval refinement and the utterance exceeds the budget of the plan")
    ctx.floor("C13.TOK", "Speak ops rebuilt by the retrieval refinement", n, 1)


def rule_only_json_whitespace_is_trimmed(ctx) -> None:
    """"accepted only if it is a single JSON object": what parse_and_validate hands to json.loads is the planner text minus an
    optional fence and minus surrounding whitespace.  json.loads itself tolerates only space / tab / CR / LF around the value;
    a bare str.strip() also removes NBSP, U+3000, form feed, U+2028 ... - text padded with those is not JSON, yet it would be
    accepted.  Every strip on the way from the text to json.loads names the JSON whitespace set."""
    pv = ctx.func(SAN + ":parse_and_validate")
    tparam = pv.params[0]
    # the helpers the TEXT goes through (not those that look at values of the decoded object)
    funcs = [ctx.prog.funcs[r[1]] for x in walk_no_defs(pv.node) if isinstance(x, ast.Call) and any(isinstance(a, ast.Name) and a.id == tparam for a in x.args)
             for r in [ctx.prog.callee(pv, x)] if r and r[0] == "func" and r[1].startswith(SAN + ":")]
    m = pv.module
    n = 0
    rdp = ctx.rd(pv)
    cfgp = ctx.cfg(pv)
    for f in [pv] + funcs:
        for x in walk_no_defs(f.node):
            if isinstance(x, ast.Call) and isinstance(x.func, ast.Attribute) and x.func.attr in ("strip", "lstrip", "rstrip"):
                if f is pv:
                    at = cfgp.node_containing(x)
                    sl = rdp.slice([x.func.value], at[0]) if at else None
                    if sl is None or tparam not in sl.params:
                        continue
                # strips of the language tag do not decide what is parsed; those of the candidate text do - all are checked
                n += 1
                arg = x.args[0] if x.args else None
                chars = const_str(arg) if arg is not None else None
                if chars is None and isinstance(arg, ast.Name):
                    g = m.globals_assigned.get(arg.id, [])
                    chars = const_str(getattr(g[0], "value", None)) if len(g) == 1 else None
                ok = chars is not None and set(chars) <= set(" \t\r\n")
                ctx.check(ok, "C13.SCHEMA", ctx.okey(f"{f.qual}/trims-json-whitespace-only"), f.loc(x), f"`{src(x)[:40]}` removes JSON whitespace only",
                          f"`{src(x)[:40]}` removes every Unicode space (NBSP, U+3000, form feed, U+2028, ...): planner text padded with characters JSON does not allow around a value is accepted as "
                          "'a single JSON object'")
    ctx.floor("C13.SCHEMA", "strips between the planner text and json.loads", n, 2)


def run(ctx) -> None:
    rule_only_json_whitespace_is_trimmed(ctx)
    rule_refinement_keeps_the_speak_budget(ctx)
    rule_zero_budget(ctx)
    rule_cap(ctx)
    rule_rr(ctx)
    rule_once(ctx)
    rule_tok(ctx)
    rule_pure(ctx)
    rule_bundle_supplies_cfg(ctx)
    rule_total(ctx)
    rule_text_total(ctx)
    rule_token_budget_identity(ctx)
    rule_schema(ctx)
