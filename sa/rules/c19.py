"""C19 Reflection is gated, budgeted and cannot disturb the turn."""
from __future__ import annotations

import ast
from typing import Dict, List, Optional, Set, Tuple

from ..cfg import handler_catches_all
from ..effects import Effects
from ..model import AnalysisError, Func, const_str, dotted, kwarg, src, walk_no_defs
from ..util import call_tail, enclosing, find_calls, guarded_by_catch_all, handler_cannot_raise, no_exc, node_calls

EXPLANATION = (
    "C19 decided statically: (GATE) the reflect call is dominated by not-dry-run, t3.allow_reflection and the plan's "
    "reflection flag, and the gate-closed returns compute nothing; the writer and the telemetry line in run_turn run only on a "
    "non-None result; (FRESH) every path through _run_reflection_if_enabled (re)sets ctx._reflection_result, and every read "
    "of it in run_turn follows that call, so no result of an earlier turn is ever used; (CAP) the writer returns before any "
    "index.add when ops_cap <= 0, truncates to ops_cap and iterates only the truncated list, both backends emit at most one "
    "entry and none when ops_cap is 0; (TOK) the stored summary is _truncate_tokens(whitespace-normalised text, "
    "summary_tokens); (PUREID) ids/timestamps read only agent_id, turn_id, slot, text, now_ms/now_iso; (ISO) reflection "
    "runs after the apply record, nothing after it assigns utter/t1/t2/t4/apply, and the reflection path does not write its "
    "plan/t2 arguments; (FAIL) error and timeout paths build a result with memory_entries=[] and the stashed result is the "
    "final one; all three blocks are fail-soft. Not decided: record equality with a reflection-off run (execution equality)."
)
RULES = {
    "C19.GATE": "guard facts of the reflect call + provenance of the gate atoms; guards of writer and telemetry",
    "C19.FRESH": "must-pass: every path of the runner (re)sets ctx._reflection_result; reads in run_turn follow the runner",
    "C19.CAP": "dominance of the ops-cap return over index.add, truncation shape, one-entry backends",
    "C19.TOK": "def-use shape of the stored summary (normalise then truncate by the configured limit)",
    "C19.PUREID": "effect query + attribute-read whitelist of the id/timestamp helpers",
    "C19.ISO": "ordering after the apply record, no later store to turn results, argument non-mutation",
    "C19.FAIL": "shape of error/timeout results, final-result stash, fail-soft enclosure",
}

CORE = "clematis.engine.orchestrator.core"
RUN_TURN = CORE + ":Orchestrator.run_turn"
RUNNER = CORE + ":_run_reflection_if_enabled"
WRITER = "clematis.engine.orchestrator.reflection"
REFLECT = "clematis.engine.stages.t3.reflect"


def _sets_attr(ctx, fn: Func, n, attr: str) -> bool:
    """node n performs setattr(ctx, <attr>, ...) (constant name, or a loop variable over a constant tuple containing it)"""
    rd = ctx.rd(fn)
    for c in node_calls(n):
        if dotted(c.func) == "setattr" and len(c.args) >= 2:
            a = c.args[1]
            if const_str(a) == attr:
                return True
            if isinstance(a, ast.Name):
                for d in rd.reaching(a.id, n):
                    if d.kind == "for" and isinstance(d.value, (ast.Tuple, ast.List)) and any(const_str(x) == attr for x in d.value.elts):
                        return True
    if n.kind == "stmt" and isinstance(n.ast, ast.Assign):
        for t in n.ast.targets:
            if isinstance(t, ast.Attribute) and t.attr == attr:
                return True
    return False


def _reflect_fn_names(ctx, fn) -> Set[str]:
    """locals of the runner bound to the reflect backend entry (directly or via getattr(module, "reflect", ...))"""
    out = {"reflect"}
    for _ in range(3):
        for d in ctx.rd(fn).all_defs:
            if d.kind in ("assign", "import") and (d.value is None or any((isinstance(y, ast.Name) and y.id in out) or const_str(y) == "reflect" for y in ast.walk(d.value))):
                if d.kind == "import" and d.name != "reflect":
                    continue
                out.add(d.name)
    return out


def _names_reading(rd, key: str) -> Set[str]:
    return {d.name for d in rd.all_defs if d.kind == "assign" and d.value is not None and any(const_str(z) == key for z in ast.walk(d.value))}


def rule_gate(ctx) -> None:
    fn = ctx.func(RUNNER)
    cfg = ctx.cfg(fn)
    rd = ctx.rd(fn)
    rf_names = _reflect_fn_names(ctx, fn)
    calls = [(n, c) for n in cfg.nodes for c in node_calls(n) if isinstance(c.func, ast.Name) and c.func.id in rf_names]
    ctx.floor("C19.GATE", "reflect_fn call sites", len(calls), 1)
    for n, c in calls:
        facts = cfg.facts(n)
        true_names = {a for a, p in facts if p}
        false_txt = {a for a, p in facts if not p}
        dry_ok = any("_dry_run_until_t4" in a for a in false_txt)
        gate_names = [a for a in true_names if a.isidentifier()]
        def _slice_consts(name: str) -> Set[object]:
            out: Set[object] = set()
            for d in rd.all_defs:
                if d.name == name and d.value is not None:
                    out |= rd.slice([d.value], d.node).constants()
            return out
        allow = [g for g in gate_names if {"allow_reflection", "t3"} <= _slice_consts(g)]
        plan = [g for g in gate_names if any(d.value is not None and ("reflection" in src(d.value)) and ("plan" in src(d.value) or "_planner_reflection_flag" in src(d.value))
                                              for d in rd.all_defs if d.name == g) and g not in allow]
        ctx.check(dry_ok, "C19.GATE", f"{fn.qual}/not-dry-run", fn.loc(c), "reflect is reached only with ctx._dry_run_until_t4 false",
                  "reflect is reachable in a dry-run (compute-phase) turn")
        ctx.check(bool(allow), "C19.GATE", f"{fn.qual}/allowed-by-config", fn.loc(c), f"reflect is dominated by `{allow[0] if allow else ''}` = cfg t3.allow_reflection",
                  "reflect is reachable without t3.allow_reflection being true")
        ctx.check(bool(plan), "C19.GATE", f"{fn.qual}/requested-by-plan", fn.loc(c), f"reflect is dominated by `{plan[0] if plan else ''}` = plan.reflection / planner flag",
                  "reflect is reachable without the plan requesting reflection")
    # gate-closed returns are `return None` and precede any bundle construction
    first_work = [n for n in cfg.nodes for c in node_calls(n) if call_tail(c) in ("ReflectionBundle", "_safe_extract_snippets")]
    for n in cfg.nodes:
        if n.kind == "stmt" and isinstance(n.ast, ast.Return) and (n.ast.value is None or (isinstance(n.ast.value, ast.Constant) and n.ast.value.value is None)):
            ok = not any(cfg.dominates(w, n) for w in first_work)
            ctx.check(ok, "C19.GATE", f"{fn.qual}/closed-gate-computes-nothing@{len(ctx.results)}", fn.loc(n.ast), "the gate-closed return precedes any reflection work",
                      "a `return None` follows reflection work")
    # run_turn: writer and telemetry
    rt = ctx.func(RUN_TURN)
    rcfg = ctx.cfg(rt)
    for tail, what in (("write_reflection_entries", "memory write"), ("log_t3_reflection", "telemetry line")):
        sites = [(n, c) for n in rcfg.nodes for c in node_calls(n) if call_tail(c) == tail]
        ctx.floor("C19.GATE", f"{tail} sites in run_turn", len(sites), 1)
        for n, c in sites:
            facts = rcfg.facts(n)
            ok = ("res is not None", True) in facts or ("res is None", False) in facts
            if tail == "write_reflection_entries":
                ok = ok and any(p and "memory_entries" in a for a, p in facts)
            ctx.check(ok, "C19.GATE", f"{rt.qual}/{tail}-guarded", rt.loc(c), f"the reflection {what} runs only on a non-empty result of this turn",
                      f"the reflection {what} is reachable without a reflection result")


def rule_fresh(ctx) -> None:
    fn = ctx.func(RUNNER)
    cfg = ctx.cfg(fn)
    setters = [n for n in cfg.nodes if _sets_attr(ctx, fn, n, "_reflection_result")]
    # a `for x in (<non-empty literal containing the attribute>)` whose body always performs the setattr iterates at least once:
    # the loop head then stands for the store (the CFG alone cannot rule out the zero-iteration exit of a literal tuple)
    for h in [n for n in cfg.nodes if n.kind == "iter" and isinstance(n.ast.iter, (ast.Tuple, ast.List)) and any(const_str(x) == "_reflection_result" for x in n.ast.iter.elts)]:
        tb = [t for t, l in h.succ if l == "T"]
        if tb and cfg.path(tb, lambda n: n is h, avoid=lambda n: n in setters, include_start=True) is None:
            setters.append(h)
    p = cfg.path([cfg.entry], lambda n: n is cfg.exit, avoid=lambda n: n in setters, edge_ok=no_exc)
    ctx.check(bool(setters) and p is None, "C19.FRESH", f"{fn.qual}/always-resets-result", fn.loc(),
              "every return path of the runner (re)sets ctx._reflection_result (None when the gate is closed)",
              "the runner can return without touching ctx._reflection_result: with a reused ctx the previous turn's result stays and is "
              "written/logged again although reflection did not run this turn", ctx.path_witness(fn, p))
    rt = ctx.func(RUN_TURN)
    rcfg = ctx.cfg(rt)
    runs = [n for n in rcfg.nodes if any(call_tail(c) == "_run_reflection_if_enabled" for c in node_calls(n))]
    # per-turn values that run_turn parks on ctx are written on EVERY turn: a `setattr(ctx, A, f(ctx.<turn input>))` that runs
    # only `if not hasattr(ctx, A)` keeps the first turn's value on a ctx object reused across turns (now_iso -> the timestamp
    # of every later reflection entry)
    rcfg = ctx.cfg(rt)
    n_park = 0
    for n in rcfg.nodes:
        for c in node_calls(n):
            if dotted(c.func) == "setattr" and len(c.args) == 3 and isinstance(c.args[0], ast.Name) and c.args[0].id == rt.params[1] and const_str(c.args[1]):
                attr = const_str(c.args[1])
                dep = any(isinstance(z, ast.Call) and dotted(z.func) == "getattr" and len(z.args) >= 2 and isinstance(z.args[0], ast.Name) and z.args[0].id == rt.params[1]
                          for z in ast.walk(ctx.rd(rt).inline(c.args[2], n)))
                if not dep:
                    continue
                n_park += 1
                stale = any((not pol) and t.replace('"', "'") == f"hasattr({rt.params[1]}, '{attr}')" for t, pol in rcfg.facts(n))
                # ... and for every clock the consumers accept: a refresh admitted for ONE exact type only (isinstance(x, int)) leaves a
                # float clock with the previous turn's value, while write_reflection_entries takes int(now_ms) of any number
                typed = [t for t, pol in rcfg.facts(n) if pol and t.replace(" ", "").startswith("isinstance(") and t.replace(" ", "").endswith(",int)")]
                ctx.check(not typed, "C19.FRESH", ctx.okey(f"{rt.qual}/per-turn-ctx-value-rewritten-for-any-clock"), rt.loc(c), f"ctx.{attr} is refreshed for every numeric clock",
                          f"ctx.{attr} is refreshed only where `{typed[0] if typed else ''}`: with a float clock (now_ms = 22345.0) a reused ctx keeps the previous turn's value and the turn's reflection entry "
                          "is stamped with it - the same id and text get another timestamp than on a fresh ctx")
                # ... and when the derivation itself fails inside a swallowing try (a clock beyond year 9999 cannot be rendered), the handler
                # clears the value: otherwise the earlier turn's value survives on a reused ctx
                for st, part in enclosing(ctx.prog, rt, c):
                    if isinstance(st, ast.Try) and part == "body" and any(isinstance(y, ast.Call) for y in ast.walk(c.args[2])):   # the derivation itself sits in the try
                        swallow = [h for h in st.handlers if not any(isinstance(y, ast.Raise) for b in h.body for y in ast.walk(b))]
                        cleared = all(any(isinstance(y, ast.Call) and dotted(y.func) in ("setattr", "delattr") and len(y.args) >= 2 and const_str(y.args[1]) == attr for b in h.body for y in ast.walk(b))
                                      for h in swallow)
                        ctx.check(cleared, "C19.FRESH", ctx.okey(f"{rt.qual}/per-turn-ctx-value-cleared-when-underivable"), rt.loc(st), f"a failed derivation of ctx.{attr} clears the value of an earlier turn",
                                  f"the try around `{src(c)[:50]}` swallows a failed derivation and leaves ctx.{attr} as it was: on a ctx reused across turns a clock that cannot be rendered (now_ms beyond "
                                  "year 9999) keeps the PREVIOUS turn's value, and this turn's reflection entry is stamped with it - id and timestamp are no function of agent, turn, slot and text")
                        break
                ctx.check(not stale, "C19.FRESH", ctx.okey(f"{rt.qual}/per-turn-ctx-value-rewritten"), rt.loc(c), f"ctx.{attr} is derived from this turn's inputs on every turn",
                          f"ctx.{attr} is derived from this turn's inputs only `if not hasattr(ctx, '{attr}')`: a ctx object reused across turns keeps the first turn's value - "
                          "reflection entries of later turns get the first turn's timestamp, so id and timestamp are not functions of agent, turn, slot and text")
    ctx.floor("C19.FRESH", "per-turn values parked on ctx by run_turn", n_park, 1)
    ctx.floor("C19.FRESH", "runner call in run_turn", len(runs), 1)
    reads = [(n, c) for n in rcfg.nodes for c in node_calls(n) if dotted(c.func) == "getattr" and len(c.args) >= 2 and const_str(c.args[1]) == "_reflection_result"]
    ctx.floor("C19.FRESH", "reads of ctx._reflection_result in run_turn", len(reads), 2)
    for n, c in reads:
        # the try around the runner swallows its exceptions: the read must lie after the try statement as a whole
        p = rcfg.path([rcfg.entry], lambda t: t is n, avoid=lambda t: t in runs)
        ctx.check(p is None, "C19.FRESH", f"{rt.qual}/read-after-runner@{len([r for r in ctx.results if r.rule == 'C19.FRESH'])}", rt.loc(c),
                  "the stashed result is read only after this turn's runner call", "ctx._reflection_result is read on a path that skips this turn's runner call",
                  ctx.path_witness(rt, p))


def rule_stored_text_not_lengthened(ctx) -> None:
    """"each with a summary within the token limit": the limit is enforced by reflect() (truncate after normalising); the writer
    stores that summary.  Whatever the writer still does to the text between the entry and the stored episode must not be able to
    add whitespace-separated tokens: str() / strip / slicing are fine; a compatibility normalisation (NFKC / NFKD turns one
    character such as U+FDFA into several words), replace / format / join / padding are not."""
    EXPANDING = {"replace", "format", "format_map", "join", "expandtabs", "center", "ljust", "rjust", "zfill", "translate"}
    fn = ctx.func(WRITER + ":_normalize_entry")
    rd = ctx.rd(fn)
    cfg = ctx.cfg(fn)
    stores = []
    for n in cfg.nodes:
        if n.kind != "stmt":
            continue
        for x in walk_no_defs(n.ast):
            if isinstance(x, ast.Dict):
                for k, v in zip(x.keys, x.values):
                    if k is not None and const_str(k) == "text":
                        stores.append((n, v))
    ctx.floor("C19.TOK", "stores of the episode text in the writer", len(stores), 1)
    for n, v in stores:
        if isinstance(v, ast.Subscript):
            continue  # a re-ordering copy of an already built record
        sl = rd.slice([v], n)
        scope = list(sl.nodes())
        for c in [y for y in scope if isinstance(y, ast.Call)]:
            r = ctx.prog.callee(fn, c)
            if r and r[1] in ctx.prog.funcs and ctx.prog.funcs[r[1]].module.name == fn.module.name:
                scope += list(ast.walk(ctx.prog.funcs[r[1]].node))
        bad = None
        for y in scope:
            if isinstance(y, ast.Call) and call_tail(y) == "normalize" and any(isinstance(a, ast.Constant) and isinstance(a.value, str) and "K" in a.value.upper() for a in y.args):
                bad = bad or y
            if isinstance(y, ast.Call) and isinstance(y.func, ast.Attribute) and y.func.attr in EXPANDING:
                bad = bad or y
            if isinstance(y, ast.BinOp) and isinstance(y.op, (ast.Add, ast.Mod)) and any(isinstance(z, ast.Constant) and isinstance(z.value, str) for z in (y.left, y.right)):
                bad = bad or y
        ctx.check(bad is None, "C19.TOK", ctx.okey(f"{fn.qual}/stored-text-not-lengthened"), fn.loc(bad if bad is not None else v), "the writer only copies / strips the truncated summary",
                  f"`{src(bad)[:50] if bad is not None else ''}` is applied to the summary AFTER reflect() cut it to summary_tokens: it can add whitespace-separated tokens (NFKC turns U+FDFA into four words), "
                  "so the stored entry exceeds the token limit while result.summary and the log line still look within it")


def rule_plan_request_fresh(ctx) -> None:
    """"requested by the plan" means THIS turn's plan.  The gate falls back on a flag that run_policy parks on the state; every
    planner branch of run_policy must rewrite it (the rule-based planner never requests reflection: it clears the flag), or a
    request made by an earlier LLM-planned turn opens the gate for a later rule-based one."""
    rp = ctx.func("clematis.engine.stages.t3.policy:run_policy")
    cfg = ctx.cfg(rp)
    # the flag the gate reads
    runner = ctx.func(RUNNER)
    flags = {const_str(c.args[1]) for c in walk_no_defs(runner.node) if isinstance(c, ast.Call) and dotted(c.func) == "getattr" and len(c.args) >= 2 and const_str(c.args[1]) and "reflection" in const_str(c.args[1]) and "flag" in const_str(c.args[1])}
    flags |= {const_str(c.args[0]) for c in walk_no_defs(runner.node) if isinstance(c, ast.Call) and call_tail(c) == "get" and c.args and const_str(c.args[0]) and "reflection" in const_str(c.args[0]) and "flag" in const_str(c.args[0])}
    if not flags:
        raise AnalysisError("anchor-vanished: the planner-reflection flag the gate falls back on")
    sets = [n for n in cfg.nodes for c in node_calls(n) if dotted(c.func) == "setattr" and len(c.args) == 3 and const_str(c.args[1]) in flags]
    rets = [n for n in cfg.nodes if n.kind == "stmt" and isinstance(n.ast, ast.Return)]
    ctx.floor("C19.GATE", "returns of run_policy", len(rets), 2)
    for r in rets:
        # some write of the flag lies on the way to this return, after the last other return was passed
        ok = any(cfg.path([s], lambda z: z is r, avoid=lambda z: z in rets and z is not r, include_start=False) is not None for s in sets)
        ctx.check(ok, "C19.GATE", ctx.okey(f"{rp.qual}/planner-branch-rewrites-the-request"), rp.loc(r.ast), f"this planner branch (re)writes state.{sorted(flags)[0]} before it returns",
                  f"this branch of run_policy returns without touching state.{sorted(flags)[0]}, which the reflection gate falls back on when plan.reflection is false: a request left by an earlier "
                  "LLM-planned turn stays set, and a turn whose plan does not request reflection runs it and writes a memory entry")


def rule_plan_request_every_state_shape(ctx) -> None:
    """the gate looks the stashed request up as a KEY of a dict state and as an ATTRIBUTE of any other: whoever writes or clears
    it must do so in both shapes (setattr on a plain dict raises and is swallowed; hasattr on it is False - a request stashed on
    a dict state is then never cleared), and the gate itself consumes it - run_turn plans through deliberate(), which never
    rewrites the flag, so left in place it opens "requested by the plan" for every later turn."""
    runner = ctx.func(RUNNER)
    flags = {const_str(c.args[0]) for c in walk_no_defs(runner.node) if isinstance(c, ast.Call) and call_tail(c) == "get" and c.args and const_str(c.args[0]) and "reflection" in const_str(c.args[0]) and "flag" in const_str(c.args[0])}
    if not flags:
        raise AnalysisError("anchor-vanished: the gate's dict-shaped read of the planner-reflection flag")
    flag = sorted(flags)[0]

    def writes(fn):
        attr = [x for x in walk_no_defs(fn.node) if isinstance(x, ast.Call) and dotted(x.func) == "setattr" and len(x.args) == 3 and const_str(x.args[1]) == flag]
        key = [x for x in walk_no_defs(fn.node) if isinstance(x, ast.Assign) and any(isinstance(t, ast.Subscript) and const_str(t.slice) == flag for t in x.targets)]
        return attr, key

    rp = ctx.func("clematis.engine.stages.t3.policy:run_policy")
    a, k = writes(rp)
    ctx.floor("C19.GATE", "attribute-shaped writes of the request flag in run_policy", len(a), 2)
    ctx.check(len(k) >= len(a), "C19.GATE", f"{rp.qual}/request-flag-written-in-both-state-shapes", rp.loc(a[0]) if a else rp.loc(), f"every write of state.{flag} has its state[{flag!r}] twin",
              f"run_policy writes / clears the request flag with setattr only ({len(a)} sites, {len(k)} key stores): on a dict state setattr raises (swallowed) and hasattr is False, while the gate reads "
              f"state.get({flag!r}) - a request stashed on a dict state is never cleared and later turns whose plan requests nothing reflect and write memory entries")
    a2, k2 = writes(runner)
    cleared = any(isinstance(x.args[2], ast.Constant) and x.args[2].value is False for x in a2) and any(isinstance(x.value, ast.Constant) and x.value.value is False for x in k2)
    ctx.check(cleared, "C19.GATE", f"{runner.qual}/request-flag-consumed-by-its-turn", runner.loc(), "the gate resets the stashed request (both state shapes) once it has read it",
              f"the gate reads state[{flag!r}] / state.{flag} and leaves it set: run_turn plans through deliberate(), which never rewrites the flag, so one request opens the 'requested by the plan' gate for "
              "every later turn - reflection runs and writes although the plans of those turns did not ask for it")


def rule_cap(ctx) -> None:
    w = ctx.func(WRITER + ":write_reflection_entries")
    cfg = ctx.cfg(w)
    rd = ctx.rd(w)
    idx_names = _names_reading(rd, "mem_index") | {d.name for d in rd.all_defs if d.value is not None and ("mem_index" in src(d.value) or (isinstance(d.value, ast.Call) and call_tail(d.value) == "_choose_index"))}
    caps = _names_reading(rd, "ops_reflection")
    ent_names = {d.name for d in rd.all_defs if d.kind == "assign" and d.value is not None and any(isinstance(y, ast.Attribute) and y.attr == "memory_entries" for y in ast.walk(d.value))}
    adds = [(n, c) for n in sorted(cfg.nodes, key=lambda x: x.id) for c in node_calls(n) if call_tail(c) == "add" and isinstance(c.func.value, ast.Name) and (c.func.value.id in idx_names or c.func.value.id == "index")]
    ctx.floor("C19.CAP", "index.add sites", len(adds), 1)
    for i_a, (n, c) in enumerate(adds, 1):
        facts = cfg.facts(n)
        ok = any((f"{oc} <= 0", False) in facts or (f"{oc} > 0", True) in facts for oc in caps)
        ctx.check(ok, "C19.CAP", f"{w.qual}/add-after-cap-check#{i_a}", w.loc(c), "index.add is reachable only where ops_cap > 0",
                  "index.add is reachable with ops_cap <= 0")
        loops = [st for st, part in enclosing(ctx.prog, w, c) if isinstance(st, ast.For) and part == "body"]
        okl = bool(loops) and any(isinstance(x, ast.Name) and x.id in ent_names for x in ast.walk(loops[-1].iter))
        ctx.check(okl, "C19.CAP", f"{w.qual}/add-iterates-truncated#{i_a}", w.loc(c), "the write loop iterates the truncated `entries`", "the write loop does not iterate the truncated entry list")
    # truncation
    truncs = [d for d in rd.all_defs if d.name in ent_names and d.value is not None and isinstance(d.value, ast.Subscript) and isinstance(d.value.slice, ast.Slice)
              and d.value.slice.upper is not None and src(d.value.slice.upper) in caps and d.value.slice.lower is None]
    ctx.check(bool(truncs), "C19.CAP", f"{w.qual}/truncate-to-cap", w.loc(), "entries = entries[:ops_cap]", "the entry list is not truncated to ops_cap before writing")
    # every path from entry to a write loop passes the truncation or the `len(entries) > ops_cap` false branch
    capdef = [d for d in rd.all_defs if d.name in caps and d.value is not None]
    ctx.check(bool(capdef) and all("ops_reflection" in src(d.value) for d in capdef), "C19.CAP", f"{w.qual}/cap-source", w.loc(),
              "ops_cap is read from scheduler.budgets.ops_reflection", "ops_cap is not the configured ops_reflection budget")
    for q in (REFLECT + ":_reflect_rulebased", REFLECT + ":_reflect_llm"):
        f = ctx.func(q)
        frd = ctx.rd(f)
        ents = {src(kwarg(c, "memory_entries")) for c in walk_no_defs(f.node) if isinstance(c, ast.Call) and call_tail(c) == "ReflectionResult" and isinstance(kwarg(c, "memory_entries"), ast.Name)}
        # the cap parameter: the position at which reflect() passes its ops_reflection budget
        fcaps = _names_reading(frd, "ops_reflection")
        disp = ctx.func(REFLECT + ":reflect")
        dcaps = _names_reading(ctx.rd(disp), "ops_reflection")
        for c in walk_no_defs(disp.node):
            if isinstance(c, ast.Call) and call_tail(c) == f.name:
                for i, a in enumerate(c.args):
                    if isinstance(a, ast.Name) and a.id in dcaps and i < len(f.params):
                        fcaps.add(f.params[i])
        ds = [d for d in frd.all_defs if d.name in ents and d.value is not None]
        ok = bool(ds) and all(isinstance(d.value, ast.IfExp) and any(src(d.value.test).replace(" ", "") == f"{oc}>0" for oc in fcaps) and isinstance(d.value.body, ast.List) and len(d.value.body.elts) == 1
                              and isinstance(d.value.orelse, ast.List) and not d.value.orelse.elts for d in ds)
        ctx.check(ok, "C19.CAP", f"{f.qual}/at-most-one-entry", f.loc(), "entries = [entry] if ops_cap > 0 else []", "the backend can emit more than one entry or ignores ops_cap == 0")


def rule_tok(ctx) -> None:
    for q in (REFLECT + ":_reflect_rulebased", REFLECT + ":_reflect_llm"):
        f = ctx.func(q)
        cfg = ctx.cfg(f)
        rd = ctx.rd(f)
        sums = {src(kwarg(c, "summary")) for c in walk_no_defs(f.node) if isinstance(c, ast.Call) and call_tail(c) == "ReflectionResult" and isinstance(kwarg(c, "summary"), ast.Name)}
        ds = [d for d in rd.all_defs if d.name in sums and d.value is not None]
        ok = bool(ds)
        why = "no summary definition"
        for d in ds:
            v = d.value
            if not (isinstance(v, ast.Call) and call_tail(v) == "_truncate_tokens" and len(v.args) == 2):
                ok = False
                why = f"summary = {src(v)[:50]} is not _truncate_tokens(text, limit)"
                continue
            lim = rd.slice([v.args[1]], d.node)
            if "summary_tokens" not in lim.constants():
                ok = False
                why = "the limit is not reflection.summary_tokens"
            text_sl = rd.slice([v.args[0]], d.node)
            norm = any(call_tail(c) == "_normalize" for c in text_sl.calls())
            # every leaf text feeding the truncation must pass _normalize: the direct argument is a _normalize call or a join of normalised pieces
            a0 = v.args[0]
            direct = isinstance(a0, ast.Call) and call_tail(a0) == "_normalize"

            def elems_norm(e, at, bound=None, depth=0) -> bool:
                bound = bound or {}
                if depth > 6:
                    return False
                if isinstance(e, ast.Call) and call_tail(e) == "_normalize":
                    return True
                if isinstance(e, (ast.List, ast.Tuple)):
                    return bool(e.elts) and all(elems_norm(x, at, bound, depth + 1) for x in e.elts)
                if isinstance(e, (ast.GeneratorExp, ast.ListComp)):
                    g = e.generators[0]
                    if isinstance(e.elt, ast.Call) and call_tail(e.elt) == "_normalize":
                        return True
                    if isinstance(e.elt, ast.Name) and isinstance(g.target, ast.Name) and e.elt.id == g.target.id:
                        return elems_norm(g.iter, at, bound, depth + 1)
                    return False
                if isinstance(e, ast.Name):
                    dsx = rd.reaching(e.id, at)
                    if not dsx:
                        return False
                    for dx in dsx:
                        if dx.kind == "assign":
                            if not elems_norm(dx.value, dx.node, bound, depth + 1):
                                return False
                        elif dx.kind == "mutate" and isinstance(dx.target, ast.Call) and dx.target.func.attr in ("extend", "append"):
                            arg0 = dx.target.args[0] if dx.target.args else None
                            if arg0 is None or not elems_norm(arg0, dx.node, bound, depth + 1):
                                return False
                        else:
                            return False
                    return True
                return False

            joined = False
            hops = 0
            while isinstance(a0, ast.Name) and hops < 4:
                uvx = rd.unique_value(a0.id, d.node)
                if uvx is not None and isinstance(uvx[0], ast.Name):
                    a0 = uvx[0]
                    hops += 1
                else:
                    break
            if isinstance(a0, ast.Name):
                dsj = [dd for dd in rd.reaching(a0.id, d.node) if dd.kind != "mutate"]
                joined = bool(dsj) and all(dd.value is not None and isinstance(dd.value, ast.Call) and call_tail(dd.value) == "join" and const_str(dd.value.func.value) == " "
                                           and elems_norm(dd.value.args[0], dd.node) for dd in dsj)
            if not (direct or joined):
                ok = False
                why = f"the truncated text `{src(a0)[:40]}` is not whitespace-normalised first: _truncate_tokens splits on ' ' while tokens are counted with split()"
        ctx.check(ok, "C19.TOK", f"{f.qual}/summary-normalised-then-truncated", f.loc(ds[0].value) if ds else f.loc(),
                  "summary = _truncate_tokens(_normalize(.)-ed text, summary_tokens)", why)
        ent = [x for x in walk_no_defs(f.node) if isinstance(x, ast.Dict) and any(const_str(k) == "text" for k in x.keys if k is not None)]
        oke = bool(ent) and all(src(v) in sums for e in ent for k, v in zip(e.keys, e.values) if k is not None and const_str(k) == "text")
        ctx.check(oke, "C19.TOK", f"{f.qual}/entry-text-is-summary", f.loc(), "the memory entry's text is the truncated summary", "the memory entry's text is not the truncated summary")
    tt = ctx.func(REFLECT + ":_truncate_tokens")
    rets = [x for x in walk_no_defs(tt.node) if isinstance(x, ast.Return)]
    ok = any("[:max_tokens]" in src(r.value) for r in rets if r.value is not None) and any(isinstance(x, ast.Compare) and "max_tokens" in src(x) and isinstance(x.ops[0], ast.LtE) for x in walk_no_defs(tt.node))
    ctx.check(ok, "C19.TOK", f"{tt.qual}/prefix-of-tokens", tt.loc(), "_truncate_tokens keeps the first max_tokens tokens (or all when fewer)", "_truncate_tokens does not keep a max_tokens prefix")


def rule_pureid(ctx) -> None:
    allowed = {"agent_id", "turn_id", "now_ms", "now_iso"}
    for q in (WRITER + ":_episode_id", WRITER + ":_now_iso_from_ctx"):
        f = ctx.func(q)
        ef = Effects(ctx, depth=3)
        bad = [e for e in ef.of(f) if e.kind in ("nondet", "env", "io", "io-read") or (e.kind == "mutate" and e.origin not in ("fresh", "unknown"))]
        attrs = set()
        for x in walk_no_defs(f.node):
            if isinstance(x, ast.Call) and dotted(x.func) in ("getattr", "hasattr") and len(x.args) >= 2 and const_str(x.args[1]):
                attrs.add(const_str(x.args[1]))
            if isinstance(x, ast.Attribute) and isinstance(x.value, ast.Name) and x.value.id == "ctx":
                attrs.add(x.attr)
        extra = attrs - allowed
        ctx.check(not bad and not extra, "C19.PUREID", f"{f.qual}/pure", f.loc(), f"reads only ctx.{sorted(attrs)} and its arguments; no clock/RNG/uuid",
                  f"id/timestamp helper is not a pure function of (agent, turn, slot, text, turn clock): {[e.fmt() for e in bad][:2]} extra ctx reads {sorted(extra)}")
        if q.endswith("_episode_id"):
            hashed = {src(c.args[0]) for c in walk_no_defs(f.node) if isinstance(c, ast.Call) and call_tail(c) == "update" and c.args}
            need = ("agent", "turn", "slot", "text")
            ok = all(any(nm in h for h in hashed) for nm in need)
            ctx.check(ok, "C19.PUREID", f"{f.qual}/hash-inputs", f.loc(), "the id hashes agent, turn, slot and text", f"the id hash input is {sorted(hashed)}")


def rule_no_shared_state(ctx) -> None:
    """'fixture missing -> nothing is written' has to hold for every history in one process: the LLM fixture adapter and the
    reflection backends keep no state shared between constructions / calls (no class-level or module-level container that a
    method fills), and the adapter's constructor reaches a normal return only after it tested that the fixture file exists"""
    mods = ["clematis.adapters.llm", "clematis.engine.stages.t3.reflect", "clematis.engine.orchestrator.reflection"]
    n_cls = 0
    for mn in mods:
        m = ctx.prog.module(mn)
        ctx.analysed_modules.add(mn)
        mutable_ctor = lambda v: isinstance(v, (ast.Dict, ast.List, ast.Set, ast.DictComp, ast.ListComp, ast.SetComp)) or (
            isinstance(v, ast.Call) and (dotted(v.func) or "").split(".")[-1] in ("dict", "list", "set", "defaultdict", "OrderedDict", "deque", "Counter"))
        shared: Dict[str, Set[str]] = {}  # class name ("" = module) -> attribute / global names holding a mutable container
        for st in m.tree.body:
            if isinstance(st, (ast.Assign, ast.AnnAssign)) and st.value is not None and mutable_ctor(st.value):
                for t in (st.targets if isinstance(st, ast.Assign) else [st.target]):
                    if isinstance(t, ast.Name) and not t.id.startswith("__all"):
                        shared.setdefault("", set()).add(t.id)
            if isinstance(st, ast.ClassDef):
                n_cls += 1
                for cs in st.body:
                    if isinstance(cs, (ast.Assign, ast.AnnAssign)) and cs.value is not None and mutable_ctor(cs.value):
                        for t in (cs.targets if isinstance(cs, ast.Assign) else [cs.target]):
                            if isinstance(t, ast.Name):
                                shared.setdefault(st.name, set()).add(t.id)
        for fn in m.funcs.values():
            cls = fn.cls.name if getattr(fn, "cls", None) is not None and hasattr(fn.cls, "name") else (fn.qual.split(":")[1].split(".")[0] if "." in fn.qual.split(":")[1] else "")
            for x in walk_no_defs(fn.node):
                tgt = None
                if isinstance(x, (ast.Assign, ast.AugAssign)):
                    for t in (x.targets if isinstance(x, ast.Assign) else [x.target]):
                        if isinstance(t, ast.Subscript):
                            tgt = t.value
                elif isinstance(x, ast.Call) and isinstance(x.func, ast.Attribute) and x.func.attr in ("append", "extend", "add", "update", "setdefault", "insert", "pop", "clear", "popitem", "remove"):
                    tgt = x.func.value
                if tgt is None:
                    continue
                hit = None
                if isinstance(tgt, ast.Attribute) and isinstance(tgt.value, ast.Name) and tgt.value.id in ("self", "cls", cls) and tgt.attr in shared.get(cls, set()):
                    # an instance attribute of the same name assigned in __init__ shadows the class attribute
                    init = m.funcs.get(f"{cls}.__init__")
                    shadow = init is not None and any(isinstance(y, (ast.Assign, ast.AnnAssign)) and any(
                        isinstance(t, ast.Attribute) and src(t) == f"self.{tgt.attr}" for t in (y.targets if isinstance(y, ast.Assign) else [y.target])) for y in walk_no_defs(init.node))
                    if not shadow or tgt.value.id != "self":
                        hit = f"{cls}.{tgt.attr}"
                elif isinstance(tgt, ast.Name) and tgt.id in shared.get("", set()) and not ctx.rd(fn).is_local(tgt.id):
                    hit = tgt.id
                if hit:
                    ctx.violation("C19.FAIL", f"{fn.qual}/shared-state:{hit}", fn.loc(x),
                                  f"`{src(x)[:50]}` fills `{hit}`, a container shared by every adapter / call in the process: a later reflection is answered from state left by an earlier one "
                                  "(a fixture that has gone missing is still served, so 'missing fixture -> nothing written' fails)")
    ctx.floor("C19.FAIL", "classes on the reflection backend path", n_cls, 3)
    init = ctx.func("clematis.adapters.llm:FixtureLLMAdapter.__init__")
    cfg = ctx.cfg(init)
    exists = [n for n in cfg.nodes if n.kind == "cond" and "exists()" in src(n.ast)]
    p = cfg.path([cfg.entry], lambda x: x is cfg.exit, avoid=lambda x: x in exists, edge_ok=no_exc) if exists else [cfg.entry]
    # the 'missing' side of the test must not reach a normal return
    if p is None:
        for e in exists:
            neg = isinstance(e.ast, ast.UnaryOp) and isinstance(e.ast.op, ast.Not) or (isinstance(e.ast, ast.BoolOp) and any(isinstance(v, ast.UnaryOp) and isinstance(v.op, ast.Not) and "exists()" in src(v) for v in e.ast.values))
            missing = [t for t, l in e.succ if l == ("T" if neg else "F")]
            q = cfg.path(missing, lambda x: x is cfg.exit, edge_ok=no_exc)
            if q is not None:
                p = [e] + q
    ctx.check(bool(exists) and p is None, "C19.FAIL", f"{init.qual}/exists-check-on-every-construction", init.loc(), "every construction tests that the fixture file exists before it can succeed",
              "the adapter can be constructed although the fixture file does not exist (check skipped, or its 'missing' side returns normally)", ctx.path_witness(init, p) if p else None)
    ctx.holds("C19.FAIL", "reflection-path/no-shared-containers", "clematis/adapters/llm.py", f"no class-level or module-level container is filled by a method in {mods}")


def rule_iso(ctx) -> None:
    rt = ctx.func(RUN_TURN)
    cfg = ctx.cfg(rt)
    refl_nodes = [n for n in cfg.nodes if any(call_tail(c) in ("_run_reflection_if_enabled", "write_reflection_entries", "log_t3_reflection") for c in node_calls(n))]
    ctx.floor("C19.ISO", "reflection call sites in run_turn", len(refl_nodes), 3)
    applies = [n for n in cfg.nodes if any(call_tail(c) == "_append_jsonl" and c.args and const_str(c.args[0]) == "apply.jsonl" for c in node_calls(n))]
    t4flag = [n for n in cfg.nodes if n.kind == "cond" and src(n.ast) == "t4_enabled"]
    for n in refl_nodes:
        # on the t4-enabled branch the apply record precedes; on the bypass branch there is no apply record at all
        p = cfg.path([t for c in t4flag for t, l in c.succ if l == "T"], lambda x: x is n, avoid=lambda x: x in applies) if t4flag else [n]
        ctx.check(bool(t4flag) and p is None, "C19.ISO", ctx.okey(f"{rt.qual}/after-apply-record"), rt.loc(n.ast) if n.ast is not None else rt.loc(),
                  "with T4 on, reflection is reached only after the apply.jsonl record was appended",
                  "a reflection step is reachable before the apply record of the turn", ctx.path_witness(rt, p))
    first = [n for n in cfg.nodes if any(call_tail(c) == "_run_reflection_if_enabled" for c in node_calls(n))]
    after = cfg.reach(first, include_start=False)
    protected = {"utter", "t1", "t2", "t4", "apply", "plan"}
    bad = []
    for n in after:
        if n.kind == "stmt" and isinstance(n.ast, (ast.Assign, ast.AugAssign, ast.AnnAssign)):
            tg = n.ast.targets if isinstance(n.ast, ast.Assign) else [n.ast.target]
            for t in tg:
                root = t
                while isinstance(root, (ast.Attribute, ast.Subscript)):
                    root = root.value
                if isinstance(root, ast.Name) and root.id in protected:
                    bad.append(n)
    ctx.check(not bad, "C19.ISO", f"{rt.qual}/no-store-to-turn-results-after-reflection", rt.loc(bad[0].ast) if bad else rt.loc(),
              "no statement reachable after the reflection call assigns or mutates utter/plan/t1/t2/t4/apply",
              f"`{src(bad[0].ast)[:60]}` changes a turn result after reflection ran" if bad else "")
    ef = Effects(ctx, depth=3)
    r = ctx.func(RUNNER)
    muts = [e for e in ef.of(r) if e.kind == "mutate" and e.origin in ("param:plan", "param:t2_obj", "param:utter")]
    ctx.check(not muts, "C19.ISO", f"{r.qual}/arguments-not-written", r.loc(), "the runner does not write its plan / t2 / utter arguments",
              f"the reflection runner mutates a turn result: {muts[0].fmt() if muts else ''}")
    for q in (REFLECT + ":reflect",):
        f = ctx.func(q)
        m2 = [e for e in ef.of(f) if e.kind == "mutate" and e.origin.startswith("param:bundle")]
        ctx.check(not m2, "C19.ISO", f"{f.qual}/bundle-not-written", f.loc(), "reflect() does not write through its bundle (plan/state view/snippets)",
                  f"reflect() mutates its bundle: {m2[0].fmt() if m2 else ''}")


def rule_fail(ctx) -> None:
    fn = ctx.func(RUNNER)
    cfg = ctx.cfg(fn)
    rd = ctx.rd(fn)
    # error path result
    rf_names = _reflect_fn_names(ctx, fn)
    hnodes = [n for n in cfg.nodes if n.kind == "handler" and any(any(isinstance(c.func, ast.Name) and c.func.id in rf_names for c in ast.walk(s) if isinstance(c, ast.Call)) for s in n.stmt.body)]
    ctx.floor("C19.FAIL", "handler of the reflect call", len(hnodes), 1)
    for h in hnodes:
        ctors = [c for st in h.ast.body for c in ast.walk(st) if isinstance(c, ast.Call) and call_tail(c) == "ReflectionResult"]
        ok = bool(ctors) and all(isinstance(kwarg(c, "memory_entries"), ast.List) and not kwarg(c, "memory_entries").elts for c in ctors)
        ctx.check(ok and handler_catches_all(h.ast), "C19.FAIL", f"{fn.qual}/error-result-empty", fn.loc(h.ast),
                  "an exception from reflect() yields a result with memory_entries=[] (handler catches Exception)",
                  "the error path does not produce an empty-write result / does not catch Exception")
    # timeout path
    el_names = {d.name for d in rd.all_defs if d.value is not None and "perf_counter" in src(d.value)}
    tnodes = [n for n in cfg.nodes if n.kind == "cond" and any(isinstance(y, ast.Compare) and isinstance(y.ops[0], ast.Gt) and isinstance(y.left, ast.Name) and y.left.id in el_names for y in ast.walk(n.ast))]
    res_names = {src(c.args[2]) for n in cfg.nodes for c in node_calls(n) if dotted(c.func) == "setattr" and len(c.args) == 3 and const_str(c.args[1]) == "_reflection_result"}
    ctx.floor("C19.FAIL", "wall-budget test", len(tnodes), 1)
    for t in tnodes:
        tb = [x for x, l in t.succ if l == "T"][0]
        emptied = []
        for n in cfg.nodes:
            if not cfg.dominates(tb, n) or n.kind != "stmt":
                continue
            if isinstance(n.ast, ast.Assign):
                v = n.ast.value
                if isinstance(v, ast.Call) and call_tail(v) == "ReflectionResult" and isinstance(kwarg(v, "memory_entries"), ast.List) and not kwarg(v, "memory_entries").elts \
                        and any(isinstance(x, ast.Name) and x.id in res_names for x in n.ast.targets):
                    emptied.append(n)
                if any(isinstance(x, ast.Attribute) and x.attr == "memory_entries" for x in n.ast.targets) and isinstance(v, ast.List) and not v.elts:
                    emptied.append(n)
        rebuilt_full = [n for n in cfg.nodes if cfg.dominates(tb, n) and n.kind == "stmt" and isinstance(n.ast, ast.Assign) and isinstance(n.ast.value, ast.Call)
                        and call_tail(n.ast.value) == "ReflectionResult" and n not in emptied]
        if rebuilt_full:
            emptied = []
        ctx.check(bool(emptied), "C19.FAIL", f"{fn.qual}/timeout-drops-entries", fn.loc(t.ast), "on elapsed > time_ms_reflection the result is rebuilt/mutated to memory_entries=[]",
                  "the timeout branch does not drop the memory entries")
    # the stashed value is the final result: no definition of the stashed name is reachable after the stash
    stashes = [(n, c) for n in cfg.nodes for c in node_calls(n) if dotted(c.func) == "setattr" and len(c.args) == 3 and const_str(c.args[1]) == "_reflection_result"
               and isinstance(c.args[2], ast.Name)]
    ctx.floor("C19.FAIL", "stash of the reflection result", len(stashes), 1)
    for n, c in stashes:
        nm = c.args[2].id
        later = [m for m in cfg.reach([n], include_start=False) if any(d.name == nm and d.kind in ("assign", "aug") for d in rd.defs.get(m, []))]
        later += [m for m in cfg.reach([n], include_start=False) if m.kind == "stmt" and isinstance(m.ast, ast.Assign) and any(
            isinstance(t, ast.Attribute) and isinstance(t.value, ast.Name) and t.value.id == nm and t.attr == "memory_entries" for t in m.ast.targets)]
        ctx.check(not later, "C19.FAIL", f"{fn.qual}/stash-is-final", fn.loc(c),
                  f"ctx._reflection_result is set from `{nm}` after its last (re)definition: writer and telemetry see the timeout/error-adjusted result",
                  f"`{nm}` is rebuilt after it was stashed on ctx (L{later[0].lineno if later else 0}): run_turn's write and telemetry read the stale, populated "
                  "result, so a timed-out reflection still writes its memory entry")
    # fail-soft enclosure of the three blocks in run_turn
    rt = ctx.func(RUN_TURN)
    for tail in ("_run_reflection_if_enabled", "write_reflection_entries", "log_t3_reflection"):
        for x in walk_no_defs(rt.node):
            if isinstance(x, ast.Call) and call_tail(x) == tail:
                t = guarded_by_catch_all(ctx.prog, rt, x)
                ok = t is not None
                bad = None
                if t is not None:
                    for h in t.handlers:
                        if handler_catches_all(h):
                            okh, badn = handler_cannot_raise(h)
                            if not okh:
                                bad = badn
                ctx.check(ok and bad is None, "C19.FAIL", f"{rt.qual}/{tail}-fail-soft", rt.loc(x), f"{tail} is enclosed by `except Exception` with a non-raising handler",
                          f"{tail} is not fail-soft ({'handler can raise at ' + src(bad)[:40] if bad is not None else 'no catch-all handler'})")


def run(ctx) -> None:
    rule_no_shared_state(ctx)
    rule_gate(ctx)
    rule_fresh(ctx)
    rule_plan_request_fresh(ctx)
    rule_plan_request_every_state_shape(ctx)
    rule_cap(ctx)
    rule_tok(ctx)
    rule_stored_text_not_lengthened(ctx)
    rule_pureid(ctx)
    rule_iso(ctx)
    rule_fail(ctx)
