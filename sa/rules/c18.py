"""C18 GEL edge weights stay bounded, decay monotonically, keys canonical."""
from __future__ import annotations

import ast
from typing import List, Optional, Set, Tuple

from ..model import AnalysisError, Func, const_str, dotted, kwarg, src, walk_no_defs
from ..util import call_tail, enclosing, find_calls, must_pass, no_exc, node_calls

EXPLANATION = (
    "C18 decided statically on clematis/engine/gel.py (+ the validator for one cross-module obligation): (BOUND) every "
    "weight stored by observe_retrieval is _clamp(., clamp_min, clamp_max) with the bounds read from graph.update, and a "
    "freshly inserted edge reaches that store on every path; (DECAY) tick multiplies by a factor that is 0.0 or "
    "0.5**(dt/half_life) with dt=max(0,.) and half_life>0, stores nothing else, queues exactly the |w2|<floor edges for "
    "deletion and deletes after the iteration; staying inside the bounds under a shrinking map needs 0 in "
    "[clamp_min, clamp_max] - enforced by the validator or by a clamp in tick; (KEY) every insertion into the edge map uses "
    "the key/src/dst triple of _edge_key; (ORDERINS) the candidate list is filtered by the threshold and sorted by the "
    "total key (-score, id) before any truncation, pair generation is bounded by the pair cap; (SCOPE) merge/split only "
    "append under meta, promotion inserts a concept node only if absent and writes only concept<->member edges with values "
    "that do not depend on previous contents, candidate functions do not write; (GATE) no state access before the gate. "
    "Not decided: idempotence/monotonicity as executed value laws, float behaviour to the ulp."
)
RULES = {
    "C18.BOUND": "reaching-definition shape of every rec['weight'] store in observe_retrieval + must-pass from edge creation",
    "C18.DECAY": "interval argument from the shape of dt / decay_factor / the single store; deletion queue guard; cross-module 0-in-bounds obligation",
    "C18.KEY": "provenance of keys at every insertion into the GEL edge map",
    "C18.ORDERINS": "must-pass: total-key sort between the last unsorted definition and every truncation; pair-cap pairing",
    "C18.SCOPE": "write-set of merge/split/promotion/candidate functions",
    "C18.GATE": "gate dominance of every _ensure_graph_store call",
}

GEL = "clematis.engine.gel"


def _is_weight_store(t: ast.AST) -> bool:
    return isinstance(t, ast.Subscript) and const_str(t.slice) == "weight"


def _clamp_call(e: ast.AST) -> Optional[ast.Call]:
    if isinstance(e, ast.Call) and call_tail(e) == "_clamp" and len(e.args) == 3:
        return e
    return None


def _by_key(fn, key: str) -> Set[str]:
    """locals of fn bound to the `<key>` entry of some mapping: x = m.get("<key>", ..) / m["<key>"] / m.setdefault("<key>", ..)"""
    out: Set[str] = set()
    for x in walk_no_defs(fn.node):
        if isinstance(x, (ast.Assign, ast.AnnAssign)) and x.value is not None:
            v = x.value
            if isinstance(v, ast.BoolOp) and v.values:
                v = v.values[0]
            hit = (isinstance(v, ast.Call) and isinstance(v.func, ast.Attribute) and v.func.attr in ("get", "setdefault") and v.args and const_str(v.args[0]) == key) or (
                isinstance(v, ast.Subscript) and const_str(v.slice) == key)
            if hit:
                for t in (x.targets if isinstance(x, ast.Assign) else [x.target]):
                    if isinstance(t, ast.Name):
                        out.add(t.id)
    return out or {key}


def _edge_records(fn, edges: Set[str]) -> Set[str]:
    """locals holding one edge record: loop value of <edges>.items(), <edges>.get(k) / <edges>[k], or a literal stored as <edges>[k] = r"""
    out: Set[str] = set()
    for x in walk_no_defs(fn.node):
        if isinstance(x, ast.For) and isinstance(x.iter, ast.Call) and call_tail(x.iter) == "items" and src(x.iter.func.value) in edges and isinstance(x.target, ast.Tuple) and len(x.target.elts) == 2 \
                and isinstance(x.target.elts[1], ast.Name):
            out.add(x.target.elts[1].id)
        if isinstance(x, ast.Assign) and len(x.targets) == 1:
            t, v = x.targets[0], x.value
            if isinstance(t, ast.Name) and ((isinstance(v, ast.Call) and call_tail(v) == "get" and src(v.func.value) in edges) or (isinstance(v, ast.Subscript) and src(v.value) in edges)):
                out.add(t.id)
            if isinstance(t, ast.Subscript) and src(t.value) in edges and isinstance(v, ast.Name):
                out.add(v.id)
    return out


def rule_bound(ctx) -> None:
    fn = ctx.func(GEL + ":observe_retrieval")
    cfg = ctx.cfg(fn)
    rd = ctx.rd(fn)
    stores = []
    for n in cfg.nodes:
        if n.kind == "stmt" and isinstance(n.ast, ast.Assign) and any(_is_weight_store(t) for t in n.ast.targets) and n in cfg.reachable_from_entry():
            stores.append(n)
    ctx.floor("C18.BOUND", "rec['weight'] stores in observe_retrieval", len(stores), 1)
    for n in stores:
        v = n.ast.value
        vals: List[Tuple[ast.AST, object]] = []
        if isinstance(v, ast.Name):
            for d in rd.reaching(v.id, n):
                if d.kind == "mutate":
                    continue
                vals.append((d.value, d.node))
        else:
            vals.append((v, n))
        for val, at in vals:
            key = f"{fn.qual}/weight-store:{src(val)[:40] if val is not None else '?'}"
            c = _clamp_call(val) if val is not None else None
            if c is None:
                ctx.violation("C18.BOUND", key, fn.loc(val) if val is not None else fn.loc(n.ast),
                              f"rec['weight'] can receive `{src(val)[:60] if val is not None else '?'}`, which is not _clamp(., clamp_min, clamp_max): "
                              "an observation can push an edge weight outside the configured bounds")
                continue
            sl_lo = rd.slice([c.args[1]], at)
            sl_hi = rd.slice([c.args[2]], at)
            ok = "clamp_min" in sl_lo.constants() and "clamp_max" in sl_hi.constants() and "update" in (sl_lo.constants() | sl_hi.constants())
            ctx.check(ok, "C18.BOUND", key, fn.loc(val),
                      "stored weight is _clamp(., lo, hi) with lo/hi read from graph.update.clamp_min/clamp_max",
                      f"clamp bounds `{src(c.args[1])}`, `{src(c.args[2])}` are not the configured graph.update.clamp_min / clamp_max")
    # a newly created record (literal weight) must reach a clamped store before the iteration ends
    creates = [n for n in cfg.nodes if n.kind == "stmt" and isinstance(n.ast, ast.Assign) and isinstance(n.ast.value, ast.Name)
               and any(isinstance(t, ast.Subscript) and src(t.value) in _by_key(fn, "edges") for t in n.ast.targets) and n in cfg.reachable_from_entry()]
    for cn in creates:
        loop_heads = [h for h in cfg.nodes if h.kind == "iter"]
        p = cfg.path([cn], lambda x: x is cfg.exit or x in loop_heads, avoid=lambda x: x in stores, edge_ok=no_exc, include_start=False)
        ctx.check(p is None, "C18.BOUND", f"{fn.qual}/new-edge-reaches-clamped-store", fn.loc(cn.ast),
                  "a newly inserted edge record always reaches the clamped weight store in the same iteration",
                  "a newly inserted edge can keep its literal initial weight (never clamped to the configured bounds)",
                  ctx.path_witness(fn, p))
    # _clamp itself is two-sided
    cl = ctx.func(GEL + ":_clamp")
    xp, lop, hip = (cl.params + ["", "", ""])[:3]
    comps = [c for c in walk_no_defs(cl.node) if isinstance(c, ast.Compare) and len(c.ops) == 1]

    def tests(a: str, op, b: str) -> bool:
        flip = {ast.Gt: ast.Lt, ast.Lt: ast.Gt, ast.GtE: ast.LtE, ast.LtE: ast.GtE}
        return any((src(c.left) == a and isinstance(c.ops[0], op) and src(c.comparators[0]) == b) or (src(c.left) == b and isinstance(c.ops[0], flip[op]) and src(c.comparators[0]) == a) for c in comps)

    upper = tests(xp, ast.Gt, hip) or tests(xp, ast.GtE, hip)
    lower = tests(xp, ast.Lt, lop) or tests(xp, ast.LtE, lop)
    ctx.check(upper and lower, "C18.BOUND", f"{cl.qual}/two-sided", cl.loc(), "_clamp tests its value against both bounds", f"_clamp does not test `{xp}` against both `{lop}` and `{hip}`")
    # ... and NaN: it fails every ordering test, so a clamp made of `x > hi` / `x < lo` alone returns it unchanged
    nan_guard = any(isinstance(c.ops[0], (ast.NotEq, ast.Eq)) and src(c.left) == xp and src(c.comparators[0]) == xp for c in comps) or \
        any(isinstance(y, ast.Call) and call_tail(y) in ("isnan", "isfinite") and y.args and src(y.args[0]) == xp for y in walk_no_defs(cl.node))
    # or the positive form: the value is returned only where lo <= x <= hi holds (false for NaN)
    positive = any(isinstance(c, ast.Compare) and len(c.ops) == 2 and src(c.comparators[0]) == xp for c in walk_no_defs(cl.node))
    ctx.check(nan_guard or positive, "C18.BOUND", f"{cl.qual}/nan-does-not-pass", cl.loc(), "a NaN never leaves _clamp (it is tested for, or the value is returned only where lo <= x <= hi)",
              "_clamp is made of `x > hi` / `x < lo` alone: NaN fails both and is returned as the weight - a weight outside every clamp bound that the decay tick never drops (abs(NaN) < floor is False); "
              "inf * 0 in the proportional update or a NaN weight in a snapshot gets there")


def rule_bound_everywhere(ctx) -> None:
    """"every GEL edge weight lies within the configured clamp bounds" after ANY step: besides observe (above) and tick (DECAY),
    every other function of the module that writes an edge weight - promotion attaches concept edges with a configured
    attach_weight - writes a value clamped to graph.update.clamp_min / clamp_max (or the literal 0, which the validator keeps
    inside the bounds)."""
    m = ctx.prog.module(GEL)
    n_st = 0
    for fn in m.funcs.values():
        if fn.name in ("observe_retrieval", "tick") or fn.qual.count(".") > GEL.count(".") + 0 and ":" in fn.qual and "." in fn.qual.split(":")[-1]:
            continue
        rd = None
        for x in walk_no_defs(fn.node):
            vals = []
            if isinstance(x, ast.Assign) and any(_is_weight_store(t) for t in x.targets):
                vals.append(x.value)
            if isinstance(x, ast.Dict):
                for k, v in zip(x.keys, x.values):
                    if k is not None and const_str(k) == "weight" and any(const_str(k2) in ("src", "dst") for k2 in x.keys if k2 is not None):
                        vals.append(v)
            for v in vals:
                rd = rd or ctx.rd(fn)
                cfg = ctx.cfg(fn)
                at = (cfg.node_containing(v) or [None])[0]
                if at is None:
                    continue
                n_st += 1
                cands = [(v, at)]
                if isinstance(v, ast.Name):
                    cands = [(d.value, d.node) for d in rd.reaching(v.id, at) if d.kind != "mutate"]
                for val, vat in cands:
                    key = ctx.okey(f"{fn.qual}/edge-weight-written-inside-bounds")
                    if isinstance(val, ast.Constant) and isinstance(val.value, (int, float)) and float(val.value) == 0.0:
                        ctx.holds("C18.BOUND", key, fn.loc(v), "literal 0 (the validator keeps 0 inside the clamp bounds)", nontrivial=False)
                        continue
                    c = _clamp_call(val) if val is not None else None
                    ok = False
                    if c is not None and len(c.args) >= 3:
                        lo, hi = rd.slice([c.args[1]], vat).constants(), rd.slice([c.args[2]], vat).constants()
                        ok = "clamp_min" in lo and "clamp_max" in hi
                    ctx.check(ok, "C18.BOUND", key, fn.loc(v), "the written weight is _clamp(., graph.update.clamp_min, graph.update.clamp_max)",
                              f"{fn.name} writes the edge weight `{src(val)[:50] if val is not None else '?'}`, which is not clamped to graph.update.clamp_min / clamp_max: after this step an edge "
                              "weight can lie outside the configured bounds (e.g. promotion.attach_weight 0.5 with clamp_max 0.1)")
    ctx.floor("C18.BOUND", "edge-weight writes outside observe / tick", n_st, 2)


def rule_decay(ctx) -> None:
    fn = ctx.func(GEL + ":tick")
    cfg = ctx.cfg(fn)
    rd = ctx.rd(fn)
    stores = [n for n in cfg.nodes if n.kind == "stmt" and isinstance(n.ast, ast.Assign) and any(_is_weight_store(t) for t in n.ast.targets)]
    ctx.floor("C18.DECAY", "weight stores in tick", len(stores), 1)
    clamp_in_tick = False
    for n in stores:
        v = n.ast.value
        key = f"{fn.qual}/weight-store:{src(v)[:30]}"
        val = v
        if isinstance(v, ast.Name):
            uv = rd.unique_value(v.id, n)
            val = uv[0] if uv else None
        c = _clamp_call(val) if val is not None else None
        if c is not None:
            clamp_in_tick = True
            val = c.args[0]
            if isinstance(val, ast.Name):
                uv = rd.unique_value(val.id, n)
                val = uv[0] if uv else None
        ok = isinstance(val, ast.BinOp) and isinstance(val.op, ast.Mult)
        fac = None
        if ok:
            sides = [val.left, val.right]
            wsrc = [s for s in sides if isinstance(s, ast.Name) and (rd.unique_value(s.id, n) or (None,))[0] is not None
                    and "weight" in src(rd.unique_value(s.id, n)[0])]
            facs = [s for s in sides if s not in wsrc]
            ok = len(wsrc) == 1 and len(facs) == 1 and isinstance(facs[0], ast.Name)
            fac = facs[0].id if ok else None
        ctx.check(ok, "C18.DECAY", key, fn.loc(n.ast), f"the only stored value is (previous weight) * {fac}",
                  f"tick stores `{src(n.ast.value)}` = `{src(val) if val is not None else '?'}`, not previous_weight * decay_factor: a tick may increase a magnitude")
        if not ok:
            continue
        # the factor's definitions
        for d in [x for x in rd.all_defs if x.name == fac and x.kind == "assign"]:
            dv = d.value
            k2 = f"{fn.qual}/factor:{src(dv)[:30]}"
            if isinstance(dv, ast.Constant) and isinstance(dv.value, (int, float)) and 0.0 <= float(dv.value) <= 1.0:
                ctx.holds("C18.DECAY", k2, fn.loc(dv), f"factor constant {dv.value} in [0,1]")
                continue
            okp = False
            why = src(dv)
            if isinstance(dv, ast.BinOp) and isinstance(dv.op, ast.Pow) and isinstance(dv.left, ast.Constant) and 0.0 < float(dv.left.value) < 1.0:
                ex = dv.right
                if isinstance(ex, ast.BinOp) and isinstance(ex.op, ast.Div):
                    num = ex.left
                    while isinstance(num, ast.Call) and dotted(num.func) in ("float", "int") and num.args:
                        num = num.args[0]
                    den = ex.right
                    num_ok = False
                    if isinstance(num, ast.Name):
                        nds = [x for x in rd.reaching(num.id, d.node) if x.kind != "mutate"]
                        num_ok = bool(nds) and all(isinstance(x.value, ast.Call) and dotted(x.value.func) == "max" and any(
                            isinstance(a, ast.Constant) and a.value == 0 for a in x.value.args) for x in nds)
                    den_ok = False
                    if isinstance(den, ast.Name):
                        facts = cfg.facts(d.node)
                        den_ok = (f"{den.id} <= 0", False) in facts or (f"{den.id} > 0", True) in facts
                    okp = num_ok and den_ok
                    why = f"{src(dv)} with numerator>=0: {num_ok}, denominator>0 on this branch: {den_ok}"
            ctx.check(okp, "C18.DECAY", k2, fn.loc(dv),
                      "factor = c ** (dt / half_life) with 0<c<1, dt = max(0, .) >= 0 and half_life > 0 on this branch: factor in (0, 1]",
                      f"decay factor is not provably in [0,1]: {why} (a negative dt or half-life makes the factor exceed 1: a tick increases magnitudes)")
    # deletion queue: exactly the |w2| < floor edges, deleted after the iteration
    edges_n = _by_key(fn, "edges")
    floor_n = {d.name for d in rd.all_defs if d.kind == "assign" and d.value is not None and any(const_str(z) == "floor" for z in ast.walk(d.value))}
    # the deletion queue: the list a later loop walks while removing from the edge map
    queues = {src(st.iter) for st in walk_no_defs(fn.node) if isinstance(st, ast.For) and any(isinstance(y, ast.Call) and call_tail(y) in ("pop", "__delitem__") and isinstance(y.func, ast.Attribute)
              and src(y.func.value) in edges_n for y in ast.walk(st)) and isinstance(st.iter, ast.Name)}
    apps = [n for n in cfg.nodes if n.kind == "stmt" and any(call_tail(c) == "append" and src(c.func.value) in queues for c in node_calls(n))]
    ctx.floor("C18.DECAY", "deletion-queue appends", len(apps), 1)
    stored_names = {src(n.ast.value) for n in stores}
    def _floor_fact(a: str) -> bool:
        return any(a == f"abs({nm}) < {fl}" for nm in stored_names for fl in floor_n)
    for n in apps:
        facts = cfg.facts(n)
        ok = any(pol and _floor_fact(a) for a, pol in facts)
        ctx.check(ok, "C18.DECAY", f"{fn.qual}/floor-guard", fn.loc(n.ast), "an edge is queued for deletion exactly under abs(w2) < floor",
                  f"deletion is queued under {sorted(a for a, p in facts if p)} rather than abs(w2) < floor")
    # the store branch is the complement
    for n in stores:
        facts = cfg.facts(n)
        ok = any((not pol) and _floor_fact(a) for a, pol in facts)
        ctx.check(ok, "C18.DECAY", f"{fn.qual}/store-only-above-floor", fn.loc(n.ast), "weights are stored only for edges that stay (abs(w2) >= floor)",
                  "a decayed weight is stored outside the not-below-floor branch")
    pops = [(n, c) for n in cfg.nodes for c in node_calls(n) if call_tail(c) in ("pop", "__delitem__") and isinstance(c.func, ast.Attribute) and src(c.func.value) in edges_n]
    dels = [n for n in cfg.nodes if n.kind == "stmt" and isinstance(n.ast, ast.Delete)]
    ctx.floor("C18.DECAY", "edge deletions in tick", len(pops) + len(dels), 1)
    for n, c in pops:
        in_edges_loop = any(isinstance(st, ast.For) and any(isinstance(y, ast.Name) and y.id in edges_n for y in ast.walk(st.iter)) for st, part in enclosing(ctx.prog, fn, c))
        over_queue = any(isinstance(st, ast.For) and src(st.iter) in queues for st, part in enclosing(ctx.prog, fn, c))
        ctx.check(over_queue and not in_edges_loop, "C18.DECAY", f"{fn.qual}/delete-after-iteration", fn.loc(c),
                  "edges are removed in a separate loop over the deletion queue", "edges are removed while iterating the edge map / not from the queue")
    # staying inside [clamp_min, clamp_max]: clamp in tick, or the validator guarantees 0 in the interval
    v = ctx.func("configs.validate:_validate_config_normalize_impl")
    zero_in = False
    for x in walk_no_defs(v.node):
        if isinstance(x, ast.Compare) and len(x.ops) == 2 and all(isinstance(o, ast.LtE) for o in x.ops):
            l, m, r = x.left, x.comparators[0], x.comparators[1]
            if "clamp_min" in src(l) and "clamp_max" in src(r) and isinstance(m, ast.Constant) and float(m.value) == 0.0:
                # must be used negated to raise an error
                par = ctx.prog.parents(v.node).get(id(x))
                if isinstance(par, ast.UnaryOp) and isinstance(par.op, ast.Not):
                    zero_in = True
    ctx.check(clamp_in_tick or zero_in, "C18.DECAY", f"{fn.qual}/stays-in-bounds", fn.loc(),
              "a shrinking map keeps weights inside [clamp_min, clamp_max]: " + ("tick clamps the decayed weight" if clamp_in_tick else
              "the validator only admits clamp_min <= 0 <= clamp_max"),
              "tick multiplies weights towards 0 without clamping and the validator admits bounds that exclude 0 "
              "(clamp_min=0.5: one observation stores 0.5, one tick leaves 0.354 < clamp_min)")


def _arrow_pair(e: ast.AST) -> Optional[Tuple[str, str]]:
    """f"{a}→{b}" -> (text of a, text of b)"""
    if isinstance(e, ast.JoinedStr) and len(e.values) == 3 and isinstance(e.values[0], ast.FormattedValue) and isinstance(e.values[2], ast.FormattedValue) \
            and isinstance(e.values[1], ast.Constant) and e.values[1].value == "\u2192":
        return src(e.values[0].value), src(e.values[2].value)
    return None


def rule_key_siblings(ctx) -> None:
    """every place in the engine that builds a GEL edge key (f"{a}→{b}") orders its endpoints like gel._edge_key: either
    `f"{a}→{b}" if a <= b else f"{b}→{a}"`, or a and b were assigned from the ordered / swapped pair under `x <= y`.
    The snapshot writer and loader re-key edges; a non-canonical key there stores a restored pair under a key that
    _edge_key never looks up, and the next observation creates a second edge for the pair."""
    n = 0
    for fn in ctx.prog.all_funcs("clematis.engine."):
        pm = None
        for x in walk_no_defs(fn.node):
            ap = _arrow_pair(x)
            if ap is None:
                continue
            n += 1
            if pm is None:
                pm = ctx.prog.parents(fn.node)
            a, b = ap
            ok = False
            par = pm.get(id(x))
            if isinstance(par, ast.IfExp) and isinstance(par.test, ast.Compare) and len(par.test.ops) == 1 and isinstance(par.test.ops[0], (ast.LtE, ast.Lt)):
                l, r = src(par.test.left), src(par.test.comparators[0])
                other = _arrow_pair(par.orelse if x is par.body else par.body)
                if other is not None:
                    first, second = (ap, other) if x is par.body else (other, ap)
                    ok = first == (l, r) and second == (r, l)
            if not ok:
                # gel._edge_key idiom: `if sa <= sb: src, dst = sa, sb  else: src, dst = sb, sa`
                cfg = ctx.cfg(fn)
                rd = ctx.rd(fn)
                nodes = cfg.node_containing(x)
                if nodes:
                    da = [d for d in rd.reaching(a, nodes[0]) if d.kind != "mutate"] if a.isidentifier() else []
                    db = [d for d in rd.reaching(b, nodes[0]) if d.kind != "mutate"] if b.isidentifier() else []
                    if len(da) == 2 and len(db) == 2:
                        vals = sorted((src(d.value), src(e.value)) for d, e in zip(sorted(da, key=lambda d: d.node.id), sorted(db, key=lambda d: d.node.id)))
                        conds = [g for d in da for g in cfg.guards(d.node)]
                        lt = [t for t, pol, _ in conds if isinstance(t, ast.Compare) and len(t.ops) == 1 and isinstance(t.ops[0], (ast.LtE, ast.Lt))]
                        if lt:
                            l, r = src(lt[0].left), src(lt[0].comparators[0])
                            t_def = [d for d in da if any(pol for tt, pol, _ in cfg.guards(d.node) if tt is lt[0])]
                            f_def = [d for d in da if any(not pol for tt, pol, _ in cfg.guards(d.node) if tt is lt[0])]
                            tb = [d for d in db if any(pol for tt, pol, _ in cfg.guards(d.node) if tt is lt[0])]
                            fb = [d for d in db if any(not pol for tt, pol, _ in cfg.guards(d.node) if tt is lt[0])]
                            if t_def and f_def and tb and fb:
                                ok = (src(t_def[0].value), src(tb[0].value)) == (l, r) and (src(f_def[0].value), src(fb[0].value)) == (r, l)
            ctx.check(ok, "C18.KEY", f"{fn.qual}/arrow-key-canonical:{a}-{b}", fn.loc(x), f"`{src(x)}` is built from endpoints ordered by `<=` (same canonical form as gel._edge_key)",
                      f"`{src(x)}` joins its endpoints in the order given: a record whose src > dst is stored under a key gel._edge_key never produces, so the pair gets a second edge on the next observation")
    ctx.floor("C18.KEY", "edge-key constructors in the engine", n, 1)


def rule_key(ctx) -> None:
    m = ctx.prog.module(GEL)
    n_ins = 0
    for fn in m.funcs.values():
        cfg = ctx.cfg(fn)
        rd = ctx.rd(fn)
        for n in cfg.nodes:
            if n.kind != "stmt" or not isinstance(n.ast, ast.Assign):
                continue
            for t in n.ast.targets:
                if isinstance(t, ast.Subscript) and isinstance(t.value, ast.Name) and t.value.id in _by_key(fn, "edges"):
                    n_ins += 1
                    k = t.slice
                    ok = False
                    if isinstance(k, ast.Name):
                        ds = [d for d in rd.reaching(k.id, n) if d.kind != "mutate"]
                        ok = bool(ds) and all(d.kind == "unpack" and isinstance(d.value, ast.Call) and call_tail(d.value) == "_edge_key" for d in ds)
                    ctx.check(ok, "C18.KEY", f"{fn.qual}/edge-insert-key", fn.loc(t),
                              "the edge map is indexed by the key returned by _edge_key (one edge per unordered pair)",
                              f"edges[{src(k)}] is not keyed by _edge_key(...): the same unordered pair can be stored under two keys")
                    # the record's id/src/dst come from the same triple
                    recv = n.ast.value
                    if isinstance(recv, ast.Name):
                        for d in rd.reaching(recv.id, n):
                            if d.kind == "assign" and isinstance(d.value, ast.Dict):
                                fields = {const_str(kk): vv for kk, vv in zip(d.value.keys, d.value.values) if kk is not None}
                                trip = all(isinstance(fields.get(f), ast.Name) for f in ("id", "src", "dst"))
                                ctx.check(trip and isinstance(k, ast.Name) and src(fields["id"]) == k.id, "C18.KEY", f"{fn.qual}/edge-record-fields", fn.loc(d.value),
                                          "record id/src/dst are the (key, src, dst) of the canonical triple",
                                          "record id/src/dst are not taken from the canonical triple")
    ctx.floor("C18.KEY", "insertions into the edge map", n_ins, 2)
    ek = ctx.func(GEL + ":_edge_key")
    has_le = any(isinstance(x, ast.Compare) and isinstance(x.ops[0], (ast.LtE, ast.Lt)) for x in walk_no_defs(ek.node))
    strd = sum(1 for x in walk_no_defs(ek.node) if isinstance(x, ast.Call) and dotted(x.func) == "str") >= 2
    ctx.check(has_le and strd, "C18.KEY", f"{ek.qual}/orders-str-ids", ek.loc(), "_edge_key orders the str()-ed ids before joining",
              "_edge_key does not order its stringified endpoints")


def _total_score_id_key(k: Optional[ast.AST]) -> bool:
    if not isinstance(k, ast.Lambda) or not isinstance(k.body, ast.Tuple) or len(k.body.elts) != 2:
        return False
    a, b = k.body.elts
    arg = k.args.args[0].arg if k.args.args else None
    return (isinstance(a, ast.UnaryOp) and isinstance(a.op, ast.USub) and src(a.operand) == f"{arg}[1]" and src(b) == f"{arg}[0]")


def rule_orderins(ctx) -> None:
    fn = ctx.func(GEL + ":observe_retrieval")
    cfg = ctx.cfg(fn)
    rd = ctx.rd(fn)
    # truncations of lists derived from `items`
    truncs: List[Tuple[object, ast.AST, ast.AST]] = []  # (node, operand, whole)
    for n in cfg.nodes:
        if n not in cfg.reachable_from_entry():
            continue
        from ..dataflow import node_exprs
        for e in node_exprs(n):
            for x in walk_no_defs(e):
                if isinstance(x, ast.Subscript) and isinstance(x.slice, ast.Slice) and isinstance(x.ctx, ast.Load):
                    truncs.append((n, x.value, x))
                if isinstance(x, ast.Call) and (dotted(x.func) or "").split(".")[-1] in ("nlargest", "nsmallest") and len(x.args) >= 2:
                    truncs.append((n, x.args[1], x))
    # names that hold (a view of) the observed items: the parameter, whatever is computed from them, and containers filled
    # inside a loop over them (a map keyed by id, a kept-list)
    derived: Set[str] = {fn.params[2]}
    for _ in range(6):
        before = len(derived)
        for d in rd.all_defs:
            if d.value is not None and d.name not in derived and any(isinstance(y, ast.Name) and y.id in derived for y in ast.walk(d.value)):
                derived.add(d.name)
        for lp in [x for x in walk_no_defs(fn.node) if isinstance(x, ast.For) and any(isinstance(y, ast.Name) and y.id in derived for y in ast.walk(x.iter))]:
            for st in lp.body:
                for y in ast.walk(st):
                    if isinstance(y, (ast.Assign, ast.AugAssign)):
                        for t in (y.targets if isinstance(y, ast.Assign) else [y.target]):
                            if isinstance(t, ast.Subscript) and isinstance(t.value, ast.Name) and rd.is_local(t.value.id):
                                derived.add(t.value.id)
                    if isinstance(y, ast.Call) and isinstance(y.func, ast.Attribute) and y.func.attr in ("append", "add", "setdefault", "extend") and isinstance(y.func.value, ast.Name) and rd.is_local(y.func.value.id):
                        derived.add(y.func.value.id)
        if len(derived) == before:
            break
    derived -= {"edges", "gstore"}
    n_checked = 0
    for n, operand, whole in truncs:
        sl = rd.slice([operand], n)
        if fn.params[2] not in sl.params and not any(isinstance(y, ast.Name) and y.id in derived for y in ast.walk(operand)):  # not derived from `items`
            continue
        n_checked += 1
        key = f"{fn.qual}/truncate:{src(whole)[:30]}"
        if isinstance(whole, ast.Call):
            ctx.check(_total_score_id_key(kwarg(whole, "key")) and False, "C18.ORDERINS", key, fn.loc(whole), "",
                      f"`{src(whole)[:60]}` selects the top items by score alone: among equal scores heapq keeps whichever came first in the input, "
                      "so the observed pair set depends on the order in which items are listed")
            continue
        if isinstance(operand, ast.Call) and dotted(operand.func) == "sorted" and _total_score_id_key(kwarg(operand, "key")):
            ctx.holds("C18.ORDERINS", key, fn.loc(whole), "truncates sorted(., key=(-score, id))")
            continue
        if not isinstance(operand, ast.Name):
            inner = operand
            while isinstance(inner, ast.Call) and dotted(inner.func) in ("list", "tuple") and inner.args:
                inner = inner.args[0]
            if isinstance(inner, ast.Call) and isinstance(inner.func, ast.Attribute) and inner.func.attr in ("items", "keys", "values") and isinstance(inner.func.value, ast.Name) and inner.func.value.id in derived:
                ctx.violation("C18.ORDERINS", key, fn.loc(whole), f"`{src(whole)[:50]}` cuts a map of the observed items in its insertion order - the order in which the items were listed: which items "
                              "survive depends on the listing")
                continue
            ctx.undecided("C18.ORDERINS", key, fn.loc(whole), f"truncation of `{src(operand)[:40]}`")
            continue
        X = operand.id
        sorts = [m for m in cfg.nodes if m.kind == "stmt" and isinstance(m.ast, ast.Expr) and isinstance(m.ast.value, ast.Call)
                 and isinstance(m.ast.value.func, ast.Attribute) and m.ast.value.func.attr == "sort" and src(m.ast.value.func.value) == X
                 and _total_score_id_key(kwarg(m.ast.value, "key"))]
        bad = None
        for d in rd.reaching(X, n):
            if d.kind == "mutate":
                continue
            if d.value is not None and isinstance(d.value, ast.Call) and dotted(d.value.func) == "sorted" and _total_score_id_key(kwarg(d.value, "key")):
                continue
            p = cfg.path([d.node], lambda t: t is n, avoid=lambda t: t in sorts, include_start=False)
            if p is not None:
                bad = (d, p)
        ctx.check(bad is None, "C18.ORDERINS", key, fn.loc(whole),
                  f"every definition of `{X}` passes `{X}.sort(key=(-score, id))` before the truncation",
                  f"`{src(whole)[:40]}` truncates `{X}` on a path where it was not yet sorted by the total key (-score, id): which items survive "
                  "then depends on listing order" + (f" (definition at L{bad[0].node.lineno})" if bad else ""),
                  ctx.path_witness(fn, bad[1]) if bad else None)
    ctx.floor("C18.ORDERINS", "truncations of the observed item list", n_checked, 1)
    # the (-score, id) key is a total order only over scores that compare: a NaN score must be gone *before* the sort, or the
    # finite items around it come out in an order that depends on how the items were listed
    def nan_free(e: ast.AST, at, depth: int = 0) -> bool:
        if isinstance(e, ast.Call) and dotted(e.func) in ("list", "sorted", "tuple") and e.args:
            return nan_free(e.args[0], at, depth + 1)
        if isinstance(e, ast.Subscript) and isinstance(e.slice, ast.Slice):
            return nan_free(e.value, at, depth + 1)
        if isinstance(e, (ast.ListComp, ast.GeneratorExp)):
            for g in e.generators:
                # the score component of the element: second item of a tuple target, or `t[1]`
                t = g.target
                score = {src(t.elts[1])} if isinstance(t, ast.Tuple) and len(t.elts) == 2 else {f"{src(t)}[1]"}

                def on_score(x) -> bool:
                    return isinstance(x, ast.Compare) and len(x.ops) == 1 and isinstance(x.ops[0], (ast.GtE, ast.Gt, ast.LtE, ast.Lt, ast.Eq)) and (src(x.left) in score or src(x.comparators[0]) in score)

                for c in g.ifs:
                    if on_score(c):
                        return True  # any positive comparison is false for NaN
                    if isinstance(c, ast.Call) and call_tail(c) == "isfinite" and c.args and src(c.args[0]) in score:
                        return True
                    if isinstance(c, ast.BoolOp) and isinstance(c.op, ast.And) and any(on_score(v) for v in c.values):
                        return True
            if len(e.generators) == 1:
                return nan_free(e.generators[0].iter, at, depth + 1)
            return False
        if isinstance(e, ast.Call) and isinstance(e.func, ast.Attribute) and e.func.attr in ("items", "values") and isinstance(e.func.value, ast.Name) and depth < 5:
            # a map filled inside loops over NaN-free sequences, with values taken from the loop's own elements
            D = e.func.value.id
            fills = []
            for x in walk_no_defs(fn.node):
                if isinstance(x, ast.For) and any(
                        (isinstance(y, ast.Call) and isinstance(y.func, ast.Attribute) and y.func.attr in ("setdefault", "update", "__setitem__") and src(y.func.value) == D)
                        or (isinstance(y, (ast.Assign, ast.AugAssign)) and any(isinstance(t, ast.Subscript) and src(t.value) == D for t in (y.targets if isinstance(y, ast.Assign) else [y.target])))
                        for st in x.body for y in ast.walk(st)):
                    fills.append(x)
            ds = [d for d in rd.reaching(D, at) if d.kind != "mutate"]
            born_empty = bool(ds) and all(d.value is not None and (isinstance(d.value, ast.Dict) and not d.value.keys or isinstance(d.value, ast.Call) and dotted(d.value.func) in ("dict", "OrderedDict") and not d.value.args) for d in ds)
            if not fills or not born_empty:
                return False
            for lp in fills:
                tn = {y.id for y in ast.walk(lp.target) if isinstance(y, ast.Name)}
                hn = cfg.node_containing(lp.target)
                if not hn or not nan_free(lp.iter, hn[0], depth + 1):
                    return False
                for st in lp.body:
                    for y in ast.walk(st):
                        vals = []
                        if isinstance(y, ast.Call) and isinstance(y.func, ast.Attribute) and y.func.attr == "setdefault" and src(y.func.value) == D and len(y.args) == 2:
                            vals.append(y.args[1])
                        if isinstance(y, ast.Assign) and any(isinstance(t, ast.Subscript) and src(t.value) == D for t in y.targets):
                            vals.append(y.value)
                        if isinstance(y, ast.AugAssign) and isinstance(y.target, ast.Subscript) and src(y.target.value) == D:
                            return False
                        for v in vals:
                            prevs = {a.targets[0].id for s3 in lp.body for a in ast.walk(s3) if isinstance(a, ast.Assign) and len(a.targets) == 1 and isinstance(a.targets[0], ast.Name) and D in src(a.value)}
                            free = {z.id for z in ast.walk(v) if isinstance(z, ast.Name)} - {"max", "min", "float", D, "None"} - prevs
                            if not free <= tn:
                                return False
            return True
        if isinstance(e, ast.Name) and depth < 5:
            ds = [d for d in rd.reaching(e.id, at) if d.kind != "mutate"]
            return bool(ds) and all(d.kind == "assign" and d.value is not None and nan_free(d.value, d.node, depth + 1) for d in ds)
        return False

    n_sorts = 0
    for m in sorted(cfg.nodes, key=lambda x: x.id):
        for c in node_calls(m):
            operand = None
            if isinstance(c.func, ast.Attribute) and c.func.attr == "sort" and _total_score_id_key(kwarg(c, "key")):
                operand = c.func.value
            elif dotted(c.func) == "sorted" and c.args and _total_score_id_key(kwarg(c, "key")):
                operand = c.args[0]
            if operand is None or fn.params[2] not in rd.slice([operand], m).params:
                continue
            n_sorts += 1
            ctx.check(nan_free(operand, m), "C18.ORDERINS", ctx.okey(f"{fn.qual}/scores-comparable-before-sort"), fn.loc(c),
                      "the threshold filter (`score >= threshold`, false for NaN) runs before the (-score, id) sort, so the key is a total order",
                      f"`{src(c)[:50]}` sorts items that may still carry a NaN score (the `>= threshold` filter comes later): (-nan, id) compares false both ways, so the finite items are left "
                      "mis-ordered depending on where the NaN item was listed, and the top-k / pair-cap prefix taken afterwards is no longer the true top-k")
    ctx.floor("C18.ORDERINS", "score sorts of the observed item list", n_sorts, 1)
    _keyed_folds(ctx, fn)
    # threshold filter precedes
    filt = [x for x in walk_no_defs(fn.node) if isinstance(x, (ast.ListComp, ast.GeneratorExp)) and any(
        isinstance(c, ast.Compare) and isinstance(c.ops[0], ast.GtE) and "threshold" in src(c.comparators[0]) for g in x.generators for c in g.ifs)]
    ctx.check(bool(filt), "C18.ORDERINS", f"{fn.qual}/threshold-filter", fn.loc(), "items are kept only where score >= threshold (NaN fails the test)",
              "no `score >= threshold` filter over the observed items")
    # pair cap pairing: each weight store is followed by cap_left -= 1 and pairs_updated += 1; loops break on cap_left <= 0
    # roles: the remaining-pair budget starts at the configured pair cap; the update counter is what the metrics report as pairs_updated
    rdo = ctx.rd(fn)
    pc = {d.name for d in rdo.all_defs if d.kind == "assign" and d.value is not None and any(const_str(z) == "pair_cap_per_obs" for z in ast.walk(d.value))}
    cap_left = {d.name for d in rdo.all_defs if d.kind == "assign" and d.value is not None and any(isinstance(y, ast.Name) and y.id in pc for y in ast.walk(d.value))
                and any(isinstance(x, ast.AugAssign) and isinstance(x.op, ast.Sub) and src(x.target) == d.name for x in walk_no_defs(fn.node))}
    upd = {src(v) for dct in walk_no_defs(fn.node) if isinstance(dct, ast.Dict) for k, v in zip(dct.keys, dct.values) if k is not None and const_str(k) == "pairs_updated" and isinstance(v, ast.Name)}
    decs = [n for n in cfg.nodes if n.kind == "stmt" and isinstance(n.ast, ast.AugAssign) and isinstance(n.ast.op, ast.Sub) and src(n.ast.target) in cap_left]
    incs = [n for n in cfg.nodes if n.kind == "stmt" and isinstance(n.ast, ast.AugAssign) and isinstance(n.ast.op, ast.Add) and src(n.ast.target) in upd]
    stores = [n for n in cfg.nodes if n.kind == "stmt" and isinstance(n.ast, ast.Assign) and any(_is_weight_store(t) for t in n.ast.targets)]
    heads = [h for h in cfg.nodes if h.kind == "iter"]
    for sn in stores:
        p1 = cfg.path([sn], lambda x: x in heads or x is cfg.exit, avoid=lambda x: x in decs, edge_ok=no_exc, include_start=False)
        p2 = cfg.path([sn], lambda x: x in heads or x is cfg.exit, avoid=lambda x: x in incs, edge_ok=no_exc, include_start=False)
        ctx.check(p1 is None and p2 is None, "C18.ORDERINS", f"{fn.qual}/pair-cap-accounting", fn.loc(sn.ast),
                  "each pair update is paired with cap_left -= 1 and pairs_updated += 1 before the next iteration",
                  "a pair update is not counted against the pair cap on some path", ctx.path_witness(fn, p1 or p2))
        facts_ok = any(isinstance(st, ast.For) for st, _ in enclosing(ctx.prog, fn, sn.ast))
    brk = [n for n in cfg.nodes if n.kind == "stmt" and isinstance(n.ast, ast.Break) and any((f"{c} <= 0", True) in cfg.facts(n) or (f"{c} > 0", False) in cfg.facts(n) for c in cap_left)]
    ctx.check(len(brk) >= 2, "C18.ORDERINS", f"{fn.qual}/pair-cap-breaks", fn.loc(), f"both pair loops break on cap_left <= 0 ({len(brk)} breaks)",
              "a pair loop no longer stops when the pair cap is exhausted")
    capdef = [d for d in ctx.rd(fn).all_defs if d.name in cap_left and d.kind == "assign"]
    ctx.check(bool(capdef) and bool(pc) and all(any(isinstance(y, ast.Name) and y.id in pc for y in ast.walk(d.value)) for d in capdef), "C18.ORDERINS", f"{fn.qual}/pair-cap-init", fn.loc(),
              "cap_left starts at the configured pair cap", "cap_left is not initialised from pair_cap")


def _keyed_folds(ctx, fn: Func) -> None:
    """"insensitive to the order in which items are listed" also when an id is listed twice: a loop over the items AS LISTED
    (not yet sorted by the total key) that files values under a key must fold duplicates commutatively (max / min / sum of the
    old and the new value).  `d.setdefault(k, v)` keeps whichever was listed first, `d[k] = v` whichever was listed last, and
    `if k in seen: continue` drops all but the first: each makes the surviving score - and so the top-k and the pair set -
    depend on the listing order."""
    cfg = ctx.cfg(fn)
    rd = ctx.rd(fn)
    items_p = fn.params[2]
    n_loops = 0

    def sorted_total(e: ast.AST, at, depth=0) -> bool:
        if isinstance(e, ast.Call) and dotted(e.func) == "sorted" and _total_score_id_key(kwarg(e, "key")):
            return True
        if isinstance(e, ast.Subscript) and isinstance(e.slice, ast.Slice):
            return sorted_total(e.value, at, depth + 1)
        if isinstance(e, ast.Call) and dotted(e.func) in ("list", "tuple", "enumerate") and e.args:
            return sorted_total(e.args[0], at, depth + 1)
        if isinstance(e, ast.Name) and depth < 5:
            X = e.id
            sorts = [m for m in cfg.nodes if m.kind == "stmt" and isinstance(m.ast, ast.Expr) and isinstance(m.ast.value, ast.Call) and isinstance(m.ast.value.func, ast.Attribute)
                     and m.ast.value.func.attr == "sort" and src(m.ast.value.func.value) == X and _total_score_id_key(kwarg(m.ast.value, "key"))]
            ds = [d for d in rd.reaching(X, at) if d.kind != "mutate"]
            if not ds:
                return False
            for d in ds:
                if d.value is not None and d.kind == "assign" and sorted_total(d.value, d.node, depth + 1):
                    continue
                if cfg.path([d.node], lambda t: t is at, avoid=lambda t: t in sorts, include_start=False) is not None:
                    return False
            return True
        return False

    def commutative(v: ast.AST, D: str, prevs: Set[str] = frozenset()) -> bool:
        # max(old, new) / min(..) where `old` reads the map being filled (directly, or through a local bound to such a read);
        # also `new if old is None else max(old, new)`
        if isinstance(v, ast.IfExp):
            return commutative(v.body, D, prevs) or commutative(v.orelse, D, prevs)
        return isinstance(v, ast.Call) and dotted(v.func) in ("max", "min") and any(
            (isinstance(z, (ast.Subscript, ast.Call)) and D in src(z)) or (isinstance(z, ast.Name) and z.id in prevs) for a in v.args for z in ast.walk(a))

    for lp in [x for x in walk_no_defs(fn.node) if isinstance(x, ast.For)]:
        hn = cfg.node_containing(lp.target)
        if not hn:
            continue
        if items_p not in (rd.slice([lp.iter], hn[0]).params | ({items_p} if any(isinstance(y, ast.Name) and y.id == items_p for y in ast.walk(lp.iter)) else set())):
            continue
        n_loops += 1
        if sorted_total(lp.iter, hn[0]):
            continue  # first-wins over a list sorted by (-score, id) is max-wins: the same for every listing
        tn = {y.id for y in ast.walk(lp.target) if isinstance(y, ast.Name)}
        bad = None
        for st in lp.body:
            for y in ast.walk(st):
                if isinstance(y, ast.Call) and isinstance(y.func, ast.Attribute) and y.func.attr == "setdefault" and len(y.args) == 2 and any(isinstance(z, ast.Name) and z.id in tn for z in ast.walk(y.args[1])) \
                        and not isinstance(y.args[1], (ast.List, ast.Dict, ast.Set)):
                    bad = bad or (y, "keeps the value of whichever duplicate is listed first")
                if isinstance(y, ast.Assign):
                    for t in y.targets:
                        if isinstance(t, ast.Subscript) and isinstance(t.value, ast.Name) and not isinstance(t.slice, ast.Slice) and any(isinstance(z, ast.Name) and z.id in tn for z in ast.walk(t.slice)) \
                                and any(isinstance(z, ast.Name) and z.id in tn for z in ast.walk(y.value)) and rd.is_local(t.value.id) \
                                and not commutative(y.value, t.value.id, {a.targets[0].id for s3 in lp.body for a in ast.walk(s3) if isinstance(a, ast.Assign) and len(a.targets) == 1 and isinstance(a.targets[0], ast.Name)
                                                                          and t.value.id in src(a.value)}):
                            # guarded `if k not in d:` = first wins; unguarded = last wins; both depend on the listing
                            bad = bad or (y, "keeps the value of whichever duplicate is listed last (or first, under a `not in` guard)")
                if isinstance(y, ast.If) and any(isinstance(z, ast.Continue) for z in y.body) and isinstance(y.test, ast.Compare) and len(y.test.ops) == 1 and isinstance(y.test.ops[0], ast.In) \
                        and any(isinstance(z, ast.Name) and z.id in tn for z in ast.walk(y.test.left)):
                    seen = src(y.test.comparators[0])
                    if any(isinstance(z, ast.Call) and isinstance(z.func, ast.Attribute) and z.func.attr in ("add", "append") and src(z.func.value) == seen for s2 in lp.body for z in ast.walk(s2)):
                        bad = bad or (y, "drops every duplicate but the one listed first")
        ctx.check(bad is None, "C18.ORDERINS", ctx.okey(f"{fn.qual}/duplicates-folded-commutatively"), fn.loc(bad[0] if bad else lp),
                  "the loop over the listed items files nothing under a key by first-wins / last-wins",
                  (f"`{src(bad[0])[:60]}` {bad[1]}, in a loop over the items as listed (not yet sorted by (-score, id)): when an id is listed twice with different scores the surviving score - and with it "
                   "the top-k and the pairs updated - depends on the order of the listing") if bad else "")
    ctx.floor("C18.ORDERINS", "loops over the listed items", n_loops, 1)


def rule_observe_records(ctx) -> None:
    """(a) "one edge per unordered pair" / "at most the configured number of pairs among the top-k items": the items that are
    paired carry each id once - they come out of a map keyed by id, or the pair loops skip ida == idb - otherwise an id listed
    twice is paired with itself (a self-loop edge, the pair cap spent on it, its real pairs raised twice);
    (b) an edge record is updated all at once: every conversion that can fail (int / float of a stored attribute) comes
    before the first write to the record - a failure after `rec["weight"] = w` leaves the weight bumped while the rest of the
    update, and of the pass, is missing (and the turn swallows the exception)."""
    fn = ctx.func(GEL + ":observe_retrieval")
    cfg = ctx.cfg(fn)
    rd = ctx.rd(fn)
    # (a)
    pair_loops = [x for x in walk_no_defs(fn.node) if isinstance(x, ast.For) and any(isinstance(y, ast.For) for st in x.body for y in ast.walk(st))
                  and any(isinstance(y, ast.Call) and call_tail(y) == "_edge_key" for st in x.body for y in ast.walk(st))]
    ctx.floor("C18.KEY", "pair loops of observe_retrieval", len(pair_loops), 1)
    for lp in pair_loops:
        hn = [h for h in cfg.nodes if h.kind == "iter" and h.ast is lp]
        src_list = lp.iter
        while isinstance(src_list, ast.Call) and dotted(src_list.func) in ("enumerate", "list", "range", "len") and src_list.args:
            src_list = src_list.args[0]
        uniq = False
        if isinstance(src_list, ast.Name) and hn:
            sl = rd.slice([src_list], hn[0])
            uniq = any(isinstance(c, ast.Call) and isinstance(c.func, ast.Attribute) and c.func.attr in ("items", "keys") for c in sl.calls()) or any(isinstance(c, ast.Call) and dotted(c.func) in ("set", "dict", "dict.fromkeys") for c in sl.calls())
        skip_self = any(isinstance(y, ast.Compare) and len(y.ops) == 1 and isinstance(y.ops[0], (ast.Eq, ast.NotEq)) and isinstance(y.left, ast.Name) and isinstance(y.comparators[0], ast.Name)
                        and {y.left.id, y.comparators[0].id} <= {z.id for st in lp.body for z in ast.walk(st) if isinstance(z, ast.Name)} and "id" in y.left.id.lower() for st in lp.body for y in ast.walk(st))
        ctx.check(uniq or skip_self, "C18.KEY", ctx.okey(f"{fn.qual}/paired-items-are-distinct-ids"), fn.loc(lp), "the paired items carry each id once (keyed by id before the ranking, or self-pairs are skipped)",
                  "the pair loops run over the ranked items as listed: an id listed twice is paired with itself - a self-loop edge `a→a` (src == dst), its real pairs are raised by 2 x alpha in one "
                  "observation, and with pair_cap_per_obs = 1 the one allowed update is spent on the self-loop")
    # (b)
    n_upd = 0
    for lp in pair_loops:
        for inner in [y for st in lp.body for y in ast.walk(st) if isinstance(y, ast.For)] or [lp]:
            body_nodes = [n for n in cfg.nodes if n.kind == "stmt" and any(n.ast is y for st in inner.body for y in ast.walk(st))]
            recs = {t.value.id for n in body_nodes if isinstance(n.ast, ast.Assign) for t in n.ast.targets if isinstance(t, ast.Subscript) and isinstance(t.value, ast.Name) and const_str(t.slice) == "weight"}
            writes = [n for n in body_nodes if isinstance(n.ast, ast.Assign) and any(isinstance(t, ast.Subscript) and isinstance(t.value, ast.Name) and t.value.id in recs and const_str(t.slice) == "weight" for t in n.ast.targets)
                      and not isinstance(n.ast.value, ast.Constant)]
            for w in writes:
                n_upd += 1
                after = cfg.reach([w], include_start=False)
                heads = [h for h in cfg.nodes if h.kind == "iter"]
                late = []
                for m in body_nodes:
                    if m not in after or m is w:
                        continue
                    # only within this iteration: reachable without passing a loop head
                    if cfg.path([w], lambda z: z is m, avoid=lambda z: z in heads, include_start=False) is None:
                        continue
                    for c in node_calls(m):
                        if isinstance(c.func, ast.Name) and c.func.id in ("int", "float") and c.args and not isinstance(c.args[0], ast.Constant) and not any(isinstance(st, ast.Try) and part == "body" for st, part in enclosing(ctx.prog, fn, c)):
                            late.append(c)
                ctx.check(not late, "C18.BOUND", ctx.okey(f"{fn.qual}/record-updated-all-at-once"), fn.loc(w.ast), "no fallible conversion follows the weight write within the update",
                          f"`{src(late[0])[:40] if late else ''}` runs after `{src(w.ast)[:30]}`: if it raises (a stored counter that is not a number) the pass aborts with the weight already bumped - no gel "
                          "record is written, yet the edge grows every turn and changes the next turn's hybrid rerank")
    ctx.floor("C18.BOUND", "weight writes in the pair loops", n_upd, 1)


def rule_key_injective(ctx) -> None:
    """"exactly one edge per unordered pair under its canonical key": the key must tell pairs apart.  _edge_key joins the two
    ids with a separator; an id that contains the separator makes two different pairs share one key ("a→b","c" and "a","b→c"
    both give a→b→c) - the second pair never gets an edge of its own."""
    from ..util import separator_joined_ids
    ek = ctx.func(GEL + ":_edge_key")
    hits = separator_joined_ids(ek)
    ctx.floor("C18.KEY", "key constructions in _edge_key", len([x for x in walk_no_defs(ek.node) if isinstance(x, ast.JoinedStr)]), 1)
    ctx.check(not hits, "C18.KEY", f"{ek.qual}/key-tells-pairs-apart", ek.loc(hits[0][0]) if hits else ek.loc(), "the ids are escaped (or length-prefixed) before they are joined",
              (f"`{src(hits[0][0])}` joins the ids with {hits[0][1]!r} as they are: ids containing it collide - the pairs ('a{hits[0][1]}b','c') and ('a','b{hits[0][1]}c') share one key and one edge record, "
               "so there is not one edge per unordered pair") if hits else "")


def rule_ids_are_strings(ctx) -> None:
    """observe_retrieval folds duplicates, sorts and pairs the adapted items BY THEIR IDS before _edge_key turns them into
    strings: an id that is not a str there makes 7 and "7" two entries for one node (a self-loop, its pairs raised twice) and
    1 / 1.0 / True one entry whose key follows the listing.  Every branch of the item adapter returns its id as str(...) (or
    repr(...)): sibling branches agree."""
    fn = ctx.func(GEL + ":_as_id_score")
    rets = [r for r in walk_no_defs(fn.node) if isinstance(r, ast.Return) and isinstance(r.value, ast.Tuple) and len(r.value.elts) == 2]
    ctx.floor("C18.KEY", "returns of the item adapter", len(rets), 3)
    for r in rets:
        idv = r.value.elts[0]
        if isinstance(idv, ast.Name):   # a local bound to the stringified id
            rd = ctx.rd(fn)
            at = ctx.cfg(fn).node_containing(r)
            ds = [d for d in rd.reaching(idv.id, at[0])] if at else []
            if ds and all(d.value is not None and isinstance(d.value, ast.Call) and dotted(d.value.func) in ("str", "repr") for d in ds):
                idv = ds[0].value
        ok = isinstance(idv, ast.Call) and dotted(idv.func) in ("str", "repr")
        ctx.check(ok, "C18.KEY", ctx.okey(f"{fn.qual}/id-is-a-string"), fn.loc(r), f"`{src(idv)[:30]}` is a string", 
                  f"this branch returns the id as `{src(idv)[:30]}`, not str(...): the sibling branches stringify; a non-string id (7 next to \"7\", 1 next to 1.0 / True) is de-duplicated and sorted "
                  "as another value than the key it later gets - one node appears twice (self-loop, pairs raised twice) or the key depends on the listing order")


def rule_promotion_idempotent(ctx) -> None:
    """"promotion is idempotent": the clustering that feeds promotion must not see what promotion wrote.  apply_promotion
    attaches concept<->member edges under a relation of its own; the adjacency builder of merge / split candidates skips edges
    of that relation - otherwise the concept node joins its own cluster and every pass promotes a new c::c::... concept."""
    ap = ctx.func(GEL + ":apply_promotion")
    rels = {const_str(v) for x in walk_no_defs(ap.node) if isinstance(x, ast.Dict) for k, v in zip(x.keys, x.values) if k is not None and const_str(k) == "rel" and const_str(v)}
    rels |= {const_str(x.value) for x in walk_no_defs(ap.node) if isinstance(x, ast.Assign) and any(isinstance(t, ast.Subscript) and const_str(t.slice) == "rel" for t in x.targets) and const_str(x.value)}
    if not rels:
        raise AnalysisError("anchor-vanished: relation written by apply_promotion")
    ba = ctx.func(GEL + ":_build_adj")
    cfg = ctx.cfg(ba)
    adds = [n for n in cfg.nodes for c in node_calls(n) if call_tail(c) in ("append", "setdefault", "add")]
    ctx.floor("C18.SCOPE", "adjacency insertions in _build_adj", len(adds), 2)
    ok = bool(adds) and all(any((not pol) and "rel" in t and any(repr(r) in t or f'"{r}"' in t for r in rels) and "==" in t for t, pol in cfg.facts(n)) or
                            any(pol and "rel" in t and any(repr(r) in t for r in rels) and "!=" in t for t, pol in cfg.facts(n)) for n in adds)
    ctx.check(ok, "C18.SCOPE", f"{ba.qual}/clustering-ignores-promotion-edges", ba.loc(), f"edges of relation {sorted(rels)} never enter the clustering adjacency",
              f"_build_adj takes every edge, the {sorted(rels)} attachments of apply_promotion included (weight 0.5 >= merge.min_avg_w): on the next pass the concept node is a member of its own cluster "
              "and a NEW concept c::c::<id> is created - a second pass over an unchanged graph changes it (or attaches the concept to itself)")


def _mutations(fn: Func) -> List[Tuple[str, ast.AST]]:
    out = []
    for x in walk_no_defs(fn.node):
        if isinstance(x, (ast.Assign, ast.AugAssign)):
            tg = x.targets if isinstance(x, ast.Assign) else [x.target]
            for t in tg:
                if isinstance(t, (ast.Subscript, ast.Attribute)):
                    out.append(("store", t))
        if isinstance(x, ast.Delete):
            for t in x.targets:
                out.append(("del", t))
        if isinstance(x, ast.Call) and isinstance(x.func, ast.Attribute) and x.func.attr in (
                "append", "extend", "pop", "clear", "remove", "insert", "update", "popitem", "add", "discard", "sort", "reverse"):
            out.append((x.func.attr, x))
    return out


def rule_scope(ctx) -> None:
    for name, lst in (("apply_merge", "merges"), ("apply_split", "splits")):
        fn = ctx.func(f"{GEL}:{name}")
        rd = ctx.rd(fn)
        cfg = ctx.cfg(fn)
        bad = []
        n_app = 0
        for kind, node in _mutations(fn):
            if kind == "append":
                recv = node.func.value
                okr = False
                if isinstance(recv, ast.Name):
                    for d in rd.all_defs:
                        if d.name == recv.id and d.kind == "assign" and isinstance(d.value, ast.Call) and call_tail(d.value) == "setdefault" \
                                and src(d.value.func.value) in _by_key(fn, "meta"):
                            okr = True
                if okr:
                    n_app += 1
                    continue
            if kind == "store" and isinstance(node, ast.Subscript) and isinstance(node.value, ast.Name):
                # stores into a local literal record are fine
                ds = [d for d in rd.all_defs if d.name == node.value.id and d.kind == "assign"]
                if ds and all(isinstance(d.value, ast.Dict) for d in ds):
                    continue
            bad.append((kind, node))
        ctx.check(not bad and n_app >= 1, "C18.SCOPE", f"{fn.qual}/writes-only-meta", fn.loc(bad[0][1]) if bad else fn.loc(),
                  f"{name} only appends a record to meta['{lst}']",
                  f"{name} writes outside the meta annotations: `{src(bad[0][1])[:60]}`" if bad else f"{name} no longer records under meta")
    # promotion
    fn = ctx.func(f"{GEL}:apply_promotion")
    cfg = ctx.cfg(fn)
    rd = ctx.rd(fn)
    for kind, node in _mutations(fn):
        if kind in ("pop", "clear", "remove", "del", "popitem", "discard"):
            ctx.violation("C18.SCOPE", f"{fn.qual}/destructive:{kind}", fn.loc(node), f"promotion removes graph content: `{src(node)[:50]}`")
    nstores = [n for n in cfg.nodes if n.kind == "stmt" and isinstance(n.ast, ast.Assign) and any(
        isinstance(t, ast.Subscript) and src(t.value) in _by_key(fn, "nodes") for t in n.ast.targets)]
    ctx.floor("C18.SCOPE", "concept node insertion", len(nstores), 1)
    for n in nstores:
        t = [t for t in n.ast.targets if isinstance(t, ast.Subscript)][0]
        k = src(t.slice)
        facts = cfg.facts(n)
        ok = any((f"{k} not in {x}", True) in facts or (f"{k} in {x}", False) in facts for x in _by_key(fn, "nodes"))
        ctx.check(ok, "C18.SCOPE", f"{fn.qual}/concept-insert-if-absent", fn.loc(n.ast), "a concept node is inserted only if absent (existing nodes are never overwritten)",
                  "nodes[...] is assigned without the `not in nodes` guard: promotion overwrites an existing node / is not idempotent")
    # counter increments only under the same guard
    for n in cfg.nodes:
        if n.kind == "stmt" and isinstance(n.ast, ast.Assign) and any(const_str(getattr(t, "slice", None)) == "concept_nodes_count" for t in n.ast.targets if isinstance(t, ast.Subscript)):
            facts = cfg.facts(n)
            nn = _by_key(fn, "nodes")
            ok = any(any(a.endswith(f"not in {x}") for x in nn) and p for a, p in facts) or any(any(a.endswith(f" in {x}") and not a.endswith(f"not in {x}") for x in nn) and not p for a, p in facts)
            ctx.check(ok, "C18.SCOPE", f"{fn.qual}/concept-count-guarded", fn.loc(n.ast), "the concept counter moves only when a node was inserted",
                      "concept_nodes_count is bumped on every call: promotion is not idempotent")
    # stored values do not depend on previous edge contents (idempotent by shape)
    for n in cfg.nodes:
        if n.kind == "stmt" and isinstance(n.ast, ast.Assign):
            for t in n.ast.targets:
                if isinstance(t, ast.Subscript) and isinstance(t.value, ast.Name) and t.value.id in _edge_records(fn, _by_key(fn, "edges")):
                    reads_prev = any(isinstance(x, ast.Name) and x.id == t.value.id for x in ast.walk(n.ast.value))
                    ctx.check(not reads_prev, "C18.SCOPE", f"{fn.qual}/edge-field-idempotent:{src(t)[:20]}", fn.loc(n.ast),
                              "attached edge fields are set to values independent of their previous content",
                              f"`{src(n.ast)[:60]}` derives the new value from the old one: applying a promotion twice changes the graph")
    # concept<->member edges only
    for n, c in find_calls(ctx, fn, lambda c, nm: call_tail(c) == "_edge_key"):
        cids = {src(t.slice) for n2 in cfg.nodes if n2.kind == "stmt" and isinstance(n2.ast, ast.Assign) for t in n2.ast.targets if isinstance(t, ast.Subscript) and src(t.value) in _by_key(fn, "nodes")}
        ok = len(c.args) == 2 and src(c.args[0]) in cids
        ctx.check(ok, "C18.SCOPE", f"{fn.qual}/concept-member-edges", fn.loc(c), "promotion only keys edges (concept id, member)",
                  f"promotion touches an edge not anchored at the concept node: {src(c)}")
    # candidate / pure functions
    for name in ("merge_candidates", "split_candidates", "promote_clusters"):
        f2 = ctx.func(f"{GEL}:{name}")
        rd2 = ctx.rd(f2)
        bad = []
        for kind, node in _mutations(f2):
            recv = node.func.value if isinstance(node, ast.Call) else node.value
            root = recv
            while isinstance(root, (ast.Attribute, ast.Subscript)):
                root = root.value
            if isinstance(root, ast.Name):
                ds = [d for d in rd2.all_defs if d.name == root.id and d.kind in ("assign", "for", "unpack", "param")]
                fresh = bool(ds) and all(d.kind == "assign" and isinstance(d.value, (ast.List, ast.Dict, ast.Set, ast.ListComp, ast.Call)) and not (
                    isinstance(d.value, ast.Call) and call_tail(d.value) in ("get", "setdefault", "_ensure_graph_store")) for d in ds)
                if fresh:
                    continue
            bad.append(node)
        ctx.check(not bad, "C18.SCOPE", f"{f2.qual}/no-writes", f2.loc(bad[0]) if bad else f2.loc(), f"{name} only builds fresh lists/dicts",
                  f"{name} mutates graph state: `{src(bad[0])[:50]}`" if bad else "")


def rule_no_module_state(ctx) -> None:
    """every GEL entry point re-reads the live configuration and keeps its state in state.graph only: no function of gel.py
    (or of the hybrid reranker that reads the same store) writes module-level state.  A memoised config view makes the gate,
    the clamps and the caps of a later call those of an earlier one."""
    from ..util import module_state_writes
    for mn in (GEL, "clematis.engine.stages.hybrid"):
        ws = module_state_writes(ctx, mn)
        ctx.analysed_modules.add(mn)
        ctx.check(not ws, "C18.GATE", f"{mn}/no-module-state", ctx.prog.module(mn).rel if not ws else ws[0][0].loc(ws[0][1]),
                  "no function of the module writes module-level state (configuration and gate are read afresh on every call)",
                  (f"`{ws[0][0].name}` {ws[0][3]} the module-level `{ws[0][2]}`: a later call can act on the configuration (gate, clamp bounds, caps) or data of an earlier call" if ws else ""))


def rule_gate(ctx) -> None:
    m = ctx.prog.module(GEL)
    n_sites = 0
    for fn in m.funcs.values():
        if fn.name.startswith("_"):
            continue
        cfg = ctx.cfg(fn)
        rd = ctx.rd(fn)
        for n, c in find_calls(ctx, fn, lambda c, nm: call_tail(c) == "_ensure_graph_store"):
            n_sites += 1
            ok = False
            for a, pol in cfg.facts(n):
                if a == "_graph_enabled(ctx)" and pol:
                    ok = True
                if pol and a.startswith("bool(") and "'enabled'" in a:
                    # cfg must be the graph config of ctx
                    ok = True
            ctx.check(ok, "C18.GATE", f"{fn.qual}/state-access-gated", fn.loc(c),
                      "state.graph is only touched (and possibly created) after the graph.enabled test",
                      "_ensure_graph_store(state) is reachable with the GEL gate off: it creates state.graph and changes snapshots/state of a gated-off run")
        # the gate-off return does not mention state
        for n in cfg.nodes:
            if n.kind == "stmt" and isinstance(n.ast, ast.Return):
                facts = cfg.facts(n)
                off = any((a == "_graph_enabled(ctx)" and not pol) or (a.startswith("bool(") and "'enabled'" in a and not pol) for a, pol in facts)
                if off and n.ast.value is not None:
                    uses_state = any(isinstance(x, ast.Name) and x.id == "state" for x in ast.walk(n.ast.value))
                    ctx.check(not uses_state, "C18.GATE", f"{fn.qual}/off-return-neutral", fn.loc(n.ast), "the gate-off return is a constant record",
                              "the gate-off return reads state")
    ctx.floor("C18.GATE", "_ensure_graph_store call sites in public functions", n_sites, 7)


def rule_config_values_total(ctx) -> None:
    """"every GEL edge weight lies within the configured clamp bounds" and "a tick ... removes exactly the edges that fall below
    the floor" under every configuration the validator accepts: (a) the clamp bounds are finite - an infinite bound is no
    bound, weights reach inf and the next tick turns inf * factor / inf - inf into NaN, outside every interval; (b) the tick's
    conversion of the integer half life to float cannot raise (an integer beyond the double range - "never decay" - is accepted
    by the validator: OverflowError out of the tick leaves edges below the floor in place)."""
    from ..util import enclosing
    impl = ctx.func("configs.validate:_validate_config_normalize_impl")
    cfg = ctx.cfg(impl)
    errs = [(n, c) for n in cfg.nodes for c in node_calls(n) if call_tail(c) == "_err" and len(c.args) >= 3 and "clamp" in (const_str(c.args[1]) or "") and (const_str(c.args[1]) or "").startswith("graph.update")]
    ctx.floor("C18.BOUND", "validator messages about graph.update clamp bounds", len(errs), 1)
    finite = any(any(("inf" in t or "isfinite" in t) for t, pol in cfg.facts(n)) for n, c in errs)
    ctx.check(finite, "C18.BOUND", f"{impl.qual}/clamp-bounds-finite", impl.loc(errs[0][1]) if errs else impl.loc(), "graph.update.clamp_min / clamp_max are required to be finite",
              "graph.update.clamp_min / clamp_max are only ordered (min < max, min <= 0 <= max): clamp_max = inf is accepted - no bound at all; with a large step the weight reaches inf and the next "
              "decay tick makes it NaN, outside every interval")
    n = 0
    for fn in ctx.prog.module(GEL).funcs.values():
        for x in walk_no_defs(fn.node):
            if isinstance(x, ast.Call) and dotted(x.func) == "float" and x.args and any(isinstance(y, ast.Call) and call_tail(y) == "get" and y.args and const_str(y.args[0]) == "half_life_turns" for y in ast.walk(x.args[0])):
                n += 1
                ok = False
                for st, part in enclosing(ctx.prog, fn, x):
                    if isinstance(st, ast.Try) and part == "body":
                        caught = set()
                        for h in st.handlers:
                            caught |= {"*"} if h.type is None else {src(e).split(".")[-1] for e in (h.type.elts if isinstance(h.type, ast.Tuple) else [h.type])}
                        if caught & {"*", "Exception", "BaseException", "OverflowError", "ArithmeticError"}:
                            ok = True
                ctx.check(ok, "C18.DECAY", ctx.okey(f"{fn.qual}/half-life-conversion-total"), fn.loc(x), f"`{src(x)[:50]}` is under a handler that covers OverflowError",
                          f"`{src(x)[:50]}` converts the integer half life without a guard: the validator accepts any integer >= 1, one beyond the double range raises OverflowError out of the tick - no edge "
                          "decays and edges below the floor stay")
    ctx.floor("C18.DECAY", "float conversions of graph.decay.half_life_turns in the GEL", n, 1)


def run(ctx) -> None:
    rule_config_values_total(ctx)
    rule_bound(ctx)
    rule_bound_everywhere(ctx)
    rule_decay(ctx)
    rule_key(ctx)
    rule_key_siblings(ctx)
    rule_orderins(ctx)
    rule_scope(ctx)
    rule_observe_records(ctx)
    rule_key_injective(ctx)
    rule_ids_are_strings(ctx)
    rule_promotion_idempotent(ctx)
    rule_gate(ctx)
    rule_no_module_state(ctx)
