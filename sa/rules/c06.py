"""C06 Snapshots round-trip the state they were written from (structural clauses)."""
from __future__ import annotations

import ast
from typing import Dict, List, Optional, Set, Tuple

from ..model import AnalysisError, Func, const_str, dotted, kwarg, src, walk_no_defs
from ..util import call_tail, find_calls, must_pass, no_exc, node_calls
from .c08 import _discovery_filter, tmp_name_rule

EXPLANATION = (
    "C06 decided statically: (TABLE) every body key the loader reads is written by the writer on all paths, "
    "exporter/importer item fields agree; (SYM) load-side sanitisation delegates to the write-side function and all "
    "four implementations of the canonical undirected edge key (snapshot write, snapshot load, gel, hybrid) have the "
    "same symbolic key spec (arrow literal, min-id first, ids str()-ed); (CLAMP) every weight stored on write is "
    "_round6(_clamp(float(.), wmin, wmax)) or the 0.0 prune constant and _round6 maps non-finite to 0.0; (DISC) "
    "discovery only returns names that passed endswith('.json'), sidecars end in '.meta'; (MARK) each body writer puts "
    "SCHEMA_VERSION into the body/sidecar and the sidecar write follows the body write on every normal path. Not "
    "decided: byte-for-byte fixpoint of write-load-write over all states."
)
RULES = {
    "C06.TABLE": "writer/reader key-table agreement with must-pass over the writer's CFG",
    "C06.SYM": "symbolic evaluation of the four canonical-key implementations + delegation check",
    "C06.CLAMP": "reaching-definition shape of every stored edge weight",
    "C06.DISC": "taint of raw directory entries vs the '.json' filter; sidecar suffix",
    "C06.MARK": "schema marker provenance + must-pass of the sidecar write",
}

SNAP = "clematis.engine.snapshot"


# ------------------------------------------------------------------ TABLE
def _body_reads(fn: Func, var: str) -> Set[str]:
    out = set()
    for x in walk_no_defs(fn.node):
        if isinstance(x, ast.Call) and isinstance(x.func, ast.Attribute) and x.func.attr == "get" and x.args and const_str(x.args[0]) is not None:
            names = {y.id for y in ast.walk(x.func.value) if isinstance(y, ast.Name)}
            if var in names and not isinstance(x.func.value, ast.Call):
                out.add(const_str(x.args[0]))
            elif var in names and isinstance(x.func.value, ast.BoolOp):
                out.add(const_str(x.args[0]))
    return out


def rule_table(ctx) -> None:
    w = ctx.func(SNAP + ":write_snapshot")
    l = ctx.func(SNAP + ":load_latest_snapshot")
    reads = set()
    # the parsed body: the second element unpacked from _read_header_payload(...) (and what apply_delta rebuilds into it)
    body_vars: Set[str] = set()
    for x in walk_no_defs(l.node):
        if isinstance(x, ast.Assign) and isinstance(x.value, ast.Call) and call_tail(x.value) == "_read_header_payload" and isinstance(x.targets[0], ast.Tuple) and len(x.targets[0].elts) == 2 \
                and isinstance(x.targets[0].elts[1], ast.Name):
            body_vars.add(x.targets[0].elts[1].id)
    # keep only the variable that is also (re)assigned from apply_delta / read after the header logic: the loader's body
    main = {v for v in body_vars if any(isinstance(x, ast.Assign) and isinstance(x.value, ast.Call) and call_tail(x.value) == "apply_delta" and any(isinstance(t, ast.Name) and t.id == v for t in x.targets) for x in walk_no_defs(l.node))}
    body_vars = main or body_vars
    if not body_vars:
        raise AnalysisError("anchor-vanished: parsed snapshot body in load_latest_snapshot")
    for x in walk_no_defs(l.node):
        if isinstance(x, ast.Call) and isinstance(x.func, ast.Attribute) and x.func.attr == "get" and x.args and const_str(x.args[0]) is not None:
            base = x.func.value
            names = {y.id for y in ast.walk(base) if isinstance(y, ast.Name)}
            if names & body_vars:
                reads.add(const_str(x.args[0]))
    ctx.floor("C06.TABLE", "body keys read by the loader", len(reads), 3)
    cfg = ctx.cfg(w)
    body_writes = find_calls(ctx, w, lambda c, nm: nm.endswith(":atomic_write_text") or nm.endswith(":atomic_write_bytes") or nm.endswith(":atomic_write_json"))
    if not body_writes:
        raise AnalysisError("anchor-vanished: write_snapshot body write")
    bw = [n for n, _ in body_writes]
    # the body object: what json.dumps serialises for the body write
    pvars: Set[str] = set()
    for n, c in body_writes:
        for y in ast.walk(c):
            if isinstance(y, ast.Call) and call_tail(y) == "dumps" and y.args and isinstance(y.args[0], ast.Name):
                pvars.add(y.args[0].id)
            if call_tail(c) == "atomic_write_json" and len(c.args) > 1 and isinstance(c.args[1], ast.Name):
                pvars.add(c.args[1].id)
    if not pvars:
        raise AnalysisError("anchor-vanished: object serialised by the snapshot body write")

    def writes_key(n, k) -> bool:
        a = n.ast
        if n.kind != "stmt":
            return False
        if isinstance(a, (ast.Assign, ast.AnnAssign)):
            v = a.value
            tg = a.targets if isinstance(a, ast.Assign) else [a.target]
            for t in tg:
                if isinstance(t, ast.Name) and t.id in pvars and isinstance(v, ast.Dict):
                    if any(const_str(kk) == k for kk in v.keys):
                        return True
                if isinstance(t, ast.Subscript) and isinstance(t.value, ast.Name) and t.value.id in pvars and const_str(t.slice) == k:
                    return True
        for c in node_calls(n):
            if isinstance(c.func, ast.Attribute) and c.func.attr == "setdefault" and isinstance(c.func.value, ast.Name) and c.func.value.id in pvars \
                    and c.args and const_str(c.args[0]) == k:
                return True
        return False

    for k in sorted(reads):
        p = must_pass(cfg, [cfg.entry], lambda n: n in bw, lambda n, k=k: writes_key(n, k), edge_ok=None)
        ctx.check(p is None, "C06.TABLE", f"{w.qual}/writes:{k}", w.loc(),
                  f"every path to the body write has stored payload[{k!r}] (loader reads it)",
                  f"the loader reads body key {k!r} but some writer path never stores it", ctx.path_witness(w, p))
    # exporter / importer item fields
    ex = ctx.func(SNAP + ":_export_store_for_snapshot")
    im = ctx.func(SNAP + ":_import_store_from_snapshot")
    top_w, item_w = set(), set()
    for x in walk_no_defs(ex.node):
        if isinstance(x, ast.Return) and isinstance(x.value, ast.Dict):
            top_w |= {const_str(k) for k in x.value.keys if const_str(k)}
        if isinstance(x, ast.Call) and isinstance(x.func, ast.Attribute) and x.func.attr == "append" and x.args and isinstance(x.args[0], ast.Dict):
            item_w |= {const_str(k) for k in x.args[0].keys if const_str(k)}
    top_r, item_r = set(), set()
    sp = im.params[1]
    loop_vars = {x.target.id for x in walk_no_defs(im.node) if isinstance(x, ast.For) and isinstance(x.target, ast.Name)}
    for x in walk_no_defs(im.node):
        if isinstance(x, ast.Compare) and isinstance(x.ops[0], ast.In) and const_str(x.left) and isinstance(x.comparators[0], ast.Name) and x.comparators[0].id == sp:
            top_r.add(const_str(x.left))
        if isinstance(x, ast.Call) and isinstance(x.func, ast.Attribute) and x.func.attr == "get" and isinstance(x.func.value, ast.Name) \
                and x.func.value.id in loop_vars and x.args and const_str(x.args[0]):
            item_r.add(const_str(x.args[0]))
    ctx.check(top_r == top_w and len(top_w) >= 2, "C06.TABLE", f"{SNAP}/store-sections", "snapshot.py",
              f"store exporter writes and importer reads sections {sorted(top_w)}", f"store sections disagree: written {sorted(top_w)} read {sorted(top_r)}")
    ctx.check(item_r == item_w and len(item_w) >= 4, "C06.TABLE", f"{SNAP}/weight-item-fields", "snapshot.py",
              f"weight items carry {sorted(item_w)} on both sides", f"weight item fields disagree: written {sorted(item_w)} read {sorted(item_r)}")


# -------------------------------------------------------------------- SYM
class _Sym:
    """Tiny symbolic evaluator for canonical-key code: strings are token tuples
    over {'A','B',literal}; one comparison between the two ids forks the env."""

    def __init__(self, consts: Dict[str, str]):
        self.consts = consts

    def ev(self, e: ast.AST, env: Dict[str, tuple]):
        if isinstance(e, ast.Name):
            if e.id in env:
                return env[e.id]
            if e.id in self.consts:
                return (self.consts[e.id],)
            return None
        if isinstance(e, ast.Constant) and isinstance(e.value, str):
            return (e.value,)
        if isinstance(e, ast.Call) and dotted(e.func) == "str" and len(e.args) == 1:
            v = self.ev(e.args[0], env)
            if v is not None:
                return ("str",) + v if False else v
            return None
        if isinstance(e, ast.JoinedStr):
            out = ()
            for v in e.values:
                if isinstance(v, ast.Constant):
                    out += (str(v.value),)
                elif isinstance(v, ast.FormattedValue):
                    x = self.ev(v.value, env)
                    if x is None:
                        return None
                    out += x
            return out
        if isinstance(e, ast.BinOp) and isinstance(e.op, ast.Add):
            l, r = self.ev(e.left, env), self.ev(e.right, env)
            return None if l is None or r is None else l + r
        if isinstance(e, ast.Tuple):
            return self.ev(e.elts[0], env) if e.elts else None
        return None

    def cmp_outcomes(self, test: ast.AST, env):
        """-> (op name, left sym, right sym) when test is `x <op> y` over the ids"""
        if isinstance(test, ast.Compare) and len(test.ops) == 1:
            l, r = self.ev(test.left, env), self.ev(test.comparators[0], env)
            if l in (("A",), ("B",)) and r in (("A",), ("B",)) and l != r:
                return type(test.ops[0]).__name__, l[0], r[0]
        return None


def _orient(op: str, l: str, r: str, truth: bool) -> Optional[Tuple[str, str]]:
    """(smaller, larger) symbol order implied by `l op r` being `truth` (ties ignored)."""
    if op in ("LtE", "Lt"):
        return (l, r) if truth else (r, l)
    if op in ("GtE", "Gt"):
        return (r, l) if truth else (l, r)
    return None


def _spec_from_ifexp(sym: _Sym, e: ast.IfExp, env) -> Optional[Tuple]:
    c = sym.cmp_outcomes(e.test, env)
    if c is None:
        return None
    op, l, r = c
    specs = set()
    for truth, branch in ((True, e.body), (False, e.orelse)):
        tpl = sym.ev(branch, env)
        o = _orient(op, l, r, truth)
        if tpl is None or o is None:
            return None
        small, large = o
        norm = tuple("MIN" if t == small else "MAX" if t == large else t for t in tpl)
        specs.add(norm)
    return tuple(sorted(specs)) if len(specs) == 1 else ("INCONSISTENT",) + tuple(sorted(specs))


def _spec_from_func(ctx, fn: Func, sym: _Sym) -> Optional[Tuple]:
    """Interpret a small function (a, b) -> key."""
    params = fn.params
    if len(params) < 2:
        return None
    results = set()

    def run(stmts, env) -> bool:
        for st in stmts:
            if isinstance(st, ast.Expr):
                continue
            if isinstance(st, ast.Assign) and len(st.targets) == 1:
                t = st.targets[0]
                if isinstance(t, ast.Tuple) and isinstance(st.value, ast.Tuple) and len(t.elts) == len(st.value.elts):
                    vals = [sym.ev(v, env) for v in st.value.elts]
                    for tt, v in zip(t.elts, vals):
                        if isinstance(tt, ast.Name) and v is not None:
                            env[tt.id] = v
                elif isinstance(t, ast.Name):
                    v = sym.ev(st.value, env)
                    if v is not None:
                        env[t.id] = v
                continue
            if isinstance(st, ast.If):
                c = sym.cmp_outcomes(st.test, env)
                if c is None:
                    return False
                op, l, r = c
                for truth, blk in ((True, st.body), (False, st.orelse)):
                    e2 = dict(env)
                    e2["__rel"] = _orient(op, l, r, truth)
                    rest = list(blk) + stmts[stmts.index(st) + 1:]
                    if not run(rest, e2):
                        return False
                return True
            if isinstance(st, ast.Return):
                v = st.value
                if isinstance(v, ast.IfExp):
                    s = _spec_from_ifexp(sym, v, env)
                    if s is None:
                        return False
                    results.add(s)
                    return True
                tpl = sym.ev(v, env)
                rel = env.get("__rel")
                if tpl is None or rel is None:
                    return False
                small, large = rel
                results.add((tuple("MIN" if t == small else "MAX" if t == large else t for t in tpl),))
                return True
            return False
        return False

    ok = run(list(fn.node.body), {params[0]: ("A",), params[1]: ("B",)})
    if not ok or len(results) != 1:
        return ("INCONSISTENT",) + tuple(sorted(results)) if results else None
    return next(iter(results))


def rule_sym(ctx) -> None:
    sl = ctx.func(SNAP + ":_sanitize_gel_for_load")
    calls = find_calls(ctx, sl, lambda c, nm: nm.endswith(":_sanitize_gel_for_write"))
    ctx.check(bool(calls), "C06.SYM", f"{sl.qual}/delegates", sl.loc(), "load-side sanitisation delegates to _sanitize_gel_for_write (one implementation)",
              "load-side sanitisation no longer reuses the write-side normalisation")
    specs: Dict[str, Tuple] = {}
    # two inline re-key blocks (or a shared helper) in write_snapshot / load_latest_snapshot
    for q in (SNAP + ":write_snapshot", SNAP + ":load_latest_snapshot"):
        fn = ctx.func(q)
        sym = _Sym(_module_str_consts(ctx, fn.module.name))
        found = None
        for x in walk_no_defs(fn.node):
            if isinstance(x, ast.IfExp) and isinstance(x.test, ast.Compare) and isinstance(x.body, ast.JoinedStr):
                names = [n.id for n in ast.walk(x.test) if isinstance(n, ast.Name)]
                if len(names) == 2:
                    env = {names[0]: ("A",), names[1]: ("B",)}
                    found = _spec_from_ifexp(sym, x, env)
                    # ids must be str()-ed before comparison
                    rd = ctx.rd(fn)
                    cn = ctx.cfg(fn).node_containing(x)
                    for nm in names:
                        strd = all(d.value is not None and "str(" in src(d.value) for d in (rd.reaching(nm, cn[0]) if cn else []) if d.kind == "assign")
                        ctx.check(strd, "C06.SYM", f"{q}/ids-are-strings:{nm}", fn.loc(x), f"`{nm}` is str()-ed before the lexicographic comparison",
                                  f"`{nm}` is compared without str() coercion (int ids order differently from their string forms)")
        if found is None:
            # helper extraction: a call to a module-level function that computes the key
            for x in walk_no_defs(fn.node):
                if isinstance(x, ast.Call):
                    r = ctx.prog.callee(fn, x)
                    if r and r[0] == "func" and "key" in r[1].rsplit(":", 1)[1]:
                        f2 = ctx.prog.funcs[r[1]]
                        found = _spec_from_func(ctx, f2, _Sym(_module_str_consts(ctx, f2.module.name)))
                        if found:
                            break
        if found is None:
            ctx.violation("C06.SYM", f"{q}/rekey-missing", fn.loc(), "no canonical re-keying of GEL edges found on this side of the round trip")
        else:
            specs[q] = found
    for q in ("clematis.engine.gel:_edge_key", "clematis.engine.stages.hybrid:_edge_key"):
        fn = ctx.func(q)
        s = _spec_from_func(ctx, fn, _Sym(_module_str_consts(ctx, fn.module.name)))
        if s is None:
            ctx.undecided("C06.SYM", f"{q}/spec", fn.loc(), "canonical-key function uses an idiom outside the symbolic evaluator")
        else:
            specs[q] = s
    ctx.floor("C06.SYM", "canonical-key implementations evaluated", len(specs), 4)
    vals = set(specs.values())
    ref = specs.get("clematis.engine.gel:_edge_key")
    for q, s in specs.items():
        ok = s == ref and s[0] != "INCONSISTENT"
        ctx.check(ok, "C06.SYM", f"{q}/key-spec", q.split(":")[0].replace(".", "/") + ".py",
                  f"canonical key spec {s} equals gel._edge_key's",
                  f"canonical key spec {s} differs from gel._edge_key's {ref}: the same edge gets two keys across write/load/update")


def _module_str_consts(ctx, modname: str) -> Dict[str, str]:
    m = ctx.prog.module(modname)
    out = {}
    for name, sts in m.globals_assigned.items():
        for st in sts:
            v = getattr(st, "value", None)
            if const_str(v) is not None:
                out[name] = const_str(v)
    return out


def rule_every_record_reaches_the_body(ctx) -> None:
    """"edge weights clamped to the configured bounds" for every edge of the state: a field of ONE record is converted under a
    guard of its own.  A conversion inside a loop whose only guard is a try around the whole loop ends the loop at the first
    record that fails (a weight beyond the float range, None, text) and every later record is silently absent from the body."""
    from .. import hazards
    import types
    n_fn = 0
    for fn in ctx.prog.module(SNAP).funcs.values():
        n_fn += 1
        for conv, t, lp in hazards.conversions_under_loop_wide_try(ctx, fn):
            ctx.violation("C06.CLAMP", ctx.okey(f"{fn.qual}/record-conversion-guarded-per-record"), fn.loc(conv),
                          f"`{src(conv)[:50]}` runs inside a loop whose only guard is the try around the whole loop (line {t.lineno}): the first record that does not convert ends the loop and "
                          "that record and every later one are missing from the snapshot body, without a trace")
    probe = ast.parse("def _p(recs, out):\n    try:\n        for k, r in recs.items():\n            out[k] = float(r.get('weight'))\n    except Exception:\n        pass\n").body[0]
    ctx.floor("C06.CLAMP", "positive control: loop-wide try around a per-record conversion recognised", len(hazards.conversions_under_loop_wide_try(ctx, types.SimpleNamespace(node=probe))), 1)
    ctx.holds("C06.CLAMP", f"{SNAP}/records-converted-under-their-own-guard", "clematis/engine/snapshot.py", f"{n_fn} functions of the snapshot module: no per-record numeric conversion relies on a loop-wide try")


# ------------------------------------------------------------------ CLAMP
def rule_clamp(ctx) -> None:
    fn = ctx.func(SNAP + ":_sanitize_gel_for_write")
    cfg = ctx.cfg(fn)
    rd = ctx.rd(fn)
    n_w = 0
    for n in cfg.nodes:
        if n.kind != "stmt":
            continue
        for x in walk_no_defs(n.ast):
            if isinstance(x, ast.Dict):
                for k, v in zip(x.keys, x.values):
                    if const_str(k) != "weight":
                        continue
                    n_w += 1
                    exprs = [v]
                    if isinstance(v, ast.Name):
                        exprs = [d.value for d in rd.reaching(v.id, n) if d.value is not None]
                    for e in exprs:
                        ok = False
                        if isinstance(e, ast.Constant) and e.value == 0.0:
                            ok = True
                        if isinstance(e, ast.Call) and (dotted(e.func) or "").endswith("_round6") and e.args:
                            inner = e.args[0]
                            if isinstance(inner, ast.Call) and (dotted(inner.func) or "").endswith("_clamp") and len(inner.args) == 3:
                                bounds = rd.slice(inner.args[1:], n)
                                from_cfg = any((dotted(c.func) or "").endswith("_graph_bounds_from_cfg") for c in bounds.calls())
                                # the clamped value is a float: float(.) itself, or a local every definition of which is float(.)
                                a0 = inner.args[0]
                                is_float = isinstance(a0, ast.Call) and dotted(a0.func) == "float"
                                if isinstance(a0, ast.Name):
                                    dn = cfg.node_containing(e)
                                    ds = [d for d in rd.reaching(a0.id, dn[0] if dn else n) if d.value is not None]
                                    def _fl(v):
                                        return (isinstance(v, ast.Call) and dotted(v.func) == "float") or (isinstance(v, ast.IfExp) and _fl(v.body) and _fl(v.orelse))
                                    is_float = bool(ds) and all(_fl(d.value) for d in ds)
                                ok = from_cfg and is_float
                        ctx.check(ok, "C06.CLAMP", f"{fn.qual}/weight:_round6(_clamp(float))" if ok else f"{fn.qual}/weight:{src(e)[:40]}", fn.loc(n.ast),
                                  f"stored weight is `{src(e)[:60]}`: clamped to the configured bounds and rounded to 6 decimals",
                                  f"a stored edge weight `{src(e)[:60]}` is not _round6(_clamp(float(.), wmin, wmax))")
    ctx.floor("C06.CLAMP", "weight stores", n_w, 1)
    r6 = ctx.func(SNAP + ":_round6")
    txt = src(r6.node)
    has_finite = any(isinstance(x, ast.Call) and dotted(x.func) == "math.isfinite" for x in walk_no_defs(r6.node))
    has_round6 = any(isinstance(x, ast.Call) and dotted(x.func) == "round" and len(x.args) == 2 and isinstance(x.args[1], ast.Constant) and x.args[1].value == 6
                     for x in walk_no_defs(r6.node))
    ctx.check(has_finite and has_round6, "C06.CLAMP", f"{r6.qual}/nonfinite-and-6dp", r6.loc(),
              "_round6 tests math.isfinite (non-finite -> 0.0) and rounds to 6 decimals", "_round6 no longer maps non-finite to 0.0 / rounds to 6 decimals")
    cl = ctx.func(SNAP + ":_clamp")
    cmps = [x for x in walk_no_defs(cl.node) if isinstance(x, ast.Compare)]
    ops = sorted(type(c.ops[0]).__name__ for c in cmps)
    lower = any(t in ops for t in ("Lt", "LtE")) or any(isinstance(x, ast.Call) and dotted(x.func) == "max" for x in walk_no_defs(cl.node))
    upper = any(t in ops for t in ("Gt", "GtE")) or any(isinstance(x, ast.Call) and dotted(x.func) == "min" for x in walk_no_defs(cl.node))
    ctx.check(lower and upper, "C06.CLAMP", f"{cl.qual}/two-sided", cl.loc(), "_clamp is two-sided (a lower and an upper bound are enforced)", f"_clamp comparisons are {ops}: one side of the interval is not enforced")
    # NaN has no side of the interval: both comparisons are false and it passes the clamp; _round6 then writes 0.0 - AFTER the
    # clamp, outside bounds that exclude 0, and the loader clamps that 0.0 to another value (the second body differs).  The
    # clamp tells NaN apart (x != x / isnan / isfinite) before it compares.
    nan_seen = any((isinstance(c, ast.Compare) and isinstance(c.ops[0], (ast.NotEq, ast.Eq)) and src(c.left) == src(c.comparators[0])) for c in cmps) or \
        any(isinstance(x, ast.Call) and call_tail(x) in ("isnan", "isfinite") for x in walk_no_defs(cl.node))
    ctx.check(nan_seen, "C06.CLAMP", f"{cl.qual}/nan-has-no-side", cl.loc(), "_clamp tells NaN apart before comparing with the bounds",
              "_clamp compares only: a NaN weight fails both comparisons and passes, _round6 turns it into 0.0 after the clamp - with bounds that exclude 0 (weight_min = 0.2) the body carries a weight "
              "outside the bounds, the loader clamps it to the bound, and the snapshot of the loaded state differs from the one that was loaded")


# ------------------------------------------------------------------- DISC
def rule_disc(ctx) -> None:
    fn = ctx.func(SNAP + ":_pick_latest_snapshot_path")
    _discovery_filter(ctx, fn, "C06.DISC")
    tmp_name_rule(ctx, "C06.DISC")  # temp names '<name>.<rand>' cannot end in '.json'
    sc = ctx.func(SNAP + ":_write_sidecar_meta")
    rd = ctx.rd(sc)
    ws = find_calls(ctx, sc, lambda c, nm: nm.endswith(":atomic_write_text"))
    ctx.floor("C06.DISC", "sidecar write", len(ws), 1)
    for n, c in ws:
        inl = rd.inline(c.args[0], n)
        suf = None
        if isinstance(inl, ast.BinOp) and isinstance(inl.op, ast.Add):
            suf = const_str(inl.right)
        if isinstance(inl, ast.JoinedStr) and inl.values and isinstance(inl.values[-1], ast.Constant):
            suf = str(inl.values[-1].value)
        ctx.check(suf is not None and not suf.endswith(".json") and suf.startswith("."), "C06.DISC", f"{sc.qual}/sidecar-suffix", sc.loc(c),
                  f"sidecar name is <snapshot>{suf}: never ends with '.json'", f"sidecar name `{src(inl)[:50]}` can end with '.json' and be picked as a snapshot")


def rule_edge_ids_injective(ctx) -> None:
    """"restores ... the GEL graph that was written": the normaliser files every edge under an id built from src, dst and rel,
    and the writer / loader re-key under src→dst.  Joined with a separator the node ids may contain, edges between DIFFERENT
    node pairs get one id and one of them is silently missing from the body."""
    from ..util import separator_joined_ids
    hits = []
    for q in (SNAP + ":_edge_id", SNAP + ":write_snapshot", SNAP + ":load_latest_snapshot"):
        fn = ctx.func(q)
        for x, sep in separator_joined_ids(fn):
            if sep in ("__", "→"):
                hits.append((fn, x, sep))
    seps = sorted({h[2] for h in hits})
    ctx.check(not hits, "C06.SYM", f"{SNAP}/edge-ids-tell-pairs-apart", hits[0][0].loc(hits[0][1]) if hits else "clematis/engine/snapshot.py", "node ids are escaped before they are joined into an edge id",
              (f"edge ids / body keys are built by joining node ids with {seps} as they are ({len(hits)} constructions): ('a__b','c') and ('a','b__c') both give a__b__c__coact, ('a→b','c') and ('a','b→c') both "
               "give a→b→c - one of the two edges is lost between the state and the body, nothing is reported") if hits else "")


def rule_agent_file_names(ctx) -> None:
    """"for all agents": the body an agent writes is the body its loader looks for, in the snapshot directory.  The agent id is
    ONE component of the name `state_<agent>.json`: wherever the module builds that name, the id has passed an encoding of
    path separators ('/' -> an escape), the same in the writer and the loader.  Joined verbatim, an id such as "team/A" is
    written into a sub-directory discovery never lists (the agent's own load finds nothing or another agent's file) and
    "../x" leaves the snapshot directory."""
    sites = []
    for fn in ctx.prog.module(SNAP).funcs.values():
        for x in walk_no_defs(fn.node):
            if isinstance(x, ast.JoinedStr) and x.values and isinstance(x.values[0], ast.Constant) and str(x.values[0].value).startswith("state_") \
                    and isinstance(x.values[-1], ast.Constant) and str(x.values[-1].value).endswith(".json") and any(isinstance(v, ast.FormattedValue) for v in x.values):
                sites.append((fn, x))
    ctx.floor("C06.DISC", "constructions of an agent's snapshot file name", len(sites), 1)
    for fn, x in sites:
        cfg = ctx.cfg(fn)
        rd = ctx.rd(fn)
        nd = cfg.node_containing(x)
        dyn = [v.value for v in x.values if isinstance(v, ast.FormattedValue)]
        sl = rd.slice(dyn, nd[0]) if nd else None
        calls = sl.calls() if sl else []
        encoded = any((call_tail(c) == "replace" and c.args and const_str(c.args[0]) in ("/", "\\") ) or call_tail(c) in ("quote", "quote_plus", "basename") for c in calls)
        ctx.check(encoded, "C06.DISC", ctx.okey(f"{fn.qual}/agent-id-is-one-path-component"), fn.loc(x), f"`{src(x)[:40]}`: path separators in the id are escaped before it enters the name",
                  f"`{src(x)[:40]}` joins the agent id into the file name verbatim: an id with a path separator is written into a sub-directory that discovery (top level only) never lists - the agent's "
                  "own load finds nothing, or another agent's file - and '..' climbs out of the snapshot directory")
    # one construction for writer and loader
    pats = {"".join(str(v.value) if isinstance(v, ast.Constant) else "{}" for v in x.values) for _, x in sites}
    ctx.check(len(pats) == 1, "C06.DISC", f"{SNAP}/one-name-for-writer-and-loader", "clematis/engine/snapshot.py",
              f"every construction of the name uses the pattern {sorted(pats)}",
              f"the name is built with different patterns {sorted(pats)}: writer and loader disagree on the file an agent owns")


# ------------------------------------------------------------------- MARK
def rule_mark(ctx) -> None:
    w = ctx.func(SNAP + ":write_snapshot")
    cfg = ctx.cfg(w)
    ok = False
    for x in walk_no_defs(w.node):
        if isinstance(x, ast.Dict):
            for k, v in zip(x.keys, x.values):
                if const_str(k) == "schema_version" and isinstance(v, ast.Name) and v.id == "SCHEMA_VERSION":
                    ok = True
    ctx.check(ok, "C06.MARK", f"{w.qual}/body-marker", w.loc(), "the body literal carries schema_version = SCHEMA_VERSION",
              "write_snapshot's body no longer carries the frozen schema marker")
    for q in (SNAP + ":write_snapshot", SNAP + ":_write_lines"):
        fn = ctx.func(q)
        c2 = ctx.cfg(fn)
        bw = [n for n, _ in find_calls(ctx, fn, lambda c, nm: nm.split(":")[-1].startswith("atomic_write_"))]
        sc = find_calls(ctx, fn, lambda c, nm: nm.endswith(":_write_sidecar_meta"))
        scn = [n for n, _ in sc]
        if not bw:
            raise AnalysisError(f"anchor-vanished: body write in {q}")
        p = must_pass(c2, bw, lambda n: n is c2.exit, lambda n: n in scn, edge_ok=no_exc, include_start=False)
        ctx.check(p is None and bool(scn), "C06.MARK", f"{q}/sidecar-follows-body", fn.loc(),
                  "every normal path from the body write passes the sidecar write", "a snapshot body can be written without its sidecar marker",
                  ctx.path_witness(fn, p))
        for n, c in sc:
            v = kwarg(c, "schema_version")
            ctx.check(isinstance(v, ast.Name) and v.id == "SCHEMA_VERSION", "C06.MARK", f"{q}/sidecar-marker", fn.loc(c),
                      "sidecar carries SCHEMA_VERSION", f"sidecar schema marker is `{src(v) if v is not None else None}`")
    # the offline compaction writer (scripts/mem_compact.py, outside the package) writes snapshot-<etag>.full.json files too:
    # each body it writes is followed, in the same loop body, by a sidecar write that ends in _write_sidecar_meta
    import os
    rel = "scripts/mem_compact.py"
    try:
        tree = ast.parse(open(os.path.join(ctx.prog.repo, rel), encoding="utf-8").read())
    except OSError:
        raise AnalysisError(f"anchor-vanished: {rel}")
    defs = {x.name: x for x in ast.walk(tree) if isinstance(x, ast.FunctionDef)}

    def reaches_sidecar(name: str, seen=()) -> bool:
        d = defs.get(name)
        if d is None or name in seen:
            return False
        for y in ast.walk(d):
            if isinstance(y, ast.Call):
                t = y.func.attr if isinstance(y.func, ast.Attribute) else (y.func.id if isinstance(y.func, ast.Name) else "")
                if t == "_write_sidecar_meta" or reaches_sidecar(t, seen + (name,)):
                    return True
        return False

    body_writers = {nm for nm, d in defs.items() if any(isinstance(y, ast.Call) and isinstance(y.func, ast.Name) and y.func.id == "_atomic_write_bytes" for y in ast.walk(d)) and nm != "_atomic_write_bytes"}
    sites = 0
    for lp in [x for x in ast.walk(tree) if isinstance(x, ast.For)]:
        calls = [y for st in lp.body for y in ast.walk(st) if isinstance(y, ast.Call) and isinstance(y.func, ast.Name)]
        bw = [y for y in calls if y.func.id in body_writers]
        if not bw:
            continue
        sites += 1
        after = [y for y in calls if y.lineno > bw[-1].lineno and reaches_sidecar(y.func.id)]
        ctx.check(bool(after), "C06.MARK", f"{rel}/sidecar-follows-body", f"{rel}:{bw[0].lineno}", "each compacted snapshot is written together with its schema sidecar",
                  f"`{src(bw[0])[:60]}` writes a compacted snapshot and nothing in the loop writes its sidecar: the compacted directory carries no schema marker (readers report schema 'unknown')")
    ctx.floor("C06.MARK", "snapshot-writing loops in scripts/mem_compact.py", sites, 1)
    m = ctx.prog.module(SNAP)
    sv = [st for st in m.globals_assigned.get("SCHEMA_VERSION", [])]
    ctx.check(len(sv) == 1 and const_str(getattr(sv[0], "value", None)) is not None, "C06.MARK", f"{SNAP}/marker-constant", "snapshot.py",
              "SCHEMA_VERSION is a single module-level string constant", "SCHEMA_VERSION is reassigned or not a constant", nontrivial=False)


def rule_load_keeps_record(ctx) -> None:
    """the boot loader re-keys the GEL edge map but hands each record on as the normaliser built it: the only fields it may
    set are ones the writer does not persist (the runtime `id`).  Rewriting a persisted field - e.g. swapping src / dst into
    canonical order - makes the loaded graph differ from the written one and the next snapshot differ from this one."""
    w = ctx.func(SNAP + ":_sanitize_gel_for_write")
    # writer's edge-record field table: keys of the dict literal stored into the edges map that it returns
    edge_maps = {src(v) for r in walk_no_defs(w.node) if isinstance(r, ast.Return) and isinstance(r.value, ast.Dict) for k, v in zip(r.value.keys, r.value.values)
                 if k is not None and const_str(k) == "edges" and isinstance(v, ast.Name)}
    wfields: Set[str] = set()
    for x in walk_no_defs(w.node):
        if isinstance(x, ast.Assign) and isinstance(x.value, ast.Dict) and any(isinstance(t, ast.Subscript) and src(t.value) in edge_maps for t in x.targets):
            wfields |= {const_str(k) for k in x.value.keys if k is not None and const_str(k)}
    ctx.floor("C06.TABLE", "fields of the edge record built by the snapshot normaliser", len(wfields), 4)
    set_by: Dict[str, Set[str]] = {}
    key_forms: Dict[str, Set[str]] = {}
    n_loops = 0
    # sibling re-keying loops: the writer's (before the payload is serialised) and the boot loader's
    hosts = [f for f in ctx.prog.module(SNAP).funcs.values()
             if any(isinstance(x, ast.For) and _items_call(x.iter)[0] is not None for x in walk_no_defs(f.node))
             and any(isinstance(c, ast.Call) and call_tail(c) in ("_sanitize_gel_for_write", "_sanitize_gel_for_load") for c in walk_no_defs(f.node)) and f.qual != w.qual]
    REKEY_ORDER.clear()
    for ld in sorted(hosts, key=lambda f: f.qual):
        ctx.analysed_funcs.add(ld.qual)
        n_loops += _rekey_loops(ctx, ld, wfields, set_by, key_forms)
    ctx.floor("C06.TABLE", "re-keying loops over the edge map (writer + loader)", n_loops, 2)
    # "snapshotting the loaded state again reproduces the same body byte for byte": the body lists the edges in the order of the
    # state's map.  The writer's and the loader's re-keying loops must rebuild the map in the SAME order (both as listed, or both
    # through the same sort): a loader that files the records in sorted-key order while the writer keeps insertion order gives a
    # loaded state whose next snapshot has the same edges in another order.
    orders = {q: o for q, o in REKEY_ORDER.items() if any(q == h.qual for h in hosts)}
    if orders:
        ctx.check(len(set(orders.values())) == 1, "C06.TABLE", f"{SNAP}/rekey-siblings-keep-the-same-order", "clematis/engine/snapshot.py",
                  f"writer and loader rebuild the edge map in the same order ({sorted(set(orders.values()))[0]})",
                  f"the re-keying loops rebuild the edge map in different orders { {k.split(':')[-1]: v for k, v in sorted(orders.items())} }: the state loaded from a snapshot lists its edges in another "
                  "order than the state that was written, and snapshotting it again gives a different body (same edges, other byte order)")
    vals = list(set_by.values())
    ctx.check(len(vals) >= 2 and all(v == vals[0] for v in vals), "C06.TABLE", f"{SNAP}/rekey-siblings-set-the-same-fields", "clematis/engine/snapshot.py",
              f"the writer's and the loader's re-keying loops set the same fields ({sorted(vals[0]) if vals else []})",
              f"the re-keying loops disagree on the fields they set: { {k.split(':')[-1]: sorted(v) for k, v in set_by.items()} }")
    kf = list(key_forms.values())
    diff = sorted(set().union(*kf) - set.intersection(*kf)) if kf else []
    ctx.check(len(kf) >= 2 and not diff, "C06.TABLE", f"{SNAP}/rekey-siblings-derive-the-same-key", "clematis/engine/snapshot.py",
              f"the writer's and the loader's re-keying loops decide a record's key from the same inputs ({sorted(kf[0]) if kf else []})",
              f"the re-keying loops do not decide a record's key from the same inputs - only one of them looks at {diff}: edges the writer keeps apart the loader folds together (or the reverse), "
              "so the loaded edge map is not the written one and re-snapshotting the loaded state gives a different body")


def _key_forms(ctx, ld: Func, lp: ast.For, recs: Set[str], sink_maps: Set[str], key_forms: Dict[str, Set[str]]) -> None:
    """what decides the key a record is filed under in this re-keying loop: for every store `sink[K'] = ...` the inputs read by
    the reaching definitions of K' (inlined) and by the store's guards inside the loop, with the loop's own names replaced by
    roles - K the incoming key, R.<field> a field of the record, M the map being filled.  Compared between the sibling loops
    as sets of inputs, not as expressions, so that either loop can be rewritten freely as long as it looks at the same things."""
    import builtins
    cfg = ctx.cfg(ld)
    rd = ctx.rd(ld)
    ktarget = lp.target.elts[0].id if isinstance(lp.target.elts[0], ast.Name) else None

    def atoms(e: ast.AST, at) -> Set[str]:
        e = rd.inline(e, at, stop=set(recs) | {ktarget or ""} | set(sink_maps))
        out: Set[str] = set()
        consumed = set()
        for x in ast.walk(e):
            f = None
            if isinstance(x, ast.Call) and isinstance(x.func, ast.Attribute) and x.func.attr == "get" and isinstance(x.func.value, ast.Name) and x.func.value.id in recs and x.args:
                f = const_str(x.args[0]) or "<computed>"
                consumed.add(id(x.func.value))
            elif isinstance(x, ast.Subscript) and isinstance(x.value, ast.Name) and x.value.id in recs:
                f = const_str(x.slice) or "<computed>"
                consumed.add(id(x.value))
            if f:
                out.add(f"R.{f}")
        for x in ast.walk(e):
            if isinstance(x, ast.Name) and isinstance(x.ctx, ast.Load) and id(x) not in consumed:
                if x.id == ktarget:
                    out.add("K")
                elif x.id in recs:
                    out.add("R")
                elif x.id in sink_maps:
                    out.add("M")
                elif not hasattr(builtins, x.id):
                    out.add(x.id)
        return out

    forms = key_forms.setdefault(ld.qual, set())
    inside = {id(y) for y in ast.walk(lp)}
    for st in lp.body:
        for x in walk_no_defs(st):
            if not (isinstance(x, ast.Assign) and any(isinstance(t, ast.Subscript) and isinstance(t.value, ast.Name) and t.value.id in sink_maps for t in x.targets)):
                continue
            ns = cfg.node_containing(x)
            if not ns:
                continue
            n = ns[0]
            for test, pol, b in cfg.guards(n):
                if id(test) in inside:
                    forms |= {"guard:" + a for a in atoms(test, b)}
            for t in x.targets:
                if isinstance(t, ast.Subscript) and isinstance(t.value, ast.Name) and t.value.id in sink_maps:
                    k = t.slice
                    if isinstance(k, ast.Name) and k.id != ktarget and k.id not in recs:
                        for d in rd.reaching(k.id, n):
                            forms |= {"key:" + a for a in (atoms(d.value, d.node) if d.value is not None else {f"<{d.kind}>"})}
                            # a definition of the key that is itself conditional: its guards decide the key too
                            for test, pol, b in cfg.guards(d.node):
                                if id(test) in inside:
                                    forms |= {"key:" + a for a in atoms(test, b)}
                    else:
                        forms |= {"key:" + a for a in atoms(k, n)}


def _items_call(it: ast.AST):
    """(the `<map>.items()` call, the order-changing wrapper or None) for an iterable of the forms m.items() / list(m.items()) /
    sorted(m.items(), ...) / reversed(...)"""
    wrap = None
    for _ in range(3):
        if isinstance(it, ast.Call) and call_tail(it) == "items":
            return it, wrap
        if isinstance(it, ast.Call) and dotted(it.func) in ("sorted", "reversed", "list", "tuple") and it.args:
            if dotted(it.func) in ("sorted", "reversed"):
                wrap = wrap or it
            it = it.args[0]
            continue
        break
    return None, None


REKEY_ORDER: Dict[str, str] = {}


def _rekey_loops(ctx, ld: Func, wfields: Set[str], set_by: Dict[str, Set[str]], key_forms: Dict[str, Set[str]]) -> int:
    n_loops = 0
    for lp in [x for x in walk_no_defs(ld.node) if isinstance(x, ast.For)]:
        items, wrap = _items_call(lp.iter)
        if not (items is not None and isinstance(lp.target, ast.Tuple) and len(lp.target.elts) == 2 and isinstance(lp.target.elts[1], ast.Name)):
            continue
        REKEY_ORDER[ld.qual] = ("map order" if wrap is None else src(wrap.func) + "(" + (src(kwarg(wrap, "key"))[:40] if isinstance(wrap, ast.Call) and kwarg(wrap, "key") is not None else "") + ")")
        rec = lp.target.elts[1].id
        stores = [x for st in lp.body for x in walk_no_defs(st) if isinstance(x, ast.Assign) and any(isinstance(t, ast.Subscript) and isinstance(t.value, ast.Name) for t in x.targets)]
        # names holding the record or a copy of it inside the loop
        recs = {rec}
        for _ in range(2):
            for st in lp.body:
                for x in walk_no_defs(st):
                    if isinstance(x, ast.Assign) and len(x.targets) == 1 and isinstance(x.targets[0], ast.Name):
                        v = x.value
                        if (isinstance(v, ast.Call) and dotted(v.func) in ("dict", "copy.copy", "copy.deepcopy") and v.args and isinstance(v.args[0], ast.Name) and v.args[0].id in recs) \
                                or (isinstance(v, ast.Dict) and any(k is None and isinstance(val, ast.Name) and val.id in recs for k, val in zip(v.keys, v.values))) \
                                or (isinstance(v, ast.Name) and v.id in recs):
                            recs.add(x.targets[0].id)
        sink_maps = {t.value.id for x in stores for t in x.targets if isinstance(t, ast.Subscript) and isinstance(t.value, ast.Name) and t.value.id not in recs}
        if not sink_maps:
            continue
        n_loops += 1
        over: List[Tuple[str, ast.AST]] = []
        fields_set: Set[str] = set()

        def same_field(f: str, v: ast.AST) -> bool:
            return (isinstance(v, ast.Subscript) and isinstance(v.value, ast.Name) and v.value.id in recs and const_str(v.slice) == f) or \
                   (isinstance(v, ast.Call) and call_tail(v) == "get" and isinstance(v.func.value, ast.Name) and v.func.value.id in recs and v.args and const_str(v.args[0]) == f)

        for st in lp.body:
            for x in walk_no_defs(st):
                if isinstance(x, ast.Assign):
                    for t in x.targets:
                        if isinstance(t, ast.Subscript) and isinstance(t.value, ast.Name) and t.value.id in recs:
                            f = const_str(t.slice)
                            fields_set.add(f or "<computed>")
                            if f is None or (f in wfields and not same_field(f, x.value)):
                                over.append((f or "<computed>", x))
                if isinstance(x, ast.Call) and dotted(x.func) == "dict" and x.args and isinstance(x.args[0], ast.Name) and x.args[0].id in recs:
                    for kw in x.keywords:
                        fields_set.add(kw.arg or "**")
                        if kw.arg is None or (kw.arg in wfields and not same_field(kw.arg, kw.value)):
                            over.append((kw.arg or "**", x))
                if isinstance(x, ast.Dict) and any(k is None and isinstance(v, ast.Name) and v.id in recs for k, v in zip(x.keys, x.values)):
                    for k, v in zip(x.keys, x.values):
                        if k is not None:
                            fields_set.add(const_str(k) or "<computed>")
                        if k is not None and (const_str(k) is None or (const_str(k) in wfields and not same_field(const_str(k), v))):
                            over.append((const_str(k) or "<computed>", x))
                if isinstance(x, ast.Call) and isinstance(x.func, ast.Attribute) and x.func.attr in ("update", "pop", "clear", "setdefault", "popitem") and isinstance(x.func.value, ast.Name) and x.func.value.id in recs:
                    over.append((f".{x.func.attr}()", x))
        set_by.setdefault(ld.qual, set()).update(fields_set)
        _key_forms(ctx, ld, lp, recs, sink_maps, key_forms)
        key = ctx.okey(f"{ld.qual}/rekey-keeps-persisted-fields")
        if over:
            f, node = over[0]
            ctx.violation("C06.TABLE", key, ld.loc(node), f"the re-keying loop rewrites the persisted edge field `{f}` (`{src(node)[:60]}`): the normaliser's record fields {sorted(wfields)} are persisted as they are, "
                          "so an edge loaded this way is not the edge that was written (e.g. src / dst swapped into canonical order) and re-snapshotting the loaded state gives a different body")
        else:
            ctx.holds("C06.TABLE", key, ld.loc(lp), f"the re-keying loop sets no field of the writer's record table {sorted(wfields)} (only runtime-only fields such as id)")
    return n_loops


def rule_records_canonical(ctx) -> None:
    """the body is a function of the state's content, not of the order in which record fields happened to be built: every
    record the normaliser puts under nodes / edges is constructed by it (a literal with a fixed field order, or the
    canonical-order copy helper) - never the caller's own dict, whose field order survives into the bytes (a state loaded from
    a canonical-JSON snapshot has the fields sorted, so re-snapshotting it would not reproduce the body that was written)."""
    w = ctx.func(SNAP + ":_sanitize_gel_for_write")
    maps = {src(v) for r in walk_no_defs(w.node) if isinstance(r, ast.Return) and isinstance(r.value, ast.Dict) for k, v in zip(r.value.keys, r.value.values)
            if k is not None and const_str(k) in ("nodes", "edges") and isinstance(v, ast.Name)}
    n_st = 0
    for x in walk_no_defs(w.node):
        if isinstance(x, ast.Assign) and any(isinstance(t, ast.Subscript) and src(t.value) in maps for t in x.targets):
            n_st += 1
            v = x.value
            built = not isinstance(v, (ast.Name, ast.Attribute, ast.Subscript))
            canonical = isinstance(v, ast.Dict) or (isinstance(v, ast.Call) and call_tail(v) == "_canon_record") or \
                any(isinstance(z, ast.Call) and dotted(z.func) == "sorted" for z in ast.walk(v))
            ctx.check(built and canonical, "C06.TABLE", ctx.okey(f"{w.qual}/record-built-in-canonical-order"), w.loc(x),
                      f"`{src(v)[:50]}` builds the record with a fixed / sorted field order",
                      f"`{src(x)[:60]}` puts the caller's own record into the body: its field order (and later edits of it) reach the snapshot bytes, so the body of a state loaded from a "
                      "canonical-JSON snapshot differs from the body that was written")
    ctx.floor("C06.TABLE", "record stores of the GEL normaliser", n_st, 3)


def rule_own_snapshot(ctx) -> None:
    """"loading the latest snapshot into a fresh state restores ... what was written" - by this agent: the snapshot directory is
    one setting shared by all agents and the body is named state_<agent>.json, so the loader must ask for the loading agent's
    own file (same name pattern as the writer) before it falls back to 'newest state_*.json', and the picker must honour that
    before ranking by mtime."""
    wr = ctx.func(SNAP + ":_snapshot_path")
    wfmt = [x for x in walk_no_defs(wr.node) if isinstance(x, ast.JoinedStr)]
    # the name is either spelled in the writer or made by a helper the writer calls
    helpers = set()
    if not wfmt:
        for c in [x for x in walk_no_defs(wr.node) if isinstance(x, ast.Call)]:
            r = ctx.prog.callee(wr, c)
            if r and r[1] in ctx.prog.funcs:
                hf = [x for x in walk_no_defs(ctx.prog.funcs[r[1]].node) if isinstance(x, ast.JoinedStr) and any(isinstance(v, ast.Constant) and str(v.value).endswith(".json") for v in x.values)]
                if hf:
                    wfmt = hf
                    helpers.add(ctx.prog.funcs[r[1]].name)
    if not wfmt:
        raise AnalysisError("anchor-vanished: the writer's snapshot file name pattern")
    wlit = "".join(v.value for v in wfmt[0].values if isinstance(v, ast.Constant))
    ld = ctx.func(SNAP + ":load_latest_snapshot")
    rd = ctx.rd(ld)
    cfg = ctx.cfg(ld)
    picks = [(n, c) for n in cfg.nodes for c in node_calls(n) if call_tail(c) == "_pick_latest_snapshot_path"]
    ctx.floor("C06.DISC", "snapshot pick in the boot loader", len(picks), 1)
    for n, c in picks:
        pref = kwarg(c, "prefer") or (c.args[1] if len(c.args) > 1 else None)
        ok = False
        if pref is not None:
            inl = rd.inline(pref, n)
            lits = "".join(v.value for x in ast.walk(inl) if isinstance(x, ast.JoinedStr) for v in x.values if isinstance(v, ast.Constant))
            same_helper = any(isinstance(y, ast.Call) and call_tail(y) in helpers for y in ast.walk(inl))
            ok = ("agent_id" in src(inl)) and (lits == wlit or "_snapshot_path" in src(inl) or same_helper)
        ctx.check(ok, "C06.DISC", f"{ld.qual}/asks-for-own-snapshot", ld.loc(c), f"the loader asks the picker for the loading agent's own body ({wlit.replace('.json', '<agent>.json')})",
                  "the loader picks the newest snapshot of the shared directory without naming the loading agent: a fresh state of one agent is restored from another agent's snapshot whenever "
                  "that one was written last")
    pk = ctx.func(SNAP + ":_pick_latest_snapshot_path")
    pcfg = ctx.cfg(pk)
    if len(pk.params) > 1:
        pname = pk.params[1]
        own = [n for n in pcfg.nodes if n.kind == "stmt" and isinstance(n.ast, ast.Return) and n.ast.value is not None and pname in {y.id for y in ast.walk(n.ast.value) if isinstance(y, ast.Name)}]
        ranked = [n for n in pcfg.nodes if any(call_tail(k) == "getmtime" for k in node_calls(n)) or (n.kind == "stmt" and isinstance(n.ast, ast.Expr) and "getmtime" in src(n.ast))]
        before = bool(own) and all(pcfg.path([r], lambda m, o=own: m in o, include_start=False) is None for r in ranked)
        ctx.check(bool(own) and before, "C06.DISC", f"{pk.qual}/own-file-before-mtime-rank", pk.loc(), "the picker returns the requested file before ranking state_*.json by mtime",
                  "the picker ranks state_*.json by mtime before (or without) honouring the requested file")
    else:
        ctx.violation("C06.DISC", f"{pk.qual}/own-file-before-mtime-rank", pk.loc(), "the picker cannot be told which agent's snapshot to prefer")


def run(ctx) -> None:
    rule_own_snapshot(ctx)
    rule_records_canonical(ctx)
    rule_load_keeps_record(ctx)
    rule_table(ctx)
    rule_sym(ctx)
    rule_edge_ids_injective(ctx)
    rule_clamp(ctx)
    rule_every_record_reaches_the_body(ctx)
    rule_disc(ctx)
    rule_agent_file_names(ctx)
    rule_mark(ctx)
