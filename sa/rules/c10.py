"""C10 Agent batch driver commits exactly like a sequential loop."""
from __future__ import annotations

import ast
import re
from typing import Dict, List, Optional, Set, Tuple

from ..effects import Effects
from ..model import AnalysisError, Func, const_str, dotted, kwarg, src, walk_no_defs
from ..paths import PathEval
from ..util import call_tail, enclosing, find_calls, gate_on, no_exc, node_calls

EXPLANATION = (
    "C10 decided statically: (RO) on the paths of run_turn that are feasible with ctx._dry_run_until_t4 set - the compute "
    "phase, which is handed a ReadOnlyState that raises on assignment - no statement, directly or through a resolved callee, "
    "stores into the state object itself; (DRY) T3, GEL observe/tick/maintenance, apply_changes and the reflection compute are "
    "unreachable in a dry run with T4 enabled; (COMMIT) commits iterate _sort_turn_buffers(buffers) = sorted by "
    "(turn_id, slice_idx), one apply_changes per buffer, the apply record staged under the buffer's (turn, slice) key; "
    "(BATCH) an agent is picked only if its graph set is disjoint from those already used, the used set is updated in the "
    "same step, the worker limit is tested first, and only picked agents are computed; (STAGE) every captured record is keyed "
    "by default_key_for and staged, back-pressure drains through drain_sorted and retries the same record exactly once, the "
    "final drain post-dominates the commit loop and staging is disabled on the normal exit; (SIB) the commit phase honours the "
    "T4 kill switch like run_turn. Not decided: equality of files/state with a sequential run for all batches and byte "
    "limits (execution equality)."
)
RULES = {
    "C10.RO": "effect analysis of run_turn + callees restricted to nodes feasible under the dry-run flag: direct stores into the state object",
    "C10.DRY": "guard facts (not _dry_run) of T3 / GEL / apply / reflection sites",
    "C10.COMMIT": "loop source, sort key, one apply per buffer, staged key provenance",
    "C10.BATCH": "guard facts + pairing in _select_independent_batch; compute restricted to picked agents",
    "C10.STAGE": "staging protocol: key+stage per record, back-pressure handler shape, final drain and disable on the normal exit",
    "C10.SIB": "kill-switch guard agreement of the commit phase with run_turn (shared with C04.KILL)",
}

CORE = "clematis.engine.orchestrator.core"
RUN_TURN = CORE + ":Orchestrator.run_turn"
PAR = "clematis.engine.orchestrator.parallel"
BATCH = PAR + ":_run_agents_parallel_batch"
STAGES = "clematis.engine.stages."

_STATE_STORE = re.compile(r"^(store `(state|obj)\[|setattr\((state|obj)\b|store `state\.|`state\.(setdefault|update|pop|clear)\()")


def _dry_infeasible(cfg, n) -> bool:
    return any((t == "_dry_run" and not p) or (t == "not _dry_run" and p) for t, p in cfg.facts(n))


def _orch_locals(fn, what: str) -> Set[str]:
    """locals bound to `_get_orch_callable("<what>", ...)` (the monkeypatch facade) plus the plain name"""
    out = {what, what.lstrip("_")}
    for x in walk_no_defs(fn.node):
        if isinstance(x, ast.Assign) and len(x.targets) == 1 and isinstance(x.targets[0], ast.Name) and isinstance(x.value, ast.Call) \
                and call_tail(x.value) in ("_get_orch_callable", "_get_stage_callable") and x.value.args and const_str(x.value.args[0]) in (what, "_" + what.lstrip("_")):
            out.add(x.targets[0].id)
    return out


def rule_ro(ctx) -> None:
    fn = ctx.func(RUN_TURN)
    cfg = ctx.cfg(fn)
    ef = Effects(ctx, depth=4, hints={"store": "clematis.graph.store:InMemoryGraphStore", "cm": "clematis.engine.cache:CacheManager"})
    effs = [e for e in ef.of(fn) if e.kind == "mutate" and e.origin == "param:state" and _STATE_STORE.search(e.desc)]
    ctx.floor("C10.RO", "direct stores into the state object reachable from run_turn", len(effs), 6)
    # group by the top-level site in run_turn
    groups: Dict[str, List] = {}
    for e in effs:
        if e.via:
            callee, _, where = e.via[0].partition("@")
            line = int(where.rsplit(":", 1)[1])
            site = callee.rsplit(":", 1)[1]
        else:
            line = int(e.where.rsplit(":", 1)[1])
            m = re.search(r"['\"](\w+)['\"]", e.desc)
            site = "<direct>" + (m.group(1) if m else e.desc[:20])
        nodes = [n for n in cfg.nodes if n.lineno == line and n.kind in ("stmt", "cond") and n in cfg.reachable_from_entry()]
        if not nodes:
            nodes = [n for n in cfg.nodes if n.ast is not None and getattr(n.ast, "lineno", -1) <= line <= getattr(n.ast, "end_lineno", -1) and n.kind == "stmt"]
        feasible = [n for n in nodes if not _dry_infeasible(cfg, n)]
        if feasible and e.via:
            # the callee may rule the dry run out itself (`if bool(getattr(ctx, "_dry_run_until_t4", False)): return None` on top):
            # the store is infeasible when, inside the callee, it lies behind that test
            cq = e.via[-1].partition("@")[0]
            cal = ctx.prog.funcs.get(cq)
            if cal is not None:
                ccfg = ctx.cfg(cal)
                wl = int(e.where.rsplit(":", 1)[1])
                cn = [m for m in ccfg.nodes if m.ast is not None and m.kind in ("stmt", "cond") and getattr(m.ast, "lineno", -1) <= wl <= getattr(m.ast, "end_lineno", -1)]
                if cn and all(any((not pol) and "_dry_run_until_t4" in t for t, pol in ccfg.facts(m)) for m in cn):
                    feasible = []
        groups.setdefault(site, []).append((e, bool(feasible), line))
    n_inf = 0
    for site, items in sorted(groups.items()):
        feas = [(e, line) for e, f, line in items if f]
        key = f"{fn.qual}/dry-run-state-write:{site}"
        if not feas:
            n_inf += 1
            ctx.holds("C10.RO", key, fn.loc(), f"state stores via {site} are unreachable in a dry run (guarded by not _dry_run / after the dry-run return)")
            continue
        e0, line0 = feas[0]
        ctx.violation("C10.RO", key, f"{fn.module.rel}:{line0}",
                      f"the compute phase (dry run on a ReadOnlyState) reaches a store into the state object via {site}: {e0.desc} - the read-only "
                      "snapshot raises on assignment (or, where swallowed, the parallel run silently diverges from the sequential one)",
                      [x.fmt()[:200] for x, _ in feas[:6]])
    ctx.notes.append(f"C10.RO: {len(groups)} state-store sites, {n_inf} infeasible under dry-run")


def rule_dry(ctx) -> None:
    fn = ctx.func(RUN_TURN)
    cfg = ctx.cfg(fn)
    t4flag = [n for n in cfg.nodes if n.kind == "cond" and src(n.ast) == "t4_enabled"]
    want = ["apply_changes", "gel_tick", "gel_observe", "gel_apply_merge", "gel_apply_split", "gel_apply_promotion", "deliberate", "rag_once", "speak", "llm_speak", "make_plan_bundle"]
    sites = []
    for n in cfg.nodes:
        for c in node_calls(n):
            t = call_tail(c)
            if t in want:
                sites.append((n, c, t))
    ctx.floor("C10.DRY", "commit-side / T3 / GEL call sites in run_turn", len(sites), 8)
    for n, c, t in sites:
        ok = _dry_infeasible(cfg, n)
        ctx.check(ok, "C10.DRY", f"{fn.qual}/{t}@{'t4' if any(p and tt == 't4_enabled' for tt, p in cfg.facts(n)) else 'pre'}", fn.loc(c),
                  f"{t} is unreachable while ctx._dry_run_until_t4 is set", f"{t} runs in the compute phase of the batch driver (dry run): the compute phase has side effects / does work the commit phase repeats")
    # the dry-run return sits right after the T4 record and before any apply-side work
    rets = [n for n in cfg.nodes if n.kind == "stmt" and isinstance(n.ast, ast.Return) and any(t == "_dry_run" and p for t, p in cfg.facts(n))]
    ctx.check(len(rets) >= 1 and all(any(p and tt == "t4_enabled" for tt, p in cfg.facts(r)) for r in rets), "C10.DRY", f"{fn.qual}/dry-run-return", fn.loc(rets[0].ast) if rets else fn.loc(),
              "the dry run returns inside the T4 block, after t4_filter", "no dry-run return inside the T4 block")
    for r in rets:
        stash = [m for m in cfg.nodes if any(dotted(c.func) == "setattr" and len(c.args) >= 2 and const_str(c.args[1]) == "_dryrun_t4" for c in node_calls(m))]
        ctx.check(any(cfg.dominates(m, r) for m in stash), "C10.DRY", f"{fn.qual}/dry-run-stashes-t4", fn.loc(r.ast), "the approved deltas are stashed on ctx before the dry-run return",
                  "the dry-run return is not preceded by stashing the T4 result")


def rule_commit(ctx) -> None:
    fn = ctx.func(BATCH)
    cfg = ctx.cfg(fn)
    rd = ctx.rd(fn)
    _ac = _orch_locals(fn, "apply_changes")
    applies = [(n, c) for n in cfg.nodes for c in node_calls(n) if isinstance(c.func, ast.Name) and c.func.id in _ac]
    ctx.floor("C10.COMMIT", "apply_changes call sites in the batch driver", len(applies), 1)
    for n, c in applies:
        loops = [st for st, part in enclosing(ctx.prog, fn, c) if isinstance(st, ast.For) and part == "body"]
        it = loops[0].iter if loops else None
        if isinstance(it, ast.Name):
            hn = [h for h in cfg.nodes if h.kind == "iter" and h.ast is loops[0]]
            uvi = rd.unique_value(it.id, hn[0]) if hn else None
            it = uvi[0] if uvi else it
        # the list being sorted is the one the compute phase appended its buffers to
        filled = {src(x.func.value) for x in walk_no_defs(fn.node) if isinstance(x, ast.Call) and call_tail(x) == "append" and x.args and isinstance(x.args[0], ast.Call)
                  and isinstance(x.args[0].func, ast.Name) and x.args[0].func.id in _orch_locals(fn, "_run_turn_compute")}
        ok = len(loops) == 1 and isinstance(it, ast.Call) and call_tail(it) == "_sort_turn_buffers" and src(it.args[0]) in filled
        ctx.check(ok, "C10.COMMIT", f"{fn.qual}/commit-order", fn.loc(c), "one apply_changes per buffer, iterating _sort_turn_buffers(buffers)",
                  "commits do not iterate _sort_turn_buffers(buffers) exactly once per buffer (commit order depends on compute completion / listing order)")
        lv = loops[0].target.id if loops and isinstance(loops[0].target, ast.Name) else "buf"
        # the deltas handed to apply are the buffer's own
        t4 = c.args[2] if len(c.args) > 2 else None
        okd = False
        if isinstance(t4, ast.Name):
            uv = rd.unique_value(t4.id, n)
            ad = kwarg(uv[0], "approved_deltas") if (uv is not None and isinstance(uv[0], ast.Call)) else None
            okd = ad is not None and src(ad).replace('"', "'") in (f"list({lv}['deltas'])", f"{lv}['deltas']")
        ctx.check(okd, "C10.COMMIT", f"{fn.qual}/commit-own-deltas", fn.loc(c), "the committed deltas are the buffer's own approved deltas", "the committed deltas are not taken from the buffer being committed")
    stg = [(n, c) for n in cfg.nodes for c in node_calls(n) if call_tail(c) == "stage" and c.args and const_str(c.args[0]) == "apply.jsonl"]
    ctx.floor("C10.COMMIT", "apply.jsonl staging sites", len(stg), 1)
    for i_s, (n, c) in enumerate(sorted(stg, key=lambda t: t[0].id), 1):
        k = c.args[1] if len(c.args) > 1 else None
        ok = False
        loops = [st for st, part in enclosing(ctx.prog, fn, c) if isinstance(st, ast.For) and part == "body"]
        lv = loops[0].target.id if loops and isinstance(loops[0].target, ast.Name) else None
        if isinstance(k, ast.Name) and lv:
            for d in rd.reaching(k.id, n):
                if d.value is not None and "default_key_for" in src(d.value):
                    kws = {kw.arg: kw.value for y in ast.walk(d.value) if isinstance(y, ast.Call) for kw in y.keywords}
                    if const_str(kws.get("file_path")) == "apply.jsonl" and src(kws.get("turn_id")).replace('"', "'") == f"{lv}['turn_id']" and "slice_idx" in kws and lv in src(kws["slice_idx"]):
                        ok = True
        ctx.check(ok, "C10.COMMIT", f"{fn.qual}/apply-record-key#{i_s}", fn.loc(c), "the apply record is staged under default_key_for('apply.jsonl', buf.turn_id, buf.slice_idx)",
                  "the apply record is not keyed by the buffer's (turn_id, slice_idx)")
    sb = ctx.func(PAR + ":_sort_turn_buffers")
    okk = any(isinstance(x, ast.Call) and dotted(x.func) == "sorted" and kwarg(x, "key") is not None for x in walk_no_defs(sb.node))
    kf = [f for f in ctx.prog.all_funcs(sb.qual + ".")]
    kb = " ".join(src(f.node) for f in kf)
    rets = [r for f in kf for r in walk_no_defs(f.node) if isinstance(r, ast.Return) and isinstance(r.value, ast.Tuple)]
    okr = bool(rets) and all("slice_idx" in src(r.value) and "tid" in src(r.value) for r in rets)
    ctx.check(okk and "turn_id" in kb and okr, "C10.COMMIT", f"{sb.qual}/sort-key", sb.loc(), "buffers are sorted by (turn_id, slice_idx) on every key path", "buffers are not sorted by (turn_id, slice_idx)")


def rule_driver_faithful(ctx) -> None:
    """four places where the batch driver must do what the sequential loop does for the same turns:
    (a) each buffer is committed under ITS agent's context (the snapshot file is state_<agent>.json: under the batch ctx,
        which names no agent, every agent writes state_agent.json and the second overwrites the first);
    (b) compute buffers are staged in commit order (a back-pressure flush writes what is staged so far: staged in task
        order, a buffer that sorts earlier can land after one that sorts later - the files depend on the limit);
    (c) the final drain and disable_staging run in a `finally` around the commit loop (a failing commit otherwise leaves
        the committed agents' records unwritten under one limit and written under another, and staging stays on);
    (d) what the compute phase takes from the stages' metrics is used as the type the REAL stage reports: T1 reports
        graphs_touched as a count, so iterating it needs a narrowing first."""
    fn = ctx.func(BATCH)
    cfg = ctx.cfg(fn)
    rd = ctx.rd(fn)
    _ac = _orch_locals(fn, "apply_changes")
    applies = [(n, c) for n in cfg.nodes for c in node_calls(n) if isinstance(c.func, ast.Name) and c.func.id in _ac]
    ctx.floor("C10.COMMIT", "apply_changes call sites checked for their context", len(applies), 1)
    batch_ctx = fn.params[0]
    for n, c in applies:
        a0 = c.args[0] if c.args else None
        ok = False
        if isinstance(a0, ast.Name) and a0.id != batch_ctx:
            ds = [d for d in rd.reaching(a0.id, n) if d.value is not None]
            ok = bool(ds) and all(isinstance(d.value, ast.Call) and call_tail(d.value) == "_clone_ctx_for_agent" and any("agent_id" in src(x) for x in d.value.args[1:2]) for d in ds)
        elif isinstance(a0, ast.Call) and call_tail(a0) == "_clone_ctx_for_agent":
            ok = any("agent_id" in src(x) for x in a0.args[1:2])
        ctx.check(ok, "C10.COMMIT", ctx.okey(f"{fn.qual}/commit-under-the-agents-context"), fn.loc(c), "the commit runs under a context cloned for the buffer's agent",
                  f"`{src(c)[:60]}` commits under `{src(a0) if a0 is not None else '?'}` - the batch context, which names no agent: apply_changes writes every agent's snapshot as state_agent.json (the "
                  "second overwrites the first) where the sequential loop writes state_<agent>.json")
    # (a') only a turn that reached T4 is committed: a turn that yields at a scheduler boundary returns before T4 (no T4 artifact on
    #      its context); the turn-by-turn loop applies nothing for it - no version bump, no apply.jsonl line, no snapshot
    rc0 = ctx.func(PAR + ":_run_turn_compute")
    marks = set()
    for x in walk_no_defs(rc0.node):
        if isinstance(x, ast.Dict):
            for k, v in zip(x.keys, x.values):
                if const_str(k) and any(const_str(y) == "_dryrun_t4" for y in ast.walk(v)):
                    marks.add(const_str(k))
    for n, c in applies:
        guarded = any(p and any(f'"{m}"' in t or f"'{m}'" in t for m in marks) for t, p in cfg.facts(n))
        ctx.check(bool(marks) and guarded, "C10.COMMIT", ctx.okey(f"{fn.qual}/commits-only-turns-that-reached-t4"), fn.loc(c), f"the commit is guarded by the buffer's {sorted(marks)} (set from the T4 artifact)",
                  f"`{src(c)[:50]}` commits every buffer: a turn that yielded during the compute phase (scheduler budget reached after T1 / T2) left no T4 artifact and is applied all the same - one more "
                  "version bump, an apply.jsonl line and a snapshot for an agent the turn-by-turn loop applies nothing for")
    # (b) staging loops
    stage_loops = []
    for lp in [x for x in walk_no_defs(fn.node) if isinstance(x, ast.For)]:
        inner = [y for st in lp.body for y in ast.walk(st) if isinstance(y, ast.For) and isinstance(y.iter, ast.Subscript) and isinstance(lp.target, ast.Name) and src(y.iter.value) == lp.target.id]
        if any(isinstance(y, ast.Call) and call_tail(y) == "stage" for st in lp.body for y in ast.walk(st)) and inner and not any(isinstance(y, ast.Call) and isinstance(y.func, ast.Name) and y.func.id in _ac for st in lp.body for y in ast.walk(st)):
            stage_loops.append(lp)
    ctx.floor("C10.STAGE", "loops that stage the compute buffers", len(stage_loops), 1)
    for lp in stage_loops:
        it = lp.iter
        srt = isinstance(it, ast.Call) and call_tail(it) in ("_sort_turn_buffers", "sorted")
        if isinstance(it, ast.Name):
            hn = [h for h in cfg.nodes if h.kind == "iter" and h.ast is lp]
            ds = [d for d in rd.reaching(it.id, hn[0]) if d.value is not None and d.kind == "assign"] if hn else []
            srt = bool(ds) and all(isinstance(d.value, ast.Call) and call_tail(d.value) in ("_sort_turn_buffers", "sorted") for d in ds)
        ctx.check(srt, "C10.STAGE", ctx.okey(f"{fn.qual}/buffers-staged-in-commit-order"), fn.loc(lp), "the buffers are staged in (turn, slice) order",
                  f"the buffers are staged in task order (`for ... in {src(it)[:30]}`): when the limit forces a flush mid-way, a buffer that sorts earlier but is staged later is written after the "
                  "ones it should precede - per-file order depends on the staging limit")
    # (c) finally
    dis = [x for x in walk_no_defs(fn.node) if isinstance(x, ast.Call) and any(const_str(a) == "disable_staging" for a in ast.walk(x))]
    in_finally = False
    for x in dis:
        for st, part in enclosing(ctx.prog, fn, x):
            if isinstance(st, ast.Try) and part == "finalbody" and any(any(isinstance(y, ast.Call) and isinstance(y.func, ast.Name) and y.func.id in _ac for y in ast.walk(b)) for b in st.body):
                in_finally = True
    ctx.check(bool(dis) and in_finally, "C10.STAGE", f"{fn.qual}/drain-and-disable-in-finally", fn.loc(dis[0]) if dis else fn.loc(),
              "the final drain / disable_staging run in a finally around the commit loop",
              "the final drain and disable_staging are plain statements after the commit loop: when a commit raises, nothing staged is written under a large limit (the committed agents' records "
              "are lost) while a small limit has already flushed some - and staging stays enabled for whatever runs next")
    # (d) metrics of the real stages
    rc = ctx.func(PAR + ":_run_turn_compute")
    t1m = ctx.prog.module("clematis.engine.stages.t1")
    counts = set()
    for x in ast.walk(t1m.tree):
        if isinstance(x, ast.Dict):
            for k, v in zip(x.keys, x.values):
                if k is not None and const_str(k) and isinstance(v, ast.Call) and dotted(v.func) in ("len", "int"):
                    counts.add(const_str(k))
    n_it = 0
    for x in walk_no_defs(rc.node):
        if isinstance(x, ast.Call) and dotted(x.func) in ("set", "list", "tuple", "sorted", "frozenset") and x.args:
            keys = {const_str(y.args[0]) for y in ast.walk(x.args[0]) if isinstance(y, ast.Call) and call_tail(y) == "get" and y.args and const_str(y.args[0])}
            names = {y.id for y in ast.walk(x.args[0]) if isinstance(y, ast.Name)}
            for y in walk_no_defs(rc.node):
                if isinstance(y, ast.NamedExpr) and isinstance(y.target, ast.Name) and y.target.id in names:
                    keys |= {const_str(z.args[0]) for z in ast.walk(y.value) if isinstance(z, ast.Call) and call_tail(z) == "get" and z.args and const_str(z.args[0])}
            for k in sorted(keys & counts):
                n_it += 1
                par = ctx.prog.parents(rc.node).get(id(x))
                narrowed = isinstance(par, ast.IfExp) and par.body is x and any(isinstance(z, ast.Call) and dotted(z.func) == "isinstance" for z in ast.walk(par.test))
                ctx.check(narrowed, "C10.COMMIT", f"{rc.qual}/metric-used-as-reported:{k}", rc.loc(x), f"`{k}` is iterated only where it is known to be a collection",
                          f"`{src(x)[:60]}` iterates the stage metric `{k}`, which the real T1 reports as a count: with any active graph the compute phase raises TypeError while the sequential loop "
                          "over the same turns completes")
    ctx.floor("C10.COMMIT", "stage metrics iterated by the compute phase that the real stage reports as counts", n_it, 1)
    # (e) the turn id of the compute phase: what the caller's context says, else the fallback of the turn-by-turn loop - never a
    #     clock reading (it goes into every log line, the staging key, the commit order and the snapshot cadence)
    rcfg, rrd = ctx.cfg(rc), ctx.rd(rc)
    n_tid = 0
    for n in rcfg.nodes:
        for c in node_calls(n):
            if call_tail(c) != "_clone_ctx_for_agent" or len(c.args) < 3:
                continue
            n_tid += 1
            sl = rrd.slice([c.args[2]], n, control=True)
            clock = next((y for y in sl.nodes() if isinstance(y, ast.Call) and (dotted(y.func) or "").split(".")[0] in ("time", "datetime", "dt", "_time") and call_tail(y) in
                          ("time", "time_ns", "monotonic", "perf_counter", "now", "utcnow", "today")), None)
            ctx.check(clock is None, "C10.COMMIT", f"{rc.qual}/turn-id-is-not-a-clock-reading", rc.loc(clock) if clock is not None else rc.loc(c), "the compute phase's turn id does not come from a clock",
                      (f"`{src(clock)[:40]}` feeds the turn id of the compute phase: a batch context without turn_id is stamped with the wall clock, per agent - log lines, staging keys, the commit order "
                       "(_sort_turn_buffers) and the snapshot cadence then differ from the turn-by-turn loop (which uses 0) and between replays") if clock is not None else "")
    ctx.floor("C10.COMMIT", "per-agent contexts built by the compute phase", n_tid, 1)


def rule_batch(ctx) -> None:
    fn = ctx.func(PAR + ":_select_independent_batch")
    cfg = ctx.cfg(fn)
    _ret = {r.value.id for r in walk_no_defs(fn.node) if isinstance(r, ast.Return) and isinstance(r.value, ast.Name)}
    apps = [(n, c) for n in cfg.nodes for c in node_calls(n) if call_tail(c) == "append" and src(c.func.value) in _ret]
    ctx.floor("C10.BATCH", "picked.append sites", len(apps), 1)
    for n, c in apps:
        facts = cfg.facts(n)
        sets = {(x.targets[0] if isinstance(x, ast.Assign) else x.target).id for x in walk_no_defs(fn.node) if isinstance(x, (ast.Assign, ast.AnnAssign)) and x.value is not None
                and isinstance(x.value, ast.Call) and dotted(x.value.func) == "set" and isinstance((x.targets[0] if isinstance(x, ast.Assign) else x.target), ast.Name)}
        ok = any(p and any(t.startswith(f"{u}.isdisjoint(") for u in sets) for t, p in facts)
        ctx.check(ok, "C10.BATCH", f"{fn.qual}/disjointness-guard", fn.loc(c), "an agent is picked only where used.isdisjoint(its graph set)",
                  "an agent can be picked although its graphs overlap an already selected agent")
        upd = [m for m in cfg.nodes if any(call_tail(x) == "update" and src(x.func.value) in sets for x in node_calls(m))]
        heads = [h for h in cfg.nodes if h.kind == "iter"]
        p = cfg.path([n], lambda x: x in heads or x is cfg.exit, avoid=lambda x: x in upd, edge_ok=no_exc, include_start=False)
        ctx.check(bool(upd) and p is None, "C10.BATCH", f"{fn.qual}/used-updated", fn.loc(c), "each pick is followed by used.update(its graph set)", "a picked agent's graphs are not added to the used set",
                  ctx.path_witness(fn, p))
        # an agent overlaps itself: disjointness of the graph sets does not say so for an agent with the EMPTY set (it declares no
        # graphs), which would be picked once per task and have both tasks computed on one snapshot.  The pick is made only where
        # the agent is known not to be picked yet (`a not in picked` / after `if a in picked: continue`), or picks go into a set.
        gs = c.args[0] if c.args else None
        a_txt = src(gs) if gs is not None else ""
        once = any(((not p) and any(t.replace(" ", "") == f"{a_txt}in{r}" for r in _ret)) or (p and any(t.replace(" ", "") == f"{a_txt}notin{r}" for r in _ret)) for t, p in facts) \
            or any((p and t.replace(" ", "").startswith(f"{a_txt}notin")) or ((not p) and t.replace(" ", "").startswith(f"{a_txt}in") and not t.replace(" ", "").startswith(f"{a_txt}in(")) for t, p in facts)
        ctx.check(once, "C10.BATCH", f"{fn.qual}/an-agent-is-picked-once", fn.loc(c), "an agent is picked only where it is not picked yet",
                  f"`{src(c)}` can pick an agent that is in the batch already: disjointness of the graph sets does not exclude it when its own set is empty (an agent that declares no graphs) - both of its "
                  "tasks are then computed on the same pre-batch snapshot and the second does not see the first")
        lim = any((not p) and any(t.replace(" ", "").startswith(f"len({r})>=") for r in _ret) for t, p in facts)
        ctx.check(lim, "C10.BATCH", f"{fn.qual}/limit-tested-first", fn.loc(c), "the worker limit is tested before each pick", "the worker limit does not bound the batch")
    drv = ctx.func(BATCH)
    dcfg = ctx.cfg(drv)
    _rc = _orch_locals(drv, "_run_turn_compute")
    comp = [(n, c) for n in dcfg.nodes for c in node_calls(n) if isinstance(c.func, ast.Name) and c.func.id in _rc]
    picked_vars = {x.targets[0].id for x in walk_no_defs(drv.node) if isinstance(x, ast.Assign) and len(x.targets) == 1 and isinstance(x.targets[0], ast.Name)
                   and isinstance(x.value, ast.Call) and call_tail(x.value) == "_select_independent_batch"}
    # ... or a working copy of the pick (pending = list(picked)) that the loop consumes
    for _ in range(2):
        for x in walk_no_defs(drv.node):
            if isinstance(x, ast.Assign) and len(x.targets) == 1 and isinstance(x.targets[0], ast.Name) and isinstance(x.value, ast.Call) and dotted(x.value.func) in ("list", "set", "sorted") \
                    and x.value.args and isinstance(x.value.args[0], ast.Name) and x.value.args[0].id in picked_vars:
                picked_vars.add(x.targets[0].id)
    ctx.floor("C10.BATCH", "compute call sites", len(comp), 1)
    for n, c in comp:
        # each picked agent is computed once: a batch that names an agent twice would otherwise compute both of its tasks on one
        # snapshot - the second overlaps the first one's graphs.  The membership test must be on a collection the loop consumes.
        consumed = [m for m in dcfg.nodes if any(call_tail(k) in ("remove", "discard", "pop") and isinstance(k.func, ast.Attribute) and src(k.func.value) in picked_vars for k in node_calls(m))] + \
                   [m for m in dcfg.nodes if any(call_tail(k) == "add" and isinstance(k.func, ast.Attribute) for k in node_calls(m))]
        heads_d = [h for h in dcfg.nodes if h.kind == "iter"]
        p_once = dcfg.path([n], lambda z: z in heads_d, avoid=lambda z: z in consumed, edge_ok=no_exc, include_start=False) if n not in consumed else None
        # the consuming statement may also precede the call in the same iteration
        dom_cons = any(dcfg.dominates(m, n) and any(dcfg.dominates(h, m) for h in heads_d) for m in consumed)
        # ... or the loop runs over the pick itself: one iteration - one compute - per picked agent
        over_pick = None
        for st, part in enclosing(ctx.prog, drv, c):
            if isinstance(st, ast.For) and part == "body" and isinstance(st.iter, ast.Name) and st.iter.id in picked_vars and isinstance(st.target, ast.Name) \
                    and len(c.args) >= 3 and isinstance(c.args[2], ast.Name) and c.args[2].id == st.target.id:
                over_pick = st
        ctx.check(over_pick is not None or dom_cons or (bool(consumed) and p_once is None), "C10.BATCH", f"{drv.qual}/each-picked-agent-once", drv.loc(c),
                  "the loop consumes the pick (remove / seen-set) in the iteration that computes the agent: one task per picked agent",
                  "the compute loop tests membership in the pick but never consumes it: an agent named twice in the batch has both tasks computed on the same snapshot and committed together, "
                  "although the second overlaps the graphs of the first")
        facts = dcfg.facts(n)
        ok = any((not p) and any(t.endswith(f" not in {pv}") for pv in picked_vars) for t, p in facts) or any(p and any(t.endswith(f" in {pv}") and " not in " not in t for pv in picked_vars) for t, p in facts)
        ctx.check(ok or over_pick is not None, "C10.BATCH", f"{drv.qual}/compute-only-picked", drv.loc(c), "only picked agents are computed", "an agent outside the independent batch is computed")
        # which of an agent's tasks: the one the sequential loop would run first.  Taken straight from the task loop (first match,
        # the pick being consumed) or from the head of a per-agent queue - never from its tail.
        if len(c.args) >= 4:
            ta = c.args[3]
            how = None
            if isinstance(ta, ast.Call) and isinstance(ta.func, ast.Attribute) and ta.func.attr == "pop":
                how = "first" if ta.args and isinstance(ta.args[0], ast.Constant) and ta.args[0].value == 0 else ("last" if not ta.args or (isinstance(ta.args[0], ast.UnaryOp)) else None)
            elif isinstance(ta, ast.Subscript) and not isinstance(ta.slice, ast.Slice):
                how = "first" if isinstance(ta.slice, ast.Constant) and ta.slice.value == 0 else ("last" if isinstance(ta.slice, ast.UnaryOp) else None)
            elif isinstance(ta, ast.Name):
                rdd0 = ctx.rd(drv)
                ds = rdd0.reaching(ta.id, n)
                if ds and all(d.kind in ("for", "unpack") or (d.target is not None and isinstance(d.target, ast.Tuple)) for d in ds):
                    how = "first"   # bound by the loop over the task list; once-per-agent (above) makes it the first match
                elif ds and all(d.value is not None and isinstance(d.value, ast.Call) and isinstance(d.value.func, ast.Attribute) and d.value.func.attr == "pop" for d in ds):
                    how = "first" if all(d.value.args and isinstance(d.value.args[0], ast.Constant) and d.value.args[0].value == 0 for d in ds) else "last"
            if how is None:
                ctx.undecided("C10.BATCH", f"{drv.qual}/first-task-of-agent", drv.loc(c), f"cannot tell which queued task `{src(ta)[:40]}` is")
            else:
                ctx.check(how == "first", "C10.BATCH", f"{drv.qual}/first-task-of-agent", drv.loc(c), "a picked agent's first queued task is the one computed (as the sequential loop would)",
                          f"`{src(ta)[:40]}` takes the LAST task queued for the agent: when an agent is named twice in the batch the parallel path computes a different turn than the sequential loop runs first")
        okb = len(c.args) >= 2 and isinstance(c.args[1], ast.Name)
        rdd = ctx.rd(drv)
        bd = [d for d in rdd.all_defs if okb and d.name == c.args[1].id and d.value is not None]
        okb = okb and bool(bd) and all(call_tail(d.value) == "_make_readonly_snapshot" for d in bd if isinstance(d.value, ast.Call))
        ctx.check(okb, "C10.BATCH", f"{drv.qual}/compute-on-snapshot", drv.loc(c), "every compute phase runs on the same read-only snapshot taken before the batch",
                  "the compute phase does not run on the read-only snapshot")


def _flushers(ctx) -> Dict[str, Func]:
    """module helpers of the driver that flush a stager: they loop over <stager>.drain_sorted() and write each record with
    _append_unbuffered(<rec>.file_path, <rec>.payload), without leaving the loop early"""
    out = {}
    for f in ctx.prog.module(PAR).funcs.values():
        for lp in [x for x in walk_no_defs(f.node) if isinstance(x, ast.For) and isinstance(x.iter, ast.Call) and call_tail(x.iter) == "drain_sorted" and isinstance(x.target, ast.Name)]:
            v = lp.target.id
            w = [y for st in lp.body for y in ast.walk(st) if isinstance(y, ast.Call) and call_tail(y) == "_append_unbuffered"]
            early = any(isinstance(y, (ast.Break, ast.Return)) for st in lp.body for y in ast.walk(st))
            if w and all(src(a).startswith(v + ".") for a in w[0].args) and not early and f.qual != BATCH:
                out[f.name] = f
    return out


def rule_stage(ctx) -> None:
    fn = ctx.func(BATCH)
    cfg = ctx.cfg(fn)
    rd = ctx.rd(fn)
    flushers = _flushers(ctx)
    stages = [(n, c) for n in sorted(cfg.nodes, key=lambda x: x.id) for c in node_calls(n) if call_tail(c) == "stage" and isinstance(c.func.value, ast.Name) and len(c.args) == 3]
    ctx.floor("C10.STAGE", "stager.stage call sites", len(stages), 4)
    primary = [(n, c) for n, c in stages if not any(part == "handler" for st, part in enclosing(ctx.prog, fn, c))]
    retries = [(n, c) for n, c in stages if any(part == "handler" for st, part in enclosing(ctx.prog, fn, c))]
    for i_p, (n, c) in enumerate(primary, 1):
        t = None
        for st, part in enclosing(ctx.prog, fn, c):
            if isinstance(st, ast.Try) and part == "body":
                t = st
                break
        key = f"{fn.qual}/backpressure#{i_p}:{const_str(c.args[0]) or 'captured'}"
        if t is None:
            ctx.violation("C10.STAGE", key, fn.loc(c), "stager.stage is not wrapped by the back-pressure handler")
            continue
        h = [x for x in t.handlers if x.type is not None and "RuntimeError" in src(x.type)]
        ok = bool(h)
        why = "no RuntimeError handler"
        if ok:
            hb = h[0]
            viah = [x for x in ast.walk(hb) if isinstance(x, ast.Call) and isinstance(x.func, ast.Name) and x.func.id in flushers]
            drains = [x for x in ast.walk(hb) if isinstance(x, ast.Call) and call_tail(x) == "drain_sorted"] or viah
            writes = [x for x in ast.walk(hb) if isinstance(x, ast.Call) and call_tail(x) == "_append_unbuffered"] or viah
            rts = [x for x in ast.walk(hb) if isinstance(x, ast.Call) and call_tail(x) == "stage"]
            same = len(rts) == 1 and [src(a) for a in rts[0].args] == [src(a) for a in c.args]
            in_loop = any(isinstance(st, (ast.For, ast.While)) and any(y is rts[0] for y in ast.walk(st)) for st in ast.walk(hb) if rts) if rts else False
            bp = any(isinstance(x, ast.Compare) and "LOG_STAGING_BACKPRESSURE" in src(x) for x in ast.walk(hb))
            reraise = any(isinstance(x, ast.Raise) for x in ast.walk(hb))
            ok = bool(drains) and bool(writes) and same and not in_loop and bp and reraise
            why = f"drain={bool(drains)} write={bool(writes)} retry-same-args={same} retry-in-loop={in_loop} tests-backpressure={bp} re-raises-other={reraise}"
        ctx.check(ok, "C10.STAGE", key, fn.loc(c), "on LOG_STAGING_BACKPRESSURE: drain_sorted -> write each -> retry the same record exactly once; other errors re-raised",
                  f"back-pressure handling deviates from the protocol ({why}): a record can be lost, duplicated or reordered depending on the staging limit")
    # per-record key provenance in the capture loop
    for i_p, (n, c) in enumerate(primary, 1):
        if c.args and const_str(c.args[0]) == "apply.jsonl":
            continue
        k = c.args[1] if len(c.args) > 1 else None
        ok = False
        if isinstance(k, ast.Name):
            for d in rd.reaching(k.id, n):
                if d.value is not None and "default_key_for" in src(d.value):
                    kws = {kw.arg: kw.value for y in ast.walk(d.value) if isinstance(y, ast.Call) for kw in y.keywords}
                    if "file_path" in kws and src(kws["file_path"]) == src(c.args[0]) and "turn_id" in kws and "slice_idx" in kws:
                        ok = True
        ctx.check(ok, "C10.STAGE", f"{fn.qual}/captured-record-key#{i_p}", fn.loc(c), "each captured record is keyed by default_key_for(its file, buf.turn_id, buf.slice_idx)",
                  "a captured record is staged without the (turn, stage, slice) key")
    # final drain post-dominates the commit loop on the normal exit; staging disabled afterwards
    commit_loops = [n for n in cfg.nodes if n.kind == "iter" and isinstance(n.ast.iter, ast.Call) and call_tail(n.ast.iter) == "_sort_turn_buffers"]
    finals = [n for n in cfg.nodes if n.kind == "iter" and isinstance(n.ast.iter, ast.Call) and call_tail(n.ast.iter) == "drain_sorted"
              and not any(part == "handler" for st, part in enclosing(ctx.prog, fn, n.ast))]
    finals_h = [n for n in cfg.nodes if n.kind == "stmt" and any(isinstance(c.func, ast.Name) and c.func.id in flushers for c in node_calls(n))
                and not any(part == "handler" for st, part in enclosing(ctx.prog, fn, n.ast))]
    finals_all = finals + finals_h
    dis = [n for n in cfg.nodes if any(isinstance(c.func, ast.Call) and c.func.args and const_str(c.func.args[0]) == "disable_staging" for c in node_calls(n))]
    for cl in commit_loops:
        fb = [t for t, l in cl.succ if l == "F"]
        p = cfg.path(fb, lambda x: x is cfg.exit, avoid=lambda x: x in finals_all, edge_ok=no_exc)
        ctx.check(bool(finals_all) and p is None, "C10.STAGE", f"{fn.qual}/final-drain", fn.loc(cl.ast), "after the commit loop every normal path drains the stager (drain_sorted -> _append_unbuffered)",
                  "the staged records are not flushed after the commit loop on some normal path: captured log lines are lost", ctx.path_witness(fn, p))
        p2 = cfg.path(fb, lambda x: x is cfg.exit, avoid=lambda x: x in dis, edge_ok=no_exc)
        ctx.check(bool(dis) and p2 is None, "C10.STAGE", f"{fn.qual}/staging-disabled-on-exit", fn.loc(cl.ast), "staging is disabled on the normal exit",
                  "staging stays enabled after the batch on some normal path")
    for f in finals:
        w = [x for x in ast.walk(f.ast) if isinstance(x, ast.Call) and call_tail(x) == "_append_unbuffered"]
        lv = f.ast.target.id if isinstance(f.ast.target, ast.Name) else "?"
        ok = bool(w) and all(src(a).startswith(lv + ".") for a in w[0].args)
        ctx.check(ok, "C10.STAGE", f"{fn.qual}/final-drain-writes", fn.loc(f.ast), "each drained record is written with its own (file_path, payload)", "the final drain does not write each record")
    for name, hf in sorted(flushers.items()):
        ctx.holds("C10.STAGE", f"{hf.qual}/final-drain-writes", hf.loc(), "the flush helper writes each drained record with its own (file_path, payload) and never leaves its loop early")
    # drain_sorted() hands the records over ONCE: whatever is not written in this pass is gone.  A stream whose append raises (an
    # unwritable path) must not take the records that sort after it - of other, writable streams - with it: every record is tried
    # (the write sits in a try whose handler stays in the loop), the failure is raised after the pass.
    drain_loops = [(hf, lp) for hf in flushers.values() for lp in walk_no_defs(hf.node) if isinstance(lp, ast.For) and isinstance(lp.iter, ast.Call) and call_tail(lp.iter) == "drain_sorted"] + \
                  [(fn, n.ast) for n in finals] + [(fn, lp) for lp in walk_no_defs(fn.node) if isinstance(lp, ast.For) and isinstance(lp.iter, ast.Call) and call_tail(lp.iter) == "drain_sorted"
                                                   and not any(lp is n.ast for n in finals)]
    ctx.floor("C10.STAGE", "loops that write out drained records", len(drain_loops), 1)
    for hf, lp in drain_loops:
        ws = [y for st in lp.body for y in ast.walk(st) if isinstance(y, ast.Call) and call_tail(y) == "_append_unbuffered"]
        tried = bool(ws) and all(any(isinstance(st, ast.Try) and part == "body" and any(isinstance(z, ast.Call) and z is w for z in ast.walk(st))
                                     and all(not any(isinstance(z, (ast.Raise, ast.Break, ast.Return)) for b in h.body for z in ast.walk(b)) for h in st.handlers)
                                     and any(h.type is None or "Exception" in src(h.type) or "OSError" in src(h.type) for h in st.handlers)
                                     for st, part in enclosing(ctx.prog, hf, w) if any(st is y for y in ast.walk(lp))) for w in ws)
        ctx.check(tried, "C10.STAGE", ctx.okey(f"{hf.qual}/every-drained-record-is-tried"), hf.loc(lp), "a record whose append fails does not end the pass over the drained records",
                  "the pass over drain_sorted() stops at the first append that raises: the stager is already empty, so every record that sorts after it - also of streams that can be written - is lost; "
                  "which records those are depends on the staging limit (what had been flushed before)")
    en = [n for n in cfg.nodes if any(isinstance(c.func, ast.Call) and c.func.args and const_str(c.func.args[0]) == "enable_staging" for c in node_calls(n))]
    exc_p = cfg.path(en, lambda x: x is cfg.raise_, avoid=lambda x: x in dis, include_start=False) if en else None
    if exc_p is not None:
        ctx.info("C10.STAGE", f"{fn.qual}/disable-skipped-on-exception", fn.loc(), "disable_staging is skipped when the batch raises (no engine code reads the flag; information only)")


def rule_stage_seq(ctx) -> None:
    """The back-pressure protocol re-stages the current record under its already assigned key: that is order-preserving
    only if the arrival counter keeps growing across drains (cross-module obligation against LogStager)."""
    cq = "clematis.engine.util.io_logging:LogStager"
    meths = ctx.prog.methods(cq)
    writers = {}
    for mname, f in meths.items():
        for x in walk_no_defs(f.node):
            if isinstance(x, (ast.Assign, ast.AugAssign, ast.AnnAssign)):
                tg = x.targets if isinstance(x, ast.Assign) else [x.target]
                for t in tg:
                    if isinstance(t, ast.Attribute) and isinstance(t.value, ast.Name) and t.value.id == "self" and t.attr == "_seq":
                        writers.setdefault(mname, []).append(x)
    # helpers called from drain_sorted count as drain_sorted
    dr = meths.get("drain_sorted")
    if dr is None or "next_seq" not in meths:
        raise AnalysisError("anchor-vanished: LogStager.drain_sorted / next_seq")
    reach = {"drain_sorted"}
    for x in walk_no_defs(dr.node):
        if isinstance(x, ast.Call) and isinstance(x.func, ast.Attribute) and isinstance(x.func.value, ast.Name) and x.func.value.id == "self" and x.func.attr in meths:
            reach.add(x.func.attr)
    bad = sorted(m for m in writers if m in reach)
    ctx.check(not bad, "C10.STAGE", f"{cq}/seq-survives-drain", dr.loc(), "draining does not reset the arrival counter: a record re-staged after back-pressure keeps sorting before later arrivals",
              f"{bad} (run by drain_sorted) writes self._seq: after a back-pressure drain new records restart at 1 and sort before the retried record, "
              "so the on-disk order of one stream depends on the staging byte limit")
    others = sorted(m for m in writers if m not in ("__init__", "next_seq") and m not in reach)
    ctx.check(not others, "C10.STAGE", f"{cq}/seq-single-writer", "clematis/engine/util/io_logging.py", "_seq is written only by __init__ and next_seq", f"_seq is also written by {others}")
    inc = [x for x in writers.get("next_seq", []) if isinstance(x, ast.AugAssign) and isinstance(x.op, ast.Add)]
    ctx.check(len(inc) == 1, "C10.STAGE", f"{cq}/seq-increments", meths["next_seq"].loc(), "next_seq is a +1 counter", "next_seq is not a +1 counter")


def rule_sib(ctx) -> None:
    fn = ctx.func(BATCH)
    cfg = ctx.cfg(fn)
    pe = PathEval(ctx)
    _ac = _orch_locals(fn, "apply_changes")
    sites = [(n, c) for n in sorted(cfg.nodes, key=lambda x: x.id) for c in node_calls(n) if (isinstance(c.func, ast.Name) and c.func.id in _ac) or (call_tail(c) == "stage" and c.args and const_str(c.args[0]) == "apply.jsonl")]
    _ord: Dict[str, int] = {}
    for n, c in sites:
        ok = gate_on(ctx, fn, n, pe, "cfg:t4.enabled")
        _kind = "apply_changes" if (isinstance(c.func, ast.Name) and c.func.id in _ac) else "stage"
        _ord[_kind] = _ord.get(_kind, 0) + 1
        ctx.check(ok, "C10.SIB", f"{fn.qual}/kill-switch:{_kind}#{_ord[_kind]}", fn.loc(c), "the commit step is dominated by cfg:t4.enabled like in run_turn",
                  "the commit phase applies / logs with the T4 kill switch off")
    # the sequential fallback runs the plain turn (not a dry run)
    seq = [(n, c) for n in cfg.nodes for c in node_calls(n) if call_tail(c) == "run_turn"]
    for n, c in seq:
        facts = cfg.facts(n)
        okg = any((p and t.startswith("not _agents_parallel_enabled(")) or ((not p) and t.startswith("_agents_parallel_enabled(")) for t, p in facts)
        sets = [m for m in cfg.nodes if any(dotted(x.func) == "setattr" and len(x.args) == 3 and const_str(x.args[1]) == "_dry_run_until_t4" and isinstance(x.args[2], ast.Constant) and x.args[2].value is False
                                            for x in node_calls(m)) and cfg.dominates(m, n)]
        ctx.check(okg and bool(sets), "C10.SIB", f"{fn.qual}/gate-off-is-sequential", fn.loc(c), "with the agents gate off each task runs a plain (non-dry) run_turn in listing order",
                  "the gate-off fallback does not run plain sequential turns")


DEEP_COPY_CALLS = {"copy.deepcopy", "deepcopy", "_copy.deepcopy", "json.loads"}


def _is_snapshot(rd, e: ast.AST, at, depth: int = 0) -> bool:
    """e is a DEEP copy taken now (deepcopy / json round trip / a literal of constants), not the caller's own object and not
    a shallow dict(x) / {**x}, whose nested lists and dicts stay aliased ("all per-turn log payload shapes")"""
    if isinstance(e, ast.Constant):
        return True
    if isinstance(e, ast.Dict):
        return all(k is not None and isinstance(v, ast.Constant) for k, v in zip(e.keys, e.values))
    if isinstance(e, ast.Call):
        d = dotted(e.func) or ""
        return d in DEEP_COPY_CALLS or d.split(".")[-1] == "deepcopy"
    if isinstance(e, ast.Name) and depth < 3:
        ds = [d for d in rd.reaching(e.id, at) if d.kind != "mutate"]
        return bool(ds) and all(d.kind == "assign" and d.value is not None and _is_snapshot(rd, d.value, d.node, depth + 1) for d in ds)
    return False


def rule_capture_snapshot(ctx) -> None:
    """the sequential loop serialises a record the moment it is logged; the batch driver captures it in the per-turn buffer and
    serialises at commit.  The two agree only if the capture holds the record as it was at the call: the buffered object is a
    copy taken at capture time (at the call of the buffer's write, or inside it), never the caller's own dict - which the
    compute phase is free to keep updating."""
    LM = "clematis.engine.util.logmux"
    lm = ctx.prog.module(LM)
    # role: the buffer class = the class of logmux whose method appends (stream, obj) to a list held on self
    writers = []
    for f in lm.funcs.values():
        if "." not in f.qual.split(":")[-1] or len(f.params) < 3:
            continue
        for x in walk_no_defs(f.node):
            if isinstance(x, ast.Call) and call_tail(x) == "append" and isinstance(x.func.value, ast.Attribute) and src(x.func.value.value) == "self" and x.args and isinstance(x.args[0], ast.Tuple) \
                    and len(x.args[0].elts) == 2:
                writers.append((f, x))
    ctx.floor("C10.STAGE", "capture-buffer write methods in logmux", len(writers), 1)
    # the capture never refuses a record: append_jsonl answers ANY error of the buffer's write by writing the record through
    # at once - i.e. during the compute phase, ahead of this agent's buffered lines and of earlier agents' staged ones - so a
    # bounded capture buffer (a byte limit that raises when full) reorders the files as a function of that limit
    for f, app in writers:
        wcfg = ctx.cfg(f)
        raises = [n for n in wcfg.nodes if n.kind == "stmt" and isinstance(n.ast, ast.Raise)]
        appn = (wcfg.node_containing(app) or [None])[0]
        skip = wcfg.path([wcfg.entry], lambda m: m is wcfg.exit, avoid=lambda m: m is appn, edge_ok=no_exc) if appn is not None else None
        ctx.check(not raises and skip is None, "C10.STAGE", f"{f.qual}/capture-is-unconditional", f.loc(raises[0].ast) if raises else f.loc(app),
                  "the capture buffer's write always appends: no raise, no path around the append",
                  (f"`{src(raises[0].ast)[:40]}` lets the capture buffer refuse a record" if raises else "the capture buffer's write can return without appending the record") +
                  ": append_jsonl then falls back to writing it through immediately (or it is lost), ahead of the lines still buffered / staged - per-file line order now depends on the limit")
    copies_inside = {}
    for f, app in writers:
        copies_inside[f.name] = _is_snapshot(ctx.rd(f), app.args[0].elts[1], (ctx.cfg(f).node_containing(app) or [None])[0])
    n_sites = 0
    for mn in ("clematis.io.log", LM):
        for fn in ctx.prog.module(mn).funcs.values():
            rd = None
            for x in walk_no_defs(fn.node):
                if not (isinstance(x, ast.Call) and isinstance(x.func, ast.Attribute) and x.func.attr in copies_inside and isinstance(x.func.value, ast.Name) and len(x.args) == 2):
                    continue
                rd = rd or ctx.rd(fn)
                at = (ctx.cfg(fn).node_containing(x) or [None])[0]
                if at is None:
                    continue
                # receiver obtained from the context variable holding the active buffer
                rdefs = [d for d in rd.reaching(x.func.value.id, at) if d.kind == "assign" and d.value is not None]
                if not any(isinstance(d.value, ast.Call) and call_tail(d.value) == "get" for d in rdefs):
                    continue
                n_sites += 1
                callers = [g for g in ctx.prog.funcs.values() if g is not fn and any(isinstance(y, ast.Call) and (r := ctx.prog.callee(g, y)) and r[1] == fn.qual for y in walk_no_defs(g.node))]
                ok = copies_inside[x.func.attr] or _is_snapshot(rd, x.args[1], at)
                key = f"{fn.qual}/captured-record-is-a-snapshot"
                if ok:
                    ctx.holds("C10.STAGE", key, fn.loc(x), f"the record handed to the capture buffer is a deep copy taken at the call (`{src(x.args[1])[:40]}`)")
                else:
                    ctx.violation("C10.STAGE", key, fn.loc(x),
                                  f"`{src(x.args[1])[:40]}` - the caller's own dict, or a shallow copy whose nested values stay aliased - is stored in the per-turn capture buffer and serialised only at commit: an update made to it "
                                  "later in the compute phase rewrites a line that the sequential loop has already written, so the batch driver's logs differ from the sequential ones")
    ctx.floor("C10.STAGE", "capture sites (buffer.write on the active mux)", n_sites, 2)
    # the copy itself can fail (copy.deepcopy recurses: ~500 nesting levels, json manages ~1000): the writer's answer to a failed
    # capture is to write the record through at once - ahead of the records still buffered, and during a read-only compute
    # phase.  So where the capture-aware writer copies with deepcopy, a failure of that copy has a second, JSON-level attempt
    # before the write-through fallback is reached.
    aj = ctx.func("clematis.io.log:append_jsonl")
    acfg = ctx.cfg(aj)
    ard = ctx.rd(aj)
    n_cap = 0
    for x in walk_no_defs(aj.node):
        if not (isinstance(x, ast.Call) and isinstance(x.func, ast.Attribute) and x.func.attr in copies_inside and len(x.args) == 2):
            continue
        n_cap += 1
        a = x.args[1]
        at = (acfg.node_containing(x) or [None])[0]
        second = False
        if isinstance(a, ast.Name) and at is not None:
            ds = [d for d in ard.reaching(a.id, at) if d.kind == "assign" and d.value is not None]
            first = [d for d in ds if isinstance(d.value, ast.Call) and (dotted(d.value.func) or "").split(".")[-1] == "deepcopy"]
            for d in ds:
                if d in first:
                    continue
                hs = [st for st, part in enclosing(ctx.prog, aj, d.value) if isinstance(st, ast.Try) and part == "handler"]
                if any(any(any(y is f.value for y in ast.walk(b)) for b in t.body) for t in hs for f in first) and _is_snapshot(ard, d.value, d.node):
                    second = True
            if not first:
                second = True  # not a recursive copier at all
        ctx.check(second, "C10.STAGE", f"{aj.qual}/capture-copy-has-a-second-attempt", aj.loc(x), "a record copy.deepcopy cannot take is copied at the JSON level before any write-through",
                  f"`{src(x)[:60]}`: the only capture attempt is copy.deepcopy - a record nested deeper than its recursion allows (but fine for json.dumps) raises, the handler writes it through at "
                  "once, and it lands on disk before the records buffered earlier (per-file order differs from the sequential loop; a read-only compute phase writes)")
    ctx.floor("C10.STAGE", "capture calls in append_jsonl", n_cap, 1)


def rule_retry_admitted(ctx) -> None:
    """the driver's answer to back-pressure is drain + stage the same record once more, unguarded (C10.STAGE checks that shape).
    That retry must succeed for every record and every limit >= 1 byte: the stager may signal back-pressure only when there is
    something to drain - the raise is dominated by a test that the buffer is non-empty - and drain_sorted leaves it empty."""
    IOL = "clematis.engine.util.io_logging"
    st = ctx.func(IOL + ":LogStager.stage")
    cfg = ctx.cfg(st)
    raises = [n for n in cfg.nodes if n.kind == "stmt" and isinstance(n.ast, ast.Raise) and any(const_str(x) == "LOG_STAGING_BACKPRESSURE" for x in ast.walk(n.ast))]
    ctx.floor("C10.STAGE", "back-pressure raises in LogStager.stage", len(raises), 1)
    # the buffer attribute: the list the record is appended to
    bufs = {src(c.func.value) for n in cfg.nodes for c in node_calls(n) if call_tail(c) == "append" and src(c.func.value).startswith("self.")}
    dr = ctx.func(IOL + ":LogStager.drain_sorted")
    emptied = {src(t) for x in walk_no_defs(dr.node) if isinstance(x, ast.Assign) and isinstance(x.value, (ast.List,)) and not x.value.elts for t in x.targets}
    emptied |= {src(c.func.value) for x in walk_no_defs(dr.node) if isinstance(x, ast.Call) and call_tail(x) == "clear" for c in [x]}
    ctx.check(bool(bufs) and bufs <= emptied, "C10.STAGE", f"{dr.qual}/drain-empties-buffer", dr.loc(), f"drain_sorted leaves {sorted(bufs)} empty", f"drain_sorted does not empty {sorted(bufs - emptied)}")
    for n in raises:
        ok = False
        for t, p in cfg.facts(n):
            if p and (t in bufs or any(t == f"len({b}) > 0" or t == f"len({b}) >= 1" for b in bufs)):
                ok = True
        ctx.check(ok, "C10.STAGE", f"{st.qual}/backpressure-only-when-drainable", st.loc(n.ast),
                  "back-pressure is raised only where the buffer is known non-empty: after a drain the retried record is always admitted",
                  "back-pressure can be raised with an empty buffer: a record whose size estimate alone exceeds the byte limit is refused again on the driver's retry after the drain, "
                  "and the RuntimeError leaves the batch driver - the outcome depends on the staging limit")


def _ctx_attr_flow(ctx, entries, depth: int = 3):
    """(reads, writes): attribute names read from / written to the object that enters at the (function, parameter) pairs,
    followed into program callees that are handed the same object"""
    reads, writes = {}, {}
    seen = set()
    work = [(f, p, 0) for f, p in entries]
    while work:
        fn, pn, d = work.pop()
        if (fn.qual, pn) in seen:
            continue
        seen.add((fn.qual, pn))
        for x in walk_no_defs(fn.node):
            if isinstance(x, ast.Attribute) and isinstance(x.value, ast.Name) and x.value.id == pn:
                (reads if isinstance(x.ctx, ast.Load) else writes).setdefault(x.attr, (fn, x))
            elif isinstance(x, ast.Call) and dotted(x.func) in ("getattr", "hasattr") and len(x.args) >= 2 and isinstance(x.args[0], ast.Name) and x.args[0].id == pn and const_str(x.args[1]):
                reads.setdefault(const_str(x.args[1]), (fn, x))
            elif isinstance(x, ast.Call) and dotted(x.func) == "setattr" and len(x.args) >= 2 and isinstance(x.args[0], ast.Name) and x.args[0].id == pn:
                names = [const_str(x.args[1])] if const_str(x.args[1]) else []
                if not names and isinstance(x.args[1], ast.Name):
                    # setattr(ctx, _name, ...) inside `for _name in ("a", "b")`
                    for y in walk_no_defs(fn.node):
                        if isinstance(y, ast.For) and isinstance(y.target, ast.Name) and y.target.id == x.args[1].id and isinstance(y.iter, (ast.Tuple, ast.List)):
                            names = [const_str(e) for e in y.iter.elts if const_str(e)]
                for nm in names:
                    writes.setdefault(nm, (fn, x))
            if isinstance(x, ast.Call) and d < depth:
                r = ctx.prog.callee(fn, x)
                if r is None and isinstance(x.func, ast.Call) and x.func.args and isinstance(x.func.args[-1], ast.Name):
                    r = ctx.prog.resolve_dotted(fn.module, x.func.args[-1].id, fn)
                if not r or r[0] != "func" or not ctx.prog.has_func(r[1]):
                    continue
                cal = ctx.prog.func(r[1])
                ps = [p_ for p_ in cal.params if p_ not in ("self", "cls")]
                for i, a in enumerate(x.args):
                    if isinstance(a, ast.Name) and a.id == pn and i < len(ps):
                        work.append((cal, ps[i], d + 1))
                for kw in x.keywords:
                    if isinstance(kw.value, ast.Name) and kw.value.id == pn and kw.arg in ps:
                        work.append((cal, kw.arg, d + 1))
    return reads, writes


def rule_buffer_order_is_task_order(ctx) -> None:
    """"the same ... in the same order as running those turns one after another": the buffers of one batch share the turn id and the
    slice, so the stable buffer sort keeps the caller's task order - the order of the turn-by-turn loop.  Any further component
    of the sort key that reads the buffer (the agent id, the dialogue, a length) re-orders staging and commit away from the task
    order whenever the two differ (agent10 before agent9): results[i] no longer belongs to tasks[i], log lines and version etags
    come in another order."""
    kf = ctx.prog.funcs.get(PAR + ":_sort_turn_buffers._key") or ctx.func(PAR + ":_sort_turn_buffers")
    allowed = {"turn_id", "slice_idx"}
    read = set()
    for x in walk_no_defs(kf.node):
        if isinstance(x, ast.Call) and call_tail(x) == "get" and x.args and const_str(x.args[0]):
            read.add(const_str(x.args[0]))
        elif isinstance(x, ast.Subscript) and const_str(x.slice):
            read.add(const_str(x.slice))
    ctx.floor("C10.COMMIT", "buffer fields read by the buffer sort key", len(read), 2)
    extra = sorted(read - allowed)
    ctx.check(not extra, "C10.COMMIT", f"{kf.qual}/buffer-order-keeps-task-order", kf.loc(), "the buffer sort key reads the turn id and the slice only (ties keep the task order)",
              f"the buffer sort key also reads {extra}: within one batch (same turn, same slice) staging and commit then follow that field instead of the task order - with tasks [C, A, B] or agent8, agent9, "
              "agent10 the results, the per-file log order, the apply order and the version etags differ from the turn-by-turn loop")


def rule_clone_carries_inputs(ctx) -> None:
    """"the same per-agent results ... the same log lines": the compute phase runs run_turn under a context the driver builds per
    agent.  Everything run_turn (and what it hands its context to) READS from the context and does not itself put there is an
    input of the turn: the injected T2 encoder, trace / pick reasons, the scheduler-log wiring, adapters, style.  A clone that
    carries a fixed short list drops the rest - the parallel run retrieves with another encoder and writes other scheduler
    lines than the same turns run one after another with the caller's context."""
    rt = ctx.func(RUN_TURN)
    cparam = [p for p in rt.params if p not in ("self",)][0]
    reads, writes = _ctx_attr_flow(ctx, [(rt, cparam)], depth=3)
    cl = ctx.func(PAR + ":_clone_ctx_for_agent")
    src_p = cl.params[0]
    # what the clone carries
    explicit = {const_str(t.slice) for x in walk_no_defs(cl.node) if isinstance(x, ast.Assign) for t in x.targets if isinstance(t, ast.Subscript) and const_str(t.slice)}
    listed = set()
    for x in walk_no_defs(cl.node):
        if isinstance(x, ast.For) and isinstance(x.iter, (ast.Tuple, ast.List)) and all(const_str(e) for e in x.iter.elts):
            if any(isinstance(y, ast.Call) and dotted(y.func) in ("getattr", "hasattr") and y.args and isinstance(y.args[0], ast.Name) and y.args[0].id == src_p for st in x.body for y in ast.walk(st)):
                listed |= {const_str(e) for e in x.iter.elts}
    def _is_vars(e) -> bool:
        return any((isinstance(y, ast.Call) and dotted(y.func) == "vars" and y.args and isinstance(y.args[0], ast.Name) and y.args[0].id == src_p)
                   or (isinstance(y, ast.Attribute) and y.attr == "__dict__" and isinstance(y.value, ast.Name) and y.value.id == src_p) for y in ast.walk(e))
    var_locals = {t.id for x in walk_no_defs(cl.node) if isinstance(x, ast.Assign) and _is_vars(x.value) for t in x.targets if isinstance(t, ast.Name)}
    # ... and what vars() lists is really copied: a loop over it stores each (name, value) into the mapping the clone is built from
    everything = False
    for lp in [x for x in walk_no_defs(cl.node) if isinstance(x, ast.For)]:
        over = _is_vars(lp.iter) or any(isinstance(y, ast.Name) and y.id in var_locals for y in ast.walk(lp.iter))
        kv = [y.id for y in ast.walk(lp.target) if isinstance(y, ast.Name)]
        if over and kv and any(isinstance(st2, ast.Assign) and any(isinstance(t, ast.Subscript) and isinstance(t.slice, ast.Name) and t.slice.id == kv[0] for t in st2.targets)
                               for st in lp.body for st2 in ast.walk(st)):
            everything = True
    skip_prefix, skip_names = set(), set()
    if everything:
        for x in walk_no_defs(cl.node):
            if isinstance(x, ast.If) and any(isinstance(y, ast.Continue) for y in x.body):
                for y in ast.walk(x.test):
                    if isinstance(y, ast.Call) and call_tail(y) == "startswith" and y.args:
                        skip_prefix |= {const_str(e) for e in (y.args[0].elts if isinstance(y.args[0], ast.Tuple) else [y.args[0]]) if const_str(e)}
                    if isinstance(y, ast.Compare) and isinstance(y.ops[0], ast.In) and isinstance(y.comparators[0], (ast.Tuple, ast.List, ast.Set)):
                        skip_names |= {const_str(e) for e in y.comparators[0].elts if const_str(e)}
    inputs = sorted(a for a in reads if a not in writes and not a.startswith("__") and a not in ("get",))
    ctx.floor("C10.COMMIT", "context attributes run_turn reads as inputs", len(inputs), 10)
    missing = []
    for a in inputs:
        if a in explicit or a in listed:
            continue
        if everything and not (a in skip_names or any(a.startswith(p) for p in skip_prefix)):
            continue
        missing.append(a)
    w = reads[missing[0]] if missing else None
    ctx.check(not missing, "C10.COMMIT", f"{cl.qual}/clone-carries-every-input-of-the-turn", cl.loc(), f"the per-agent context carries all {len(inputs)} attributes run_turn reads as inputs",
              (f"the per-agent context does not carry {missing}: e.g. `{missing[0]}` is read at {w[0].loc(w[1])} - a batch whose context injects it (the T2 encoder `enc`, `pick_reason`, the "
               "scheduler-log wiring, `trace_reason`, adapters) computes with the defaults instead, so per-agent results and log lines differ from the same turns run one after another") if missing else "")


def rule_readers_accept_the_view(ctx) -> None:
    """"the same per-agent results": the compute phase runs the real run_turn on readonly_snapshot(state), which hands out the
    state's containers as frozen VIEWS - mappings that are not dicts, sequences that are not lists, without mutators.  Stage
    code that reads the state (everything run_turn hands `state` to before the dry-run return, and what that code hands the
    values on to) must behave the same on a view: no exact-container-type test on a value taken out of the state (the false
    branch reads real data as absent: cooldown history invisible, GEL edge weights 0), and no in-place completion of such a
    value (setdefault on the GEL graph raises on the view; the fail-soft wrapper then switches the layer off in the parallel run
    only)."""
    from ..hazards import controls, frozen_view_hazards
    fn = ctx.func(RUN_TURN)
    cfg = ctx.cfg(fn)
    sp = "state" if "state" in fn.params else None
    if sp is None:
        raise AnalysisError("anchor-vanished: run_turn's state parameter")
    # what freeze() turns into views (the rule is about exactly these)
    fz = ctx.func("clematis.engine.stages.state_clone:freeze")
    if not any(isinstance(x, ast.Call) and call_tail(x) in ("FrozenDict", "FrozenList") for x in walk_no_defs(fz.node)):
        raise AnalysisError("anchor-vanished: freeze() no longer wraps containers in FrozenDict / FrozenList")
    entries = []
    for n in cfg.nodes:
        if _dry_infeasible(cfg, n):
            continue
        for c in node_calls(n):
            pos = [i for i, a in enumerate(c.args) if isinstance(a, ast.Name) and a.id == sp]
            if not pos:
                continue
            r = ctx.prog.callee(fn, c)
            if r is None and isinstance(c.func, ast.Call) and c.func.args:
                # _get_stage_callable("t2_semantic", t2_semantic)(ctx, state, ...): the fallback names the real stage
                last = c.func.args[-1]
                if isinstance(last, ast.Name):
                    r = ctx.prog.resolve_dotted(fn.module, last.id, fn)
            if r is None and isinstance(c.func, ast.Name):
                # a local bound to such a facade call
                for x in walk_no_defs(fn.node):
                    if isinstance(x, ast.Assign) and len(x.targets) == 1 and isinstance(x.targets[0], ast.Name) and x.targets[0].id == c.func.id and isinstance(x.value, ast.Call) and x.value.args \
                            and isinstance(x.value.args[-1], ast.Name):
                        r = ctx.prog.resolve_dotted(fn.module, x.value.args[-1].id, fn)
            if not r or r[0] != "func" or not ctx.prog.has_func(r[1]):
                continue
            cal = ctx.prog.func(r[1])
            if not cal.module.name.startswith(STAGES):
                continue   # orchestrator-side helpers (boot loader, reflection, health) gate themselves / have findings of their own
            ps = [p for p in cal.params if p not in ("self", "cls")]
            for i in pos:
                if i < len(ps):
                    entries.append((cal, ps[i]))
    entries = list({(f.qual, p): (f, p) for f, p in entries}.values())
    ctx.floor("C10.RO", "stage functions run_turn hands the state to in the compute phase", len(entries), 3)
    gates, muts = frozen_view_hazards(ctx, entries, depth=4, within=(STAGES, "clematis.memory", "clematis.graph"))
    # run_turn's own reads of the state, where they are reachable in a dry run
    g0, m0 = frozen_view_hazards(ctx, [(fn, sp)], depth=0)
    feas = lambda node: any(not _dry_infeasible(cfg, n) for n in cfg.node_containing(node))
    gates += [r for r in g0 if feas(r[1])]
    muts += [r for r in m0 if feas(r[1])]
    ctx.info("C10.RO", "positive-control/state-view-readers", "sa/hazards.py", controls(ctx, "clematis.engine.health", ["view"]))
    ctx.notes.append(f"C10.RO: compute-phase state readers: {sorted(f.qual.split(':')[1] + '(' + p + ')' for f, p in entries)}")
    by_fn = {}
    for f, node, text in gates:
        by_fn.setdefault((f.qual, "exact-type-gate"), []).append((f, node, text))
    for f, node, text in muts:
        by_fn.setdefault((f.qual, "in-place-completion"), []).append((f, node, text))
    for (q, kind), rows in sorted(by_fn.items()):
        rows.sort(key=lambda r: (getattr(r[1], "lineno", 0), getattr(r[1], "col_offset", 0)))
        for i, (f, node, text) in enumerate(rows, 1):
            what = (f"`{src(node)[:60]}` tests a value taken out of the state for the exact container type: through the read-only view of the compute phase the value is a mapping / sequence that is "
                    "NOT that type - real data is read as absent in the parallel run only (its results differ from the sequential run)") if kind == "exact-type-gate" else \
                   (f"`{src(node)[:60]}` completes a container of the state in place: the read-only view of the compute phase has no mutators - the call raises there (a fail-soft wrapper then drops the "
                    "layer in the parallel run only), and on a live state a reading stage edits the state")
            ctx.violation("C10.RO", f"{q}/state-view-{kind}#{i}", f.loc(node), what)
    if not by_fn:
        ctx.holds("C10.RO", f"{fn.qual}/state-readers-accept-the-view", fn.loc(), f"no exact-type test or in-place completion on values taken out of the state in {len(entries)} compute-phase readers and their callees")


def run(ctx) -> None:
    rule_buffer_order_is_task_order(ctx)
    rule_clone_carries_inputs(ctx)
    rule_readers_accept_the_view(ctx)
    rule_retry_admitted(ctx)
    rule_capture_snapshot(ctx)
    rule_ro(ctx)
    rule_dry(ctx)
    rule_commit(ctx)
    rule_driver_faithful(ctx)
    rule_batch(ctx)
    rule_stage(ctx)
    rule_stage_seq(ctx)
    rule_sib(ctx)
