"""C16 Log streams stay well-formed, ordered and lossless (structural clauses)."""
from __future__ import annotations

import ast
from typing import List, Optional, Set

from ..model import AnalysisError, arg, const_str, dotted, kwarg, src, walk_no_defs
from ..typestate import explore
from ..util import call_tail, enclosing, file_ops, find_calls, in_loop_lexical, node_calls, open_mode

EXPLANATION = (
    "C16 decided statically: (LINE) the unbuffered appender opens once in binary append mode and performs exactly one "
    "write of (json.dumps(record)+'\\n').encode() on every path, no indent; every other appender of the logging modules "
    "reaches disk only through it; (NORM) normalize_for_identity mutates only a dict(rec) copy, touches only the "
    "volatile-field whitelist, each store is a constant or a function of the same key; (ORDER) drain_sorted sorts by "
    "(turn_id, stage_ord, slice_idx, seq, file_path), STAGE_ORD gives the canonical streams distinct ordinals, seq is "
    "strictly increasing and _buf has no other consumer; (REWRITE) compaction emits one dumps+'\\n' per record in input "
    "order through atomic_write_text; (ROT) rotation performs only: remove path.N, renames path.k->path.(k+1) for k "
    "strictly descending, then path->path.1. Not decided: line atomicity under real contention (A3), flush-order "
    "independence over arrival orders, generation bookkeeping over histories."
)
RULES = {
    "C16.LINE": "typestate (one write per call) + expression shape of the written bytes + who-may-write over the logging modules",
    "C16.NORM": "alias/provenance of every mutated object, whitelist of touched keys, same-key dependence of stored values",
    "C16.ORDER": "sort-key shape, STAGE_ORD table, writers/readers of LogStager._buf and _seq",
    "C16.REWRITE": "loop shape and provenance of the rewritten payload",
    "C16.ROT": "enumeration of file operations in rotate_one, cascade direction, ordering by reachability",
}

LOGMOD = "clematis.io.log"
UNBUF = LOGMOD + ":_append_jsonl_unbuffered"
IOL = "clematis.engine.util.io_logging"
CANONICAL = ["t1.jsonl", "t2.jsonl", "t4.jsonl", "apply.jsonl", "turn.jsonl", "health.jsonl"]
VOLATILE = {"ms", "now", "durations_ms", "slice_idx", "yielded"}


def _is_line_expr(e: ast.AST) -> Optional[str]:
    """(json.dumps(x, ...) + "\\n").encode(...)  -> None if ok else reason"""
    if not (isinstance(e, ast.Call) and isinstance(e.func, ast.Attribute) and e.func.attr == "encode"):
        return f"written value is `{src(e)[:60]}`, not <text>.encode()"
    b = e.func.value
    if not (isinstance(b, ast.BinOp) and isinstance(b.op, ast.Add)):
        return "encoded text is not `json.dumps(...) + '\\n'`"
    if const_str(b.right) != "\n":
        return f"line terminator is {src(b.right)}, not a single LF"
    d = b.left
    if not (isinstance(d, ast.Call) and dotted(d.func) in ("json.dumps", "stable_json_dumps", "_canonical_json")):
        return f"line body is `{src(d)[:50]}`, not json.dumps(record)"
    if kwarg(d, "indent") is not None and not (isinstance(kwarg(d, "indent"), ast.Constant) and kwarg(d, "indent").value is None):
        return "json.dumps(indent=...) produces multi-line records"
    return None


def rule_line(ctx) -> None:
    fn = ctx.func(UNBUF)
    cfg = ctx.cfg(fn)
    rd = ctx.rd(fn)
    ops = [o for o in file_ops(ctx, fn) if o.kind.startswith("open")]
    ctx.check(len(ops) == 1, "C16.LINE", f"{UNBUF}/single-open", fn.loc(), "exactly one open() per appended record",
              f"{len(ops)} open() calls in the appender")
    for o in ops:
        ctx.check(o.mode == "ab", "C16.LINE", f"{UNBUF}/mode", fn.loc(o.call),
                  "handle opened in binary append mode 'ab' (O_APPEND, no newline translation)",
                  f"log handle opened with mode {o.mode!r} (truncating / text / not append)")
    writes = find_calls(ctx, fn, lambda c, nm: isinstance(c.func, ast.Attribute) and c.func.attr in ("write", "writelines"))
    if not writes:
        ctx.violation("C16.LINE", f"{UNBUF}/write-missing", fn.loc(), "the appender never writes")
        return
    from .. import hazards
    for o, w in hazards.raw_write_unchecked(ctx, fn):
        ctx.violation("C16.LINE", f"{UNBUF}/whole-line-or-error", fn.loc(w),
                      f"`{src(w)[:40]}` goes through a handle opened with buffering=0 and its byte count is dropped: one write(2) may store only part of the line (pipe, signal, size limit) "
                      "without raising, so the record is torn and the next record is glued to the fragment; the buffered handle writes everything or raises")
    wn = {n for n, _ in writes}

    def step(n, s, lab, t):
        if n in wn and lab != "exc":
            k = sum(1 for c in node_calls(n) if isinstance(c.func, ast.Attribute) and c.func.attr in ("write", "writelines"))
            return [min(2, s + k)]
        return [s]

    visited, wit = explore(cfg, [0], step, lambda n, s: (f"normal return after {s if s < 2 else '>=2'} writes" if n is cfg.exit and s != 1 else None))
    ctx.check(not wit, "C16.LINE", f"{UNBUF}/exactly-one-write", fn.loc(),
              "every normal path performs exactly one write() on the handle (one record = one write(2) of one line)",
              wit[0][0] if wit else "", ctx.path_witness(fn, [x for x, _ in wit[0][1]]) if wit else None)
    for n, c in writes:
        if c.func.attr == "writelines" or not c.args:
            ctx.violation("C16.LINE", f"{UNBUF}/line-shape", fn.loc(c), f"record written with {src(c)[:60]}")
            continue
        inl = rd.inline(c.args[0], n)
        why = _is_line_expr(inl)
        ctx.check(why is None, "C16.LINE", f"{UNBUF}/line-shape", fn.loc(c),
                  f"written bytes are `{src(inl)[:70]}`: one JSON document + LF, encoded", why or "")
        ctx.check(not cfg.in_loop(n), "C16.LINE", f"{UNBUF}/write-not-in-loop", fn.loc(c), "write is outside any loop",
                  "write sits in a loop (a record may be split over several writes)")
    # who-may-write: logging modules reach disk only through the unbuffered appender
    mods = [LOGMOD, "clematis.engine.orchestrator.logging", "clematis.engine.util.logmux", IOL]
    n_app = 0
    for mn in mods:
        m = ctx.prog.module(mn)
        ctx.analysed_modules.add(mn)
        for f in m.funcs.values():
            for o in file_ops(ctx, f):
                if o.kind in ("open-r", "mkdir"):
                    continue
                if f.qual == UNBUF and o.kind == "open-w":
                    continue
                if f.qual == LOGMOD + ":rewrite_jsonl":
                    continue
                ctx.violation("C16.LINE", f"{f.qual}/{o.kind}", f.loc(o.call),
                              f"a logging-layer function writes the file system itself ({src(o.call)[:70]}) instead of going through _append_jsonl_unbuffered")
    for q in (LOGMOD + ":append_jsonl", "clematis.engine.orchestrator.logging:_append_unbuffered",
              "clematis.engine.orchestrator.logging:_append_jsonl", "clematis.engine.util.logmux:flush",
              "clematis.engine.util.logmux:write_or_buffer"):
        f = ctx.func(q)
        reach = _reaches(ctx, f, UNBUF, 4)
        n_app += 1
        ctx.check(reach, "C16.LINE", f"{q}/reaches-unbuffered", f.loc(), "appender reaches disk through _append_jsonl_unbuffered",
                  "appender no longer reaches _append_jsonl_unbuffered")
    ctx.floor("C16.LINE", "appenders", n_app, 5)
    if ctx.tier == "thorough":
        for f in ctx.prog.all_funcs("clematis."):
            if f.module.name in mods:
                continue
            for o in file_ops(ctx, f):
                if o.kind == "open-w" and o.mode and "a" in o.mode:
                    tgt = src(o.target) if o.target is not None else "?"
                    bad = any(c in tgt for c in CANONICAL)
                    if bad:
                        ctx.violation("C16.LINE", f"{f.qual}/raw-append-canonical", f.loc(o.call), f"raw append to a canonical stream: {tgt}")
                    else:
                        ctx.info("C16.LINE", f"{f.qual}/append", f.loc(o.call), f"append-mode writer of a non-canonical artefact: {tgt[:60]}")


LENIENT_CODEC_ERRORS = ("ignore", "replace", "surrogatepass", "surrogateescape", "backslashreplace", "xmlcharrefreplace", "namereplace")


def rule_line_total(ctx) -> None:
    """"every record appended ... appears as exactly one complete line" for every record json can serialise: the text
    json.dumps(ensure_ascii=False) produces may hold a lone surrogate (undecodable argv / stdin bytes), which a strict
    .encode('utf-8') refuses - in the staged flush that happens after the stager was drained, and every record sorted after
    the bad one is lost.  The writers of the log module encode leniently (the escape \\udcXX reads back unchanged) or dump
    with ensure_ascii; and the mux's flush() writes past the active mux, or it puts the pairs back into the buffer."""
    n_w = 0
    for q in (UNBUF, LOGMOD + ":rewrite_jsonl"):
        fn = ctx.func(q)
        dumps = [x for x in walk_no_defs(fn.node) if isinstance(x, ast.Call) and dotted(x.func) == "json.dumps"]
        raw = [x for x in dumps if (lambda k: k is not None and isinstance(k, ast.Constant) and k.value is False)(kwarg(x, "ensure_ascii"))]
        if not dumps:
            raise AnalysisError(f"anchor-vanished: json.dumps in {q}")
        n_w += 1
        encs = [x for x in walk_no_defs(fn.node) if isinstance(x, ast.Call) and isinstance(x.func, ast.Attribute) and x.func.attr == "encode"]
        lenient = [x for x in encs if const_str(kwarg(x, "errors") or (x.args[1] if len(x.args) > 1 else None)) in LENIENT_CODEC_ERRORS]
        strict = [x for x in encs if x not in lenient]
        # text handed to the atomic writer is encoded there, strictly: it must have passed a lenient encode before
        to_atomic = [x for x in walk_no_defs(fn.node) if isinstance(x, ast.Call) and call_tail(x) in ("atomic_write_text",)]
        ok = (not raw) or (bool(lenient) and not strict) if not to_atomic else ((not raw) or bool(lenient))
        ctx.check(ok, "C16.LINE", f"{q}/line-encoding-total", fn.loc((strict or raw or dumps)[0]), "text that may hold a lone surrogate is encoded with an error handler (or dumped with ensure_ascii)",
                  f"`{src((strict or raw)[0])[:60]}`: json.dumps(ensure_ascii=False) keeps a lone surrogate and the strict UTF-8 encode then raises - the record is not written, and in the staged flush "
                  "(stager already drained) every record sorted after it is lost too, other agents' records and the apply records of applied changes included")
    ctx.floor("C16.LINE", "line writers checked for a total encoding", n_w, 2)
    fl = ctx.func("clematis.engine.util.logmux:flush")
    targets = {ctx.prog.callee(fl, x)[1] for x in walk_no_defs(fl.node) if isinstance(x, ast.Call) and ctx.prog.callee(fl, x)}
    aware = LOGMOD + ":append_jsonl" in targets
    ctx.check(UNBUF in targets and not aware, "C16.LINE", "clematis.engine.util.logmux:flush/writes-past-the-mux", fl.loc(), "flush() hands its pairs to the unbuffered writer",
              "flush() goes through the capture-aware append_jsonl: called while the mux is still active (as LogMux's own usage note does) the pairs are buffered again and nothing reaches the file")


def _reaches(ctx, fn, target_qual: str, depth: int, seen=None) -> bool:
    seen = seen if seen is not None else set()
    if fn.qual in seen or depth < 0:
        return False
    seen.add(fn.qual)
    for x in walk_no_defs(fn.node):
        if isinstance(x, ast.Call):
            r = ctx.prog.callee(fn, x)
            if r and r[0] == "func":
                if r[1] == target_qual:
                    return True
                if _reaches(ctx, ctx.prog.funcs[r[1]], target_qual, depth - 1, seen):
                    return True
    return False


# ------------------------------------------------------------------- NORM
def rule_norm(ctx) -> None:
    fn = ctx.func(IOL + ":normalize_for_identity")
    cfg = ctx.cfg(fn)
    rd = ctx.rd(fn)
    rec_param = fn.params[1] if len(fn.params) > 1 else None
    if rec_param is None:
        raise AnalysisError("anchor-vanished: normalize_for_identity(name, rec)")
    n_mut = 0
    for d in rd.all_defs:
        if d.kind != "mutate":
            continue
        n_mut += 1
        root = d.name
        key = f"{fn.qual}/mutates:{root}"
        if root == rec_param:
            ctx.violation("C16.NORM", key, fn.loc(d.node.ast), f"the input record is mutated in place: `{src(d.node.ast)[:60]}`")
            continue
        fresh = True
        for dd in rd.reaching(root, d.node):
            if dd.kind == "mutate":
                continue
            v = dd.value
            if not (dd.kind == "assign" and isinstance(v, ast.Call) and dotted(v.func) in ("dict", "copy.copy", "copy.deepcopy")
                    or isinstance(v, (ast.Dict, ast.DictComp))
                    or (isinstance(v, ast.Call) and isinstance(v.func, ast.Attribute) and v.func.attr == "copy")):
                fresh = False
        ctx.check(fresh, "C16.NORM", key + ":" + src(d.node.ast)[:30], fn.loc(d.node.ast),
                  f"`{src(d.node.ast)[:50]}` acts on a fresh dict(rec) copy", f"`{src(d.node.ast)[:60]}` acts on an object aliasing the input record")
    # pop() calls are mutations too
    for n in cfg.nodes:
        for c in node_calls(n):
            if isinstance(c.func, ast.Attribute) and c.func.attr in ("pop", "popitem", "clear", "update", "setdefault", "__setitem__", "__delitem__"):
                root = c.func.value
                if isinstance(root, ast.Name):
                    n_mut += 1
                    if root.id == rec_param:
                        ctx.violation("C16.NORM", f"{fn.qual}/mutates:{root.id}", fn.loc(c), f"the input record is mutated in place: `{src(c)}`")
                    k = const_str(c.args[0]) if c.args else None
                    ctx.check(k in VOLATILE, "C16.NORM", f"{fn.qual}/touches:{k}", fn.loc(c),
                              f"removes only the volatile field {k!r}", f"normalisation removes non-volatile field {k!r}")
        if n.kind == "stmt" and isinstance(n.ast, ast.Delete):
            for t in n.ast.targets:
                if isinstance(t, ast.Subscript):
                    k = const_str(t.slice)
                    ctx.check(k in VOLATILE, "C16.NORM", f"{fn.qual}/touches:{k}", fn.loc(n.ast), f"deletes only volatile field {k!r}",
                              f"normalisation deletes non-volatile field {k!r}")
    ctx.floor("C16.NORM", "mutation sites in normalize_for_identity", n_mut, 6)
    # stores: key whitelist + value depends only on the same key
    for n in cfg.nodes:
        if n.kind != "stmt" or not isinstance(n.ast, ast.Assign):
            continue
        for t in n.ast.targets:
            if not isinstance(t, ast.Subscript):
                continue
            k = const_str(t.slice)
            ctx.check(k in VOLATILE, "C16.NORM", f"{fn.qual}/touches:{k}", fn.loc(n.ast),
                      f"writes only the volatile field {k!r}", f"normalisation rewrites non-volatile field {k!r}")
            exprs = [(n.ast.value, n)]
            seen_d = set()
            i = 0
            while i < len(exprs) and i < 50:
                ex, at = exprs[i]
                i += 1
                for nm in [y for y in walk_no_defs(ex) if isinstance(y, ast.Name) and isinstance(y.ctx, ast.Load)]:
                    for dd in rd.reaching(nm.id, at):
                        if dd.kind in ("assign", "for", "walrus") and dd.value is not None and id(dd) not in seen_d:
                            seen_d.add(id(dd))
                            exprs.append((dd.value, dd.node))
            read_keys: Set[str] = set()
            for x in [y for ex, _ in exprs for y in walk_no_defs(ex)]:
                if isinstance(x, ast.Subscript) and isinstance(x.ctx, ast.Load) and const_str(x.slice) is not None:
                    read_keys.add(const_str(x.slice))
                if isinstance(x, ast.Call) and isinstance(x.func, ast.Attribute) and x.func.attr == "get" and x.args and const_str(x.args[0]) is not None:
                    read_keys.add(const_str(x.args[0]))
            ctx.check(read_keys <= {k}, "C16.NORM", f"{fn.qual}/same-key:{k}", fn.loc(n.ast),
                      f"value stored under {k!r} is a constant or a function of {k!r} alone (idempotent by shape)",
                      f"value stored under {k!r} depends on other fields {sorted(read_keys - {k})}")
    # CI gate: the function is the identity unless env CI == 'true'
    rets = [n for n in cfg.nodes if n.kind == "stmt" and isinstance(n.ast, ast.Return)]
    ident = [r for r in rets if isinstance(r.ast.value, ast.Name) and r.ast.value.id == rec_param]
    ctx.check(len(ident) >= 2, "C16.NORM", f"{fn.qual}/identity-returns", fn.loc(),
              f"{len(ident)} paths return the record unchanged (CI off, non-identity streams)",
              "no path returns the record unchanged for non-identity streams")
    # both copies of the identity-log set agree
    s1 = _set_literal(ctx, IOL, "_IDENTITY_LOGS")
    s2 = _set_literal(ctx, LOGMOD, "_IDENTITY_LOGS")
    if s1 is not None and s2 is not None:
        ctx.check(s1 == s2, "C16.NORM", "identity-log-sets-agree", "io_logging.py / io/log.py",
                  f"both _IDENTITY_LOGS tables list {sorted(s1)}", f"_IDENTITY_LOGS tables disagree: {sorted(s1 ^ s2)}", nontrivial=False)


def _set_literal(ctx, modname: str, name: str) -> Optional[Set[str]]:
    m = ctx.prog.module(modname)
    for st in m.globals_assigned.get(name, []):
        v = getattr(st, "value", None)
        if isinstance(v, (ast.Set, ast.List, ast.Tuple)):
            return {const_str(e) for e in v.elts if const_str(e) is not None}
    return None


# ------------------------------------------------------------------ ORDER
def rule_order(ctx) -> None:
    cq = IOL + ":LogStager"
    methods = ctx.prog.methods(cq)
    drain = methods.get("drain_sorted")
    stage = methods.get("stage")
    nxt = methods.get("next_seq")
    if not (drain and stage and nxt):
        raise AnalysisError("anchor-vanished: LogStager.drain_sorted/stage/next_seq")
    ctx.analysed_funcs.update({drain.qual, stage.qual, nxt.qual})
    rd = ctx.rd(drain)
    cfg = ctx.cfg(drain)
    rets = [n for n in cfg.nodes if n.kind == "stmt" and isinstance(n.ast, ast.Return) and n.ast.value is not None]
    ctx.floor("C16.ORDER", "returns of drain_sorted", len(rets), 1)
    WANT = ["turn_id", "stage_ord", "slice_idx", "seq"]
    for r in rets:
        inl = rd.inline(r.ast.value, r)
        ok = False
        got = None
        if isinstance(inl, ast.Call) and dotted(inl.func) == "sorted":
            k = kwarg(inl, "key")
            body = k.body if isinstance(k, ast.Lambda) else None
            if isinstance(body, ast.Tuple):
                def comp(x):
                    # the attribute itself, or the attribute through a one-argument normaliser (a turn id may be 9 or "9")
                    if isinstance(x, ast.Attribute):
                        return x.attr
                    if isinstance(x, ast.Call) and len(x.args) == 1 and not x.keywords and isinstance(x.args[0], ast.Attribute):
                        return x.args[0].attr
                    return src(x)
                got = [comp(x) for x in body.elts]
                ok = got[:4] == WANT and not (kwarg(inl, "reverse") is not None)
                # the batch driver stages and commits its buffers in the order of its own buffer sort; a back-pressure flush writes
                # what is staged so far, so the two orders must be the same order of turn ids: where the driver compares ids as
                # integers when int() accepts them ("9" < "10"), the stager must too - raw ids sort "10" before "9" and a mixed
                # int / str pair raises inside sorted() AFTER the buffer was moved out
                drv = ctx.prog.funcs.get("clematis.engine.orchestrator.parallel:_sort_turn_buffers._key") or ctx.prog.funcs.get("clematis.engine.orchestrator.parallel:_sort_turn_buffers")
                if drv is None:
                    raise AnalysisError("anchor-vanished: the driver's buffer sort")
                def normalises(node) -> bool:
                    return any(isinstance(t, ast.Try) and any(isinstance(y, ast.Call) and dotted(y.func) == "int" for b in t.body for y in ast.walk(b))
                               and any(isinstance(y, ast.Call) and dotted(y.func) == "str" for h in t.handlers for b in h.body for y in ast.walk(b)) for t in ast.walk(node))
                drv_norm = normalises(drv.node)
                t0 = body.elts[0]
                st_norm = False
                if isinstance(t0, ast.Call):
                    r0 = ctx.prog.callee(drain, t0)
                    st_norm = bool(r0 and r0[0] == "func" and r0[1] in ctx.prog.funcs and normalises(ctx.prog.funcs[r0[1]].node))
                ctx.check((not drv_norm) or st_norm, "C16.ORDER", f"{drain.qual}/turn-order-agrees-with-the-driver", drain.loc(r.ast),
                          "the stager orders turn ids the way the driver's buffer sort does (numeric where int() accepts the id, text otherwise)",
                          f"the driver sorts its buffers by int(turn_id) where that works, the stager by the raw id `{src(t0)}`: for text ids ('9', '10' - run_smoke_turn uses text ids) the orders disagree, so "
                          "whether a back-pressure flush falls between two buffers decides the per-file order; a mixed int / str pair raises TypeError inside drain_sorted after the buffer was emptied")
            elif isinstance(k, ast.Call) and dotted(k.func) in ("attrgetter", "operator.attrgetter"):
                got = [const_str(a).split(".")[-1] if const_str(a) else "?" for a in k.args]
                ok = got[:4] == WANT
        ctx.check(ok, "C16.ORDER", f"{drain.qual}/sort-key", drain.loc(r.ast),
                  f"drain returns sorted(buf) by {got}", f"drain is not sorted by (turn_id, stage_ord, slice_idx, seq, …): {got or src(inl)[:60]}")
        # the drained list is the whole buffer
        sl = rd.slice([r.ast.value], r)
        ctx.check(any(a.endswith("._buf") for a in sl.attrs()), "C16.ORDER", f"{drain.qual}/drains-buffer", drain.loc(r.ast),
                  "the sorted list is the stager's whole buffer", "drain does not return the staged buffer")
    # STAGE_ORD covers the canonical streams with distinct ordinals, in pipeline order
    m = ctx.prog.module(IOL)
    so = None
    for st in m.globals_assigned.get("STAGE_ORD", []):
        v = getattr(st, "value", None)
        if isinstance(v, ast.Dict):
            so = {const_str(k): (vv.value if isinstance(vv, ast.Constant) else None) for k, vv in zip(v.keys, v.values)}
    if so is None:
        raise AnalysisError("anchor-vanished: STAGE_ORD dict literal")
    miss = [c for c in CANONICAL if c not in so]
    ctx.check(not miss, "C16.ORDER", "STAGE_ORD/covers-canonical", "io_logging.py", f"STAGE_ORD lists all canonical streams {CANONICAL}",
              f"STAGE_ORD misses canonical streams {miss} (they would all share ordinal 99)")
    vals = [v for v in so.values()]
    ctx.check(len(set(vals)) == len(vals) and all(isinstance(v, int) for v in vals), "C16.ORDER", "STAGE_ORD/distinct", "io_logging.py",
              "ordinals are distinct integers", "STAGE_ORD ordinals collide")
    if not miss:
        seq = [so[c] for c in ["t1.jsonl", "t2.jsonl", "t4.jsonl", "apply.jsonl", "turn.jsonl"]]
        ctx.check(seq == sorted(seq), "C16.ORDER", "STAGE_ORD/pipeline-order", "io_logging.py", "t1 < t2 < t4 < apply < turn as in a sequential turn",
                  f"canonical ordinals {seq} are not in pipeline order")
    # _buf / _seq have no other writer or consumer
    cnode = ctx.prog.cls(cq)
    uses = {}
    for mname, f in methods.items():
        for x in walk_no_defs(f.node):
            if isinstance(x, ast.Attribute) and isinstance(x.value, ast.Name) and x.value.id == "self" and x.attr in ("_buf", "_seq"):
                uses.setdefault(x.attr, set()).add(mname)
    ctx.check(uses.get("_buf", set()) <= {"__init__", "stage", "drain_sorted"}, "C16.ORDER", f"{cq}/_buf-owners", "io_logging.py",
              f"_buf is touched only by {sorted(uses.get('_buf', []))}", f"_buf has another consumer: {sorted(uses.get('_buf', set()) - {'__init__', 'stage', 'drain_sorted'})}")
    ctx.check(uses.get("_seq", set()) <= {"__init__", "next_seq"}, "C16.ORDER", f"{cq}/_seq-owners", "io_logging.py",
              f"_seq is touched only by {sorted(uses.get('_seq', []))}", f"_seq has another writer: {sorted(uses.get('_seq', set()) - {'__init__', 'next_seq'})}")
    inc = [x for x in walk_no_defs(nxt.node) if isinstance(x, ast.AugAssign) and isinstance(x.op, ast.Add) and isinstance(x.value, ast.Constant) and x.value.value == 1]
    ctx.check(len(inc) == 1, "C16.ORDER", f"{nxt.qual}/strictly-increasing", nxt.loc(), "next_seq increments by one per call", "next_seq is not a +1 counter")
    # stage() appends at the tail and stores the normalised payload
    apps = [x for x in walk_no_defs(stage.node) if isinstance(x, ast.Call) and isinstance(x.func, ast.Attribute) and x.func.attr in ("append", "insert", "appendleft")
            and isinstance(x.func.value, ast.Attribute) and x.func.value.attr == "_buf"]
    ctx.check(len(apps) == 1 and apps[0].func.attr == "append", "C16.ORDER", f"{stage.qual}/append-tail", stage.loc(),
              "stage() appends to the buffer tail once", "stage() does not append exactly once at the tail")
    # default_key_for: ordinal from STAGE_ORD by basename, seq from the stager
    dk = ctx.func(IOL + ":default_key_for")
    txt = src(dk.node)
    ctx.check("STAGE_ORD.get(" in txt and "next_seq()" in txt and "basename" in txt, "C16.ORDER", f"{dk.qual}/key-construction", dk.loc(),
              "key = (turn_id, STAGE_ORD[basename], slice_idx, next_seq())", "default_key_for no longer derives stage_ord/seq from STAGE_ORD/next_seq", nontrivial=False)
    # the mux keeps arrival order
    mux = ctx.prog.methods("clematis.engine.util.logmux:LogMux")
    w = mux.get("write")
    if w is not None:
        a = [x for x in walk_no_defs(w.node) if isinstance(x, ast.Call) and isinstance(x.func, ast.Attribute) and x.func.attr in ("append", "insert", "appendleft")]
        ctx.check(len(a) == 1 and a[0].func.attr == "append", "C16.ORDER", f"{w.qual}/append-tail", w.loc(), "LogMux.write appends at the tail",
                  "LogMux.write does not append at the tail (records of one writer lose their order)")
    fl = ctx.func("clematis.engine.util.logmux:flush")
    fors = [x for x in walk_no_defs(fl.node) if isinstance(x, ast.For)]
    ctx.check(len(fors) == 1 and isinstance(fors[0].iter, ast.Name) and fors[0].iter.id == fl.params[0], "C16.ORDER", f"{fl.qual}/in-order", fl.loc(),
              "flush iterates the captured pairs in order", "flush does not iterate the pairs in their captured order")


# ---------------------------------------------------------------- REWRITE
def rule_rewrite(ctx) -> None:
    fn = ctx.func(LOGMOD + ":rewrite_jsonl")
    cfg = ctx.cfg(fn)
    rd = ctx.rd(fn)
    recs = fn.params[1] if len(fn.params) > 1 else None
    fors = [n for n in cfg.nodes if n.kind == "iter"]
    ctx.floor("C16.REWRITE", "loops in rewrite_jsonl", len(fors), 1)
    lp = None
    for n in fors:
        if isinstance(n.ast.iter, ast.Name) and n.ast.iter.id == recs:
            lp = n
    ctx.check(lp is not None, "C16.REWRITE", f"{fn.qual}/input-order", fn.loc(), "records are iterated directly, in input order",
              "records are not iterated in input order (sorted/reversed/filtered)")
    if lp is None:
        return
    apps = [(n, c) for n, c in find_calls(ctx, fn, lambda c, nm: isinstance(c.func, ast.Attribute) and c.func.attr == "append")
            if any(st is lp.ast for st, part in enclosing(ctx.prog, fn, c))]
    ok_once = len(apps) == 1 and not any(isinstance(st, ast.If) for st, part in enclosing(ctx.prog, fn, apps[0][1])
                                          if st is not lp.ast and any(s2 is lp.ast for s2, _ in enclosing(ctx.prog, fn, st)))
    ctx.check(ok_once, "C16.REWRITE", f"{fn.qual}/one-line-per-record", fn.loc(lp.ast),
              "exactly one unconditional append per input record", "records can be dropped or duplicated during the rewrite")
    for n, c in apps:
        v = c.args[0] if c.args else None
        ok = isinstance(v, ast.BinOp) and isinstance(v.op, ast.Add) and const_str(v.right) == "\n" and isinstance(v.left, ast.Call) \
            and dotted(v.left.func) in ("json.dumps", "stable_json_dumps") and kwarg(v.left, "indent") is None
        ctx.check(ok, "C16.REWRITE", f"{fn.qual}/line-shape", fn.loc(c), "each record becomes json.dumps(rec)+'\\n' (single line)",
                  f"rewritten line is `{src(v)[:60] if v is not None else ''}`")
    aw = find_calls(ctx, fn, lambda c, nm: nm.endswith(":atomic_write_text") or nm.endswith(":atomic_write_bytes"))
    ctx.check(len(aw) == 1, "C16.REWRITE", f"{fn.qual}/atomic", fn.loc(), "the payload is written once through atomic_write_text",
              "rewrite does not go through the atomic write path exactly once")
    for n, c in aw:
        inl = rd.inline(c.args[1], n) if len(c.args) > 1 else None
        def is_join(e):
            return isinstance(e, ast.Call) and isinstance(e.func, ast.Attribute) and e.func.attr == "join" and const_str(e.func.value) == ""
        ok = is_join(inl)
        if not ok and len(c.args) > 1 and isinstance(c.args[1], ast.Name):
            # the joined text, possibly re-encoded in place (x = x.encode(.., handler).decode(..)): still every line, in order
            nm = c.args[1].id
            ds = [d for d in rd.all_defs if d.name == nm and d.value is not None]
            recode = lambda e: isinstance(e, ast.Call) and isinstance(e.func, ast.Attribute) and e.func.attr == "decode" and isinstance(e.func.value, ast.Call) \
                and isinstance(e.func.value.func, ast.Attribute) and e.func.value.func.attr == "encode" and src(e.func.value.func.value) == nm
            ok = any(is_join(d.value) for d in ds) and all(is_join(d.value) or recode(d.value) for d in ds)
        ctx.check(ok, "C16.REWRITE", f"{fn.qual}/payload-join", fn.loc(c), "payload is ''.join(lines)", f"payload is `{src(inl)[:50] if inl is not None else ''}`")


def rule_rewrite_bytes(ctx) -> None:
    """what rewrite_jsonl joins is what reaches the file: inside atomic_write_text the text is only re-terminated.  json.dumps
    escapes every control character (also with ensure_ascii=False), so a `.replace` whose *search* string consists of control
    characters and whose replacement still contains the LF can only touch the terminators the writer added.  Anything else -
    `str.splitlines()` (which also splits on U+0085 / U+2028 / U+2029, legal raw inside a JSON string), strip, a regex - can
    cut or alter a record: compaction then no longer keeps one complete line per record."""
    rw = ctx.func(LOGMOD + ":rewrite_jsonl")
    aw = find_calls(ctx, rw, lambda c, nm: nm.endswith(":atomic_write_text"))
    if not aw:
        raise AnalysisError("anchor-vanished: rewrite_jsonl no longer calls atomic_write_text")
    call = aw[0][1]
    r = ctx.prog.callee(rw, call)
    fn = ctx.func(r[1])
    rd = ctx.rd(fn)
    tparam = fn.params[1]
    # constant arguments of the call (newline='\n', encoding='utf-8')
    passed = {k.arg: k.value.value for k in call.keywords if k.arg and isinstance(k.value, ast.Constant)}

    def ctrl_only(v) -> bool:
        return isinstance(v, str) and v != "" and all(ord(ch) < 0x20 for ch in v)

    def value_of(e: ast.AST):
        if isinstance(e, ast.Constant):
            return e.value
        if isinstance(e, ast.Name) and e.id in passed:
            return passed[e.id]
        return None

    n_tr = 0
    names = {tparam}
    for d in rd.all_defs:
        if d.name != tparam or d.kind in ("param",):
            continue
        n_tr += 1
        v = d.value
        key = ctx.okey(f"{fn.qual}/text-transform-keeps-records")
        where = fn.loc(d.node.ast)
        if d.kind == "aug" and isinstance(d.node.ast, ast.AugAssign) and isinstance(d.node.ast.op, ast.Add) and ctrl_only(value_of(d.node.ast.value)) and "\n" in value_of(d.node.ast.value):
            ctx.holds("C16.REWRITE", key, where, "a terminator is appended")
            continue
        ok = isinstance(v, ast.Call)
        cur = v
        while ok and isinstance(cur, ast.Call):  # a chain of .replace(ctrl, ctrl-with-LF) calls on the payload
            if not (isinstance(cur.func, ast.Attribute) and cur.func.attr == "replace" and len(cur.args) == 2):
                ok = False
                break
            a, b = value_of(cur.args[0]), value_of(cur.args[1])
            ok = ctrl_only(a) and isinstance(b, str) and "\n" in b and ctrl_only(b)
            cur = cur.func.value
        ok = ok and isinstance(cur, ast.Name) and cur.id == tparam
        if ok:
            ctx.holds("C16.REWRITE", key, where, f"`{src(v)[:50]}` rewrites control characters only (never raw inside a JSON record) and keeps the LF")
        else:
            ctx.violation("C16.REWRITE", key, where,
                          f"`{src(d.node.ast)[:70]}` transforms the payload between rewrite_jsonl and the file by something other than a control-character `.replace` that keeps the LF: "
                          "e.g. str.splitlines() also breaks at U+0085 / U+2028 / U+2029, which json.dumps(ensure_ascii=False) leaves raw inside string values, so a compacted record is "
                          "cut into two incomplete lines")
    sinks = find_calls(ctx, fn, lambda c, nm: nm.endswith(":atomic_write_bytes"))
    ctx.floor("C16.REWRITE", "byte sinks of atomic_write_text", len(sinks), 1)
    for n, c in sinks:
        a = c.args[1] if len(c.args) > 1 else None
        ok = isinstance(a, ast.Call) and isinstance(a.func, ast.Attribute) and a.func.attr == "encode" and isinstance(a.func.value, ast.Name) and a.func.value.id == tparam
        ctx.check(ok, "C16.REWRITE", f"{fn.qual}/bytes-are-the-text", fn.loc(c), "the bytes written are text.encode(encoding) of the re-terminated payload",
                  f"the bytes handed to atomic_write_bytes are `{src(a)[:50] if a is not None else ''}`, not the encoded payload")
    ctx.floor("C16.REWRITE", "rebindings of the payload inside atomic_write_text", n_tr, 1)


# -------------------------------------------------------------------- ROT
def _fmt_parts(e: ast.AST):
    """f-string -> list of ('s', text) / ('v', expr)"""
    if isinstance(e, ast.JoinedStr):
        out = []
        for v in e.values:
            if isinstance(v, ast.Constant):
                out.append(("s", str(v.value)))
            elif isinstance(v, ast.FormattedValue):
                out.append(("v", v.value))
        return out
    return None


def _unwrap_path(e: ast.AST) -> ast.AST:
    while isinstance(e, ast.Call) and dotted(e.func) in ("Path", "str", "pathlib.Path", "os.fspath") and len(e.args) == 1:
        e = e.args[0]
    return e


def rule_rot(ctx) -> None:
    fn = ctx.func("clematis.scripts.rotate_logs:rotate_one")
    cfg = ctx.cfg(fn)
    rd = ctx.rd(fn)
    path_p, backups_p = fn.params[0], fn.params[1]
    ops = []
    for o in file_ops(ctx, fn):
        if o.kind in ("mkdir", "open-r"):
            continue
        ops.append((o.node, o.call, o.kind, o.extra, o.target))
    for n, c in find_calls(ctx, fn, lambda c, nm: nm.endswith(":atomic_replace")):
        ops.append((n, c, "rename", arg(c, 0), arg(c, 1)))
    ctx.floor("C16.ROT", "file operations in rotate_one", len(ops), 3)

    def gen_of(e, at):
        """('base',) for path, ('gen', expr) for f'{path}.{expr}'"""
        e = _unwrap_path(rd.inline(_unwrap_path(e), at))
        if isinstance(e, ast.Name) and e.id == path_p:
            return ("base", None)
        ps = _fmt_parts(e)
        if ps and len(ps) == 3 and ps[0][0] == "v" and isinstance(ps[0][1], ast.Name) and ps[0][1].id == path_p and ps[1] == ("s", "."):
            return ("gen", ps[2][1] if ps[2][0] == "v" else ast.Constant(value=ps[2][1]))
        if ps and len(ps) == 2 and ps[0][0] == "v" and isinstance(ps[0][1], ast.Name) and ps[0][1].id == path_p and ps[1][0] == "s" and ps[1][1].startswith("."):
            return ("gen", ast.Constant(value=ps[1][1][1:]))
        return ("other", e)

    removes, cascades, finals = [], [], []
    for n, c, kind, a_src, a_dst in ops:
        key = f"{fn.qual}/{kind}:{src(c)[:40]}"
        if kind in ("unlink", "remove"):
            g = gen_of(a_dst, n)
            ok = g[0] == "gen" and src(g[1]) == backups_p
            ctx.check(ok, "C16.ROT", key, fn.loc(c), "the only deletion is of the oldest generation path.<backups>",
                      f"rotation deletes {src(a_dst)} which is not the oldest generation")
            removes.append(n)
        elif kind in ("rename", "replace"):
            gs, gd = gen_of(a_src, n), gen_of(a_dst, n)
            if gs[0] == "base" and gd[0] == "gen" and src(gd[1]) in ("1", "'1'"):
                finals.append(n)
                ctx.holds("C16.ROT", key, fn.loc(c), "live file is renamed to path.1")
            elif gs[0] == "gen" and gd[0] == "gen":
                k = src(gs[1])
                ok = src(gd[1]).replace(" ", "") in (f"{k}+1", f"1+{k}")
                ctx.check(ok, "C16.ROT", key, fn.loc(c), f"cascade step path.{k} -> path.({k}+1)",
                          f"cascade renames path.{k} -> path.{src(gd[1])}: generations are not shifted by exactly one")
                cascades.append((n, c, gs[1]))
            else:
                ctx.violation("C16.ROT", key, fn.loc(c), f"unexpected rename in rotation: {src(c)[:70]}")
        elif kind == "rename-from":
            continue
        else:
            ctx.violation("C16.ROT", key, fn.loc(c), f"rotation performs a non-rename operation {kind}: {src(c)[:60]} (copy/truncate can lose or duplicate content)")
    if not cascades or not finals:
        ctx.violation("C16.ROT", f"{fn.qual}/shape", fn.loc(), "rotation lacks the cascade or the final path -> path.1 rename")
        return
    # cascade direction: k strictly descending
    for n, c, kexpr in cascades:
        lp = None
        for st, part in enclosing(ctx.prog, fn, c):
            if isinstance(st, ast.For) and part == "body":
                lp = st
                break
        okd = False
        why = "cascade rename is not inside a for loop"
        if lp is not None:
            it = lp.iter
            why = f"cascade iterates `{src(it)}`"
            if isinstance(it, ast.Call) and dotted(it.func) == "range" and len(it.args) == 3:
                step = it.args[2]
                neg = isinstance(step, ast.UnaryOp) and isinstance(step.op, ast.USub) and isinstance(step.operand, ast.Constant) and step.operand.value == 1
                start_ok = src(it.args[0]).replace(" ", "") == f"{backups_p}-1"
                # ... or from just below the first free slot (an interrupted rotation leaves a gap; generations above it stay)
                a0 = it.args[0]
                if not start_ok and isinstance(a0, ast.BinOp) and isinstance(a0.op, ast.Sub) and isinstance(a0.left, ast.Name) and isinstance(a0.right, ast.Constant) and a0.right.value == 1:
                    hn = (cfg.nodes_of(lp) or [None])[0]
                    ds = [d for d in rd.reaching(a0.left.id, hn) if d.kind != "mutate"] if hn is not None else []
                    def slot_def(d):
                        if d.value is None:
                            return False
                        if isinstance(d.value, ast.Name) and d.value.id == backups_p:
                            return True  # every slot is taken
                        if isinstance(d.value, ast.Name):  # top = k inside `for k in range(1, backups + 1): if not exists(path.k)`
                            for st, part in enclosing(ctx.prog, fn, d.node.ast):
                                if isinstance(st, ast.For) and isinstance(st.target, ast.Name) and st.target.id == d.value.id and isinstance(st.iter, ast.Call) and dotted(st.iter.func) == "range" \
                                        and len(st.iter.args) == 2 and isinstance(st.iter.args[0], ast.Constant) and st.iter.args[0].value == 1 and src(st.iter.args[1]).replace(" ", "") == f"{backups_p}+1":
                                    return any((not pol) and "exists(" in t for t, pol in cfg.facts(d.node))
                        return isinstance(d.value, ast.Constant) and d.value.value is None and any(x.kind == "assign" and x is not d for x in ds)
                    start_ok = bool(ds) and all(slot_def(d) for d in ds)
                stop_ok = isinstance(it.args[1], ast.Constant) and it.args[1].value == 0
                okd = neg and start_ok and stop_ok
            elif isinstance(it, ast.Call) and dotted(it.func) == "reversed" and len(it.args) == 1:
                r = it.args[0]
                if isinstance(r, ast.Call) and dotted(r.func) == "range" and len(r.args) == 2:
                    okd = isinstance(r.args[0], ast.Constant) and r.args[0].value == 1 and src(r.args[1]) == backups_p
        ctx.check(okd, "C16.ROT", f"{fn.qual}/cascade-descending", fn.loc(c),
                  "cascade runs k = backups-1 … 1 strictly descending (oldest first): no generation is overwritten before it has moved",
                  f"{why}: not strictly descending from backups-1 to 1, a younger generation overwrites an older one that has not moved yet")
    # the oldest generation is dropped only when there is no free slot: after an interrupted rotation (gap below it) an
    # unconditional delete would lose a generation that is not the oldest
    for r in removes:
        facts = cfg.facts(r)
        guarded = any((pol and t.endswith(" is None")) or ((not pol) and t.endswith(" is not None")) for t, pol in facts)
        in_for_else = any(isinstance(st, ast.For) and part == "orelse" for st, part in enclosing(ctx.prog, fn, r.ast))
        ctx.check(guarded or in_for_else, "C16.ROT", f"{fn.qual}/delete-only-when-full", fn.loc(r.ast),
                  "path.<backups> is deleted only when no backup slot is free",
                  "path.<backups> is deleted unconditionally: after a rotation that was interrupted between cascade steps (a gap below it) the re-run removes a generation that is not the oldest "
                  "although a slot is free")
    # the moved files are real generations, not disposable temp files: a failed move must leave the source in place
    for n, c, kind, a_src, a_dst in ops:
        if kind == "rename" and call_tail(c) == "atomic_replace":
            kw = kwarg(c, "cleanup_tmp")
            ctx.check(isinstance(kw, ast.Constant) and kw.value is False, "C16.ROT", ctx.okey(f"{fn.qual}/failed-move-keeps-source"), fn.loc(c),
                      "atomic_replace(..., cleanup_tmp=False): a failed move leaves the generation where it is",
                      f"`{src(c)[:60]}` hands a live generation to atomic_replace as its disposable temp argument: when the rename fails for good the source is unlinked and its records are in "
                      "neither file")
    # ordering: delete-oldest, then cascade, then live file
    casc_nodes = [n for n, _, _ in cascades]
    for r in removes:
        back = cfg.reach(casc_nodes, include_start=True)
        ctx.check(r not in back, "C16.ROT", f"{fn.qual}/delete-before-cascade", fn.loc(r.ast), "the oldest generation is deleted before the cascade starts",
                  "deletion of the oldest generation is reachable after a cascade step")
    for f in finals:
        fwd = cfg.reach([f], include_start=False)
        ctx.check(not any(cn in fwd for cn in casc_nodes) and not any(r in fwd for r in removes), "C16.ROT", f"{fn.qual}/live-file-last", fn.loc(f.ast),
                  "the live file is renamed last", "a cascade step or deletion is reachable after the live file was renamed")


def rule_sibling_writers_total(ctx) -> None:
    """"every record appended to a JSONL stream appears as exactly one complete line" for every JSONL writer of the engine, not
    only the main append path: the perf streams and the quality trace append JSON lines too.  json.dumps(ensure_ascii=False)
    hands a lone surrogate through, and a text file opened with encoding='utf-8' and the default error handler raises
    UnicodeEncodeError when it is written - the record (and, in a batch write, every record after it) is lost.  Each such
    writer escapes what UTF-8 cannot carry (errors='backslashreplace' on the file, or on the encode), like the main path."""
    n = 0
    for fn in ctx.prog.all_funcs("clematis."):
        dumps = [x for x in walk_no_defs(fn.node) if isinstance(x, ast.Call) and dotted(x.func) == "json.dumps"]
        # ... or in a helper of the same module that the writer calls (`f.write(_stable_json(record) + "\n")`)
        for x in walk_no_defs(fn.node):
            if isinstance(x, ast.Call):
                r = ctx.prog.callee(fn, x)
                if r and r[0] == "func" and r[1] in ctx.prog.funcs and ctx.prog.funcs[r[1]].module is fn.module:
                    dumps += [y for y in walk_no_defs(ctx.prog.funcs[r[1]].node) if isinstance(y, ast.Call) and dotted(y.func) == "json.dumps"]
        if not dumps:
            continue
        for x in walk_no_defs(fn.node):
            if not (isinstance(x, ast.Call) and call_tail(x) == "open"):
                continue
            mode = None
            args = x.args if isinstance(x.func, ast.Attribute) else x.args[1:]
            if args and const_str(args[0]):
                mode = const_str(args[0])
            mk = kwarg(x, "mode")
            if mk is not None and const_str(mk):
                mode = const_str(mk)
            if not mode or "a" not in mode or "b" in mode:
                continue
            # only writers that put the dumped text into this file
            n += 1
            ascii_only = all(kwarg(d, "ensure_ascii") is None or (isinstance(kwarg(d, "ensure_ascii"), ast.Constant) and kwarg(d, "ensure_ascii").value is True) for d in dumps)
            err = kwarg(x, "errors")
            ok = ascii_only or (err is not None and const_str(err) in ("backslashreplace", "surrogateescape", "surrogatepass", "replace", "xmlcharrefreplace"))
            ctx.check(ok, "C16.LINE", ctx.okey(f"{fn.qual}/appended-text-is-encodable"), fn.loc(x), f"`{src(x)[:60]}` escapes what UTF-8 cannot carry",
                      f"`{src(x)[:60]}` appends json.dumps(..., ensure_ascii=False) text to a UTF-8 file with the strict error handler: a record holding a lone surrogate raises UnicodeEncodeError - it is "
                      "not written (or silently dropped by the caller's handler), and in a batch write the healthy records after it are lost, where the main append path writes the JSON escape")
    ctx.floor("C16.LINE", "text-mode JSONL append sites outside the main path", n, 2)


def rule_rot_needs_a_live_file(ctx) -> None:
    """"without losing any but the oldest": a rotation drops the oldest generation to make room for a NEW one - the live file.
    Every destructive step of rotate_one (the removal of path.<backups>, the moves of the cascade) is reachable only where the
    live file is known to exist; run on a missing live file (twice in a row, a second rotator that lost the race) it would
    otherwise delete a generation for nothing and leave slot .1 empty."""
    fn = ctx.func("clematis.scripts.rotate_logs:rotate_one")
    cfg = ctx.cfg(fn)
    path_p = fn.params[0]
    destructive = [(n, c) for n in cfg.nodes for c in node_calls(n) if (call_tail(c) in ("remove", "unlink") or call_tail(c) in ("atomic_replace", "replace", "rename", "move"))
                   and not (isinstance(c.func, ast.Attribute) and isinstance(c.func.value, ast.Constant)) and dotted(c.func) != "str.replace"]
    ctx.floor("C16.ROT", "destructive steps of rotate_one", len(destructive), 3)
    for n, c in destructive:
        known = any(pol and t.replace(" ", "") == f"os.path.exists({path_p})" for t, pol in cfg.facts(n)) or \
            any((not pol) and t.replace(" ", "") == f"notos.path.exists({path_p})" for t, pol in cfg.facts(n)) or \
            any(pol and t.replace(" ", "") in (f"os.path.isfile({path_p})", f"Path({path_p}).exists()") for t, pol in cfg.facts(n))
        ctx.check(known, "C16.ROT", ctx.okey(f"{fn.qual}/destructive-step-needs-the-live-file"), fn.loc(c), f"`{src(c)[:40]}` runs only where the live file exists",
                  f"`{src(c)[:40]}` is reachable without the live file being there: with every slot taken and no live file the oldest generation is deleted and the others are shifted although no new "
                  "generation arrives - N-1 generations are left and slot .1 is empty")


def rule_rot_failed_move_stops(ctx) -> None:
    """"rotation keeps the newest N generations in order without losing any but the oldest": the cascade moves path.k to
    path.(k+1) from the oldest down, and each move overwrites its destination.  If a move fails for any reason other than "the
    source is not there", the generation stays at path.k - and the NEXT step (path.(k-1) -> path.k, or the live file -> path.1)
    would overwrite it.  So the only failure a cascade step may swallow is FileNotFoundError; anything else must leave the
    cascade (propagate, return or break)."""
    fn = ctx.func("clematis.scripts.rotate_logs:rotate_one")
    n_moves = 0
    for x in walk_no_defs(fn.node):
        if not (isinstance(x, ast.Call) and call_tail(x) in ("atomic_replace", "replace", "rename", "move")):
            continue
        if dotted(x.func) in ("str.replace",) or (isinstance(x.func, ast.Attribute) and isinstance(x.func.value, ast.Constant)):
            continue
        n_moves += 1
        for st, part in enclosing(ctx.prog, fn, x):
            if not (isinstance(st, ast.Try) and part == "body"):
                continue
            for h in st.handlers:
                names = {"*"} if h.type is None else {src(e).split(".")[-1] for e in (h.type.elts if isinstance(h.type, ast.Tuple) else [h.type])}
                leaves = any(isinstance(y, (ast.Raise, ast.Return, ast.Break)) for b in h.body for y in ast.walk(b))
                # a broad handler that re-raises everything but FileNotFoundError is fine; one that merely warns is not
                guarded_reraise = any(isinstance(y, ast.If) and "FileNotFoundError" in src(y.test) and any(isinstance(z, ast.Raise) for b in (y.body + y.orelse) for z in ast.walk(b)) for b0 in h.body for y in ast.walk(b0))
                broad = bool(names - {"FileNotFoundError"})
                ctx.check(not broad or leaves or guarded_reraise, "C16.ROT", ctx.okey(f"{fn.qual}/failed-move-stops-the-cascade"), fn.loc(h),
                          "a cascade step swallows FileNotFoundError only",
                          f"the handler `except {', '.join(sorted(names))}` around `{src(x)[:50]}` swallows failures other than a missing source and the cascade goes on: the generation that could not be "
                          "moved is overwritten by the next step, so a generation that is not the oldest is lost")
    ctx.floor("C16.ROT", "moves of the rotation cascade", n_moves, 2)


def run(ctx) -> None:
    rule_line(ctx)
    rule_line_total(ctx)
    rule_norm(ctx)
    rule_order(ctx)
    rule_rewrite(ctx)
    rule_rewrite_bytes(ctx)
    rule_rot(ctx)
    rule_sibling_writers_total(ctx)
    rule_rot_needs_a_live_file(ctx)
    rule_rot_failed_move_stops(ctx)
