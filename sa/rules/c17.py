"""C17 Scheduling is deterministic, starvation-free and budgets bind."""
from __future__ import annotations

import ast
from typing import Dict, List, Optional, Set, Tuple

from ..effects import Effects
from ..model import AnalysisError, Func, const_str, dotted, kwarg, src, walk_no_defs
from ..util import call_tail, find_calls, node_calls

EXPLANATION = (
    "C17 decided statically: (PURE) next_turn mutates neither the scheduler state nor the fairness config and reads no "
    "clock/RNG/environment other than the injected ctx.now_ms(); (ELIG) every agent returned by next_turn is drawn from the "
    "eligibility-filtered list (consec < allowance), or is min(queue) together with RESET_CONSEC exactly where that list is "
    "empty, or '' for an empty queue; on_yield stamps last_ran from the injected clock, adds exactly 1 to the agent's counter "
    "and zeroes every counter on reset; (PREC) in _should_yield the WALL_MS return precedes every BUDGET_* return which "
    "precede QUANTUM_EXCEEDED on every path; (BOUNDARY) _should_yield is called only from run_turn, each call site follows "
    "the stage named in its event, and every yield return is preceded by the scheduler event and the yielded turn record; "
    "(CLAMP) per-slice caps reach the stage guards only through min()/slice clamps (T1 pops and layers, T2 hits used, T3 "
    "ops). Not decided: the starvation bound 2(n-1)a+1 - a liveness property of infinite histories (model checking)."
)
RULES = {
    "C17.PURE": "effect analysis of scheduler.next_turn (+ callees)",
    "C17.ELIG": "provenance of the first component of every return of next_turn; store shapes of on_yield",
    "C17.PREC": "dominance order of the reason returns of _should_yield",
    "C17.BOUNDARY": "who-may-call of _should_yield; stage-call dominance per call site; must-precede of the yield records",
    "C17.CLAMP": "def-use: slice caps flow into min()/slice bounds that define the stage guards",
}

SCHED = "clematis.engine.scheduler"
CORE = "clematis.engine.orchestrator.core"
RUN_TURN = CORE + ":Orchestrator.run_turn"


def rule_pure(ctx) -> None:
    fn = ctx.func(SCHED + ":next_turn")
    ef = Effects(ctx, depth=4)
    effs = ef.of(fn)
    bad = [e for e in effs if (e.kind in ("mutate", "global-write") and e.origin not in ("fresh", "unknown")) or e.kind in ("io", "nondet", "env", "io-read")]
    if not bad:
        ctx.holds("C17.PURE", f"{fn.qual}/effects", fn.loc(), "no store into sched / fairness_cfg / globals; no clock, RNG, env or I/O (time comes from ctx.now_ms())")
    for e in bad:
        ctx.violation("C17.PURE", f"{fn.qual}/{e.kind}:{e.origin}:{e.desc[:40]}", e.where, f"agent selection is not a pure function of (state, clock, policy): {e.fmt()}")
    # the clock accessor reads only ctx.now_ms
    nm = ctx.func(SCHED + ":_now_ms")
    attrs = {const_str(c.args[1]) for c in walk_no_defs(nm.node) if isinstance(c, ast.Call) and dotted(c.func) == "getattr" and len(c.args) >= 2}
    ctx.check(attrs == {"now_ms"}, "C17.PURE", f"{nm.qual}/injected-clock", nm.loc(), "the clock accessor reads ctx.now_ms only", f"clock accessor reads {sorted(a for a in attrs if a)}")


def _elig_comp(fn: Func) -> Optional[Tuple[str, ast.ListComp]]:
    for x in walk_no_defs(fn.node):
        if isinstance(x, ast.Assign) and isinstance(x.value, ast.ListComp) and len(x.targets) == 1 and isinstance(x.targets[0], ast.Name):
            g = x.value.generators[0]
            for c in g.ifs:
                if isinstance(c, ast.Compare) and len(c.ops) == 1 and isinstance(c.ops[0], ast.Lt) and "consec_turns" in src(c.left):
                    return x.targets[0].id, x.value
    return None


def rule_elig(ctx) -> None:
    fn = ctx.func(SCHED + ":next_turn")
    cfg = ctx.cfg(fn)
    rd = ctx.rd(fn)
    ec = _elig_comp(fn)
    if ec is None:
        ctx.violation("C17.ELIG", f"{fn.qual}/eligible-filter", fn.loc(),
                      "no list of agents filtered by consec_turns < max_consecutive_turns: the consecutive-turn allowance is not enforced")
        return
    elig, comp = ec
    g = comp.generators[0]
    qname = src(g.iter)
    cmp_ = [c for c in g.ifs if isinstance(c, ast.Compare)][0]
    mct = src(cmp_.comparators[0])
    mdefs = [d for d in rd.all_defs if d.name == mct]
    ctx.check(bool(mdefs) and all(d.value is not None and "max_consecutive_turns" in src(d.value) for d in mdefs), "C17.ELIG", f"{fn.qual}/allowance-source", fn.loc(comp),
              f"eligible = [a in {qname} if consec_turns[a] < {mct}] with {mct} read from fairness.max_consecutive_turns",
              f"the allowance `{mct}` is not read from fairness.max_consecutive_turns")
    rets = [n for n in cfg.nodes if n.kind == "stmt" and isinstance(n.ast, ast.Return) and n in cfg.reachable_from_entry()]
    ctx.floor("C17.ELIG", "returns of next_turn", len(rets), 3)
    for r in rets:
        v = r.ast.value
        if not (isinstance(v, ast.Tuple) and len(v.elts) == 3):
            ctx.violation("C17.ELIG", f"{fn.qual}/return-shape:{src(v)[:30]}", fn.loc(r.ast), "return is not (agent, budgets, reason)")
            continue
        agent, _, reason = v.elts
        facts = cfg.facts(r)
        key = f"{fn.qual}/pick:{src(agent)[:30]}|{src(reason)[:24]}"
        # follow a local name
        cands: List[ast.AST] = []

        def expand(e: ast.AST, at, depth=0):
            if isinstance(e, ast.BoolOp) and isinstance(e.op, ast.Or):
                for x in e.values:
                    expand(x, at, depth)
                return
            if isinstance(e, ast.Name) and depth < 4:
                ds = [d for d in rd.reaching(e.id, at) if d.kind != "mutate"]
                if ds and all(d.kind in ("assign", "for") for d in ds):
                    for d in ds:
                        if d.kind == "for":
                            cands.append(ast.Subscript(value=d.value, slice=ast.Constant(value="*"), ctx=ast.Load()))
                        elif isinstance(d.value, ast.Constant) and d.value.value is None:
                            continue  # `best = None` initialiser, overwritten in the loop
                        else:
                            expand(d.value, d.node, depth + 1)
                    return
            cands.append(e)

        def draws_from_queue(hq: str, depth=0) -> Optional[str]:
            """a helper all of whose returns are '' / an element of <param>["queue"] (directly, through a loop variable, or through
            another such helper applied to the same parameter): the name of that parameter"""
            h = ctx.prog.funcs.get(hq)
            if h is None or depth > 2 or not h.params:
                return None
            P = h.params[0]
            hrd = ctx.rd(h)
            hcfg = ctx.cfg(h)
            okh = True
            n_ret = 0
            for hn in hcfg.nodes:
                if hn.kind != "stmt" or not isinstance(hn.ast, ast.Return) or hn.ast.value is None:
                    continue
                n_ret += 1
                vals = [hn.ast.value]
                while vals:
                    v = vals.pop()
                    if isinstance(v, ast.IfExp):
                        vals += [v.body, v.orelse]
                    elif isinstance(v, ast.BoolOp):
                        vals += list(v.values)
                    elif isinstance(v, ast.Constant) and v.value == "":
                        pass
                    elif isinstance(v, ast.Subscript) and src(v.value).replace("'", '"') == f'{P}["queue"]':
                        pass
                    elif isinstance(v, ast.Name):
                        ds = [d for d in hrd.reaching(v.id, hn) if d.kind != "mutate"]
                        for d in ds:
                            if d.kind == "for" and d.value is not None and src(d.value).replace("'", '"') == f'{P}["queue"]':
                                continue
                            if d.value is not None and isinstance(d.value, ast.Constant) and d.value.value is None:
                                continue
                            if d.value is not None and isinstance(d.value, ast.Name):
                                vals.append(d.value)
                                continue
                            okh = False
                    elif isinstance(v, ast.Call):
                        rr = ctx.prog.callee(h, v)
                        if not (rr and v.args and isinstance(v.args[0], ast.Name) and v.args[0].id == P and draws_from_queue(rr[1], depth + 1)):
                            okh = False
                    else:
                        okh = False
            return P if okh and n_ret else None

        def through_helper(e: ast.AST, at) -> Optional[ast.AST]:
            if not (isinstance(e, ast.Call) and e.args and isinstance(e.args[0], ast.Name)):
                return None
            rr = ctx.prog.callee(fn, e)
            if not rr or draws_from_queue(rr[1]) is None:
                return None
            a0 = e.args[0].id
            if a0 in fn.params:
                return ast.Subscript(value=ast.Name(id=qname, ctx=ast.Load()), slice=ast.Constant(value="*"), ctx=ast.Load())
            ds = [d for d in rd.reaching(a0, at) if d.kind == "assign" and isinstance(d.value, ast.Dict)]
            if len(ds) == 1:
                for k0, v0 in zip(ds[0].value.keys, ds[0].value.values):
                    if k0 is not None and const_str(k0) == "queue":
                        return ast.Subscript(value=v0, slice=ast.Constant(value="*"), ctx=ast.Load())
            return None

        def draws_from_list_param(e: ast.AST) -> Optional[ast.AST]:
            """extract-function refactor: `helper(.., eligible, ..)` where every return of helper is None / '' or a name bound only
            by `for <name> in <that parameter>` (or initialised to None): an element of `eligible` (or a falsy nothing)"""
            if not isinstance(e, ast.Call):
                return None
            rr = ctx.prog.callee(fn, e)
            h = ctx.prog.funcs.get(rr[1]) if rr and rr[0] == "func" else None
            if h is None:
                return None
            idx = [i for i, a in enumerate(e.args) if isinstance(a, ast.Name) and a.id == elig]
            if len(idx) != 1 or idx[0] >= len(h.params):
                return None
            P = h.params[idx[0]]
            hrd, hcfg = ctx.rd(h), ctx.cfg(h)
            if any(d.name == P and d.kind != "param" for d in hrd.all_defs):
                return None
            n_ret = 0
            for hn in hcfg.nodes:
                if hn.kind != "stmt" or not isinstance(hn.ast, ast.Return) or hn.ast.value is None:
                    continue
                n_ret += 1
                v = hn.ast.value
                if isinstance(v, ast.Constant) and v.value in (None, ""):
                    continue
                if not isinstance(v, ast.Name):
                    return None
                for d in [d for d in hrd.reaching(v.id, hn) if d.kind != "mutate"]:
                    if d.kind == "for" and d.value is not None and src(d.value) == P:
                        continue
                    if d.value is not None and isinstance(d.value, ast.Constant) and d.value.value is None:
                        continue
                    if d.kind == "assign" and isinstance(d.value, ast.Name):
                        ds2 = [x for x in hrd.reaching(d.value.id, d.node) if x.kind != "mutate"]
                        if ds2 and all(x.kind == "for" and x.value is not None and src(x.value) == P for x in ds2):
                            continue
                    return None
            if not n_ret:
                return None
            return ast.Subscript(value=ast.Name(id=elig, ctx=ast.Load()), slice=ast.Constant(value="*"), ctx=ast.Load())

        expand(agent, r)
        cands = [through_helper(c, r) or draws_from_list_param(c) or c for c in cands]
        ok = True
        why = []
        for c in cands:
            s = src(c)
            if isinstance(c, ast.Constant) and c.value == "":
                if not ((f"not {qname}", True) in facts or (qname, False) in facts):
                    ok = False
                    why.append("'' returned although the queue is not known to be empty")
                continue
            if isinstance(c, ast.Subscript) and src(c.value) == elig:
                continue  # eligible[0] / element of eligible
            if isinstance(c, ast.Call) and dotted(c.func) == "min" and len(c.args) == 1 and src(c.args[0]) == qname:
                reset = const_str(reason) == "RESET_CONSEC"
                empty = (f"not {elig}", True) in facts or (elig, False) in facts
                if not (reset and empty):
                    ok = False
                    why.append(f"min({qname}) returned without (eligible empty and RESET_CONSEC)")
                continue
            ok = False
            why.append(f"`{s}` is neither drawn from `{elig}` nor min({qname})")
        if const_str(reason) == "RESET_CONSEC":
            if not any(isinstance(c, ast.Call) and dotted(c.func) == "min" for c in cands):
                ok = False
                why.append("the all-saturated pick is not the lexicographically first agent min(queue)")
        ctx.check(ok, "C17.ELIG", key, fn.loc(r.ast), f"returned agent `{src(agent)}` is drawn from `{elig}` / min({qname}) on reset / '' on empty queue",
                  "; ".join(why) or "pick provenance not established")
    # on_yield
    oy = ctx.func(SCHED + ":on_yield")
    ocfg = ctx.cfg(oy)
    ord_ = ctx.rd(oy)
    zero = [n for n in ocfg.nodes if n.kind == "stmt" and isinstance(n.ast, ast.Assign) and isinstance(n.ast.value, ast.Constant) and n.ast.value.value == 0
            and any("consec_turns" in src(t) for t in n.ast.targets)]
    okz = False
    for n in zero:
        facts = ocfg.facts(n)
        in_loop = any(isinstance(st, ast.For) and "consec_turns" in src(st.iter) for st in walk_no_defs(oy.node) if isinstance(st, ast.For) and any(x is n.ast for x in ast.walk(st)))
        if ("reset", True) in facts and in_loop:
            okz = True
    ctx.check(okz, "C17.ELIG", f"{oy.qual}/reset-zeroes-all", oy.loc(), "reset=True zeroes the counter of every agent",
              "on_yield(reset=True) does not zero every consecutive-turn counter")
    inc = [n for n in ocfg.nodes if n.kind == "stmt" and isinstance(n.ast, ast.AugAssign) and "consec_turns" in src(n.ast.target)]
    okinc = len(inc) == 1 and isinstance(inc[0].ast.op, ast.Add) and isinstance(inc[0].ast.value, ast.Constant) and inc[0].ast.value.value == 1 \
        and "agent_id" in src(inc[0].ast.target)
    ctx.check(okinc, "C17.ELIG", f"{oy.qual}/increment-by-one", oy.loc(), "the yielding agent's counter is incremented by exactly 1",
              "the consecutive-turn counter is not incremented by exactly one for the yielding agent")
    st = [n for n in ocfg.nodes if n.kind == "stmt" and isinstance(n.ast, ast.Assign) and any("last_ran_ms" in src(t) for t in n.ast.targets)]
    okl = bool(st) and all(isinstance(n.ast.value, ast.Name) and (ord_.unique_value(n.ast.value.id, n) or (None,))[0] is not None
                            and "_now_ms" in src(ord_.unique_value(n.ast.value.id, n)[0]) for n in st)
    ctx.check(okl, "C17.ELIG", f"{oy.qual}/last-ran-from-clock", oy.loc(), "last_ran_ms is stamped from the injected clock", "last_ran_ms is not stamped from _now_ms(ctx)")


def _rank(s: str) -> Optional[int]:
    if s == "WALL_MS":
        return 0
    if s.startswith("BUDGET_"):
        return 1
    if s == "QUANTUM_EXCEEDED":
        return 2
    return None


def rule_prec(ctx) -> None:
    fn = ctx.func(CORE + ":_should_yield")
    cfg = ctx.cfg(fn)
    rets = []
    for n in cfg.nodes:
        if n.kind == "stmt" and isinstance(n.ast, ast.Return) and n in cfg.reachable_from_entry():
            s = const_str(n.ast.value) if n.ast.value is not None else None
            if s is not None and _rank(s) is not None:
                rets.append((n, s, _rank(s)))
    kinds = {r for _, _, r in rets}
    if kinds != {0, 1, 2}:
        raise AnalysisError(f"anchor-vanished: _should_yield returns {sorted(s for _, s, _ in rets)}")
    ctx.floor("C17.PREC", "reason returns of _should_yield", len(rets), 6)
    # the branch node that guards each return (innermost dominating T branch)
    def guard_branch(n):
        gs = [(t, p, b) for t, p, b in cfg.guards(n) if p]
        return gs[-1] if gs else None

    for n, s, rk in rets:
        bad = None
        for m, s2, rk2 in rets:
            if rk2 < rk:
                g = guard_branch(m)
                if g is None:
                    continue
                test = g[0]
                # n must lie under the False branch of m's test
                if not any(t is test and not p for t, p, b in cfg.guards(n)):
                    bad = (s2, src(test)[:50])
        ctx.check(bad is None, "C17.PREC", f"{fn.qual}/precedence:{s}", fn.loc(n.ast),
                  f"`{s}` is returned only after every higher-precedence test failed",
                  f"`{s}` can be returned without `{bad[0]}` having been tested first (its test `{bad[1]}` does not dominate): reason precedence wall > budget > quantum is broken" if bad else "")
    # the wall test compares elapsed ms with budgets['wall_ms']; quantum with quantum_ms
    rd = ctx.rd(fn)
    b_names = {d.name for d in rd.all_defs if d.kind == "assign" and d.value is not None and isinstance(d.value, ast.Subscript) and const_str(d.value.slice) == "budgets"} or {"budgets"}
    consumed_p = fn.params[1] if len(fn.params) > 1 else "consumed"
    e_names = {d.name for d in rd.all_defs if d.kind == "assign" and d.value is not None and any(const_str(z) == "ms" for z in ast.walk(d.value))}
    for n, s, rk in rets:
        g = guard_branch(n)
        gt = rd.inline(g[0], g[2].pred[0][0], stop=tuple(b_names | {consumed_p} | e_names)) if g else None
        t = src(gt) if gt is not None else ""
        if rk == 0:
            ctx.check("wall_ms" in t and ">=" in t, "C17.PREC", f"{fn.qual}/wall-test", fn.loc(n.ast), f"WALL_MS under `{t[:60]}`", f"WALL_MS is guarded by `{t[:60]}`")
        if rk == 2:
            ctx.check("quantum_ms" in t and ">=" in t, "C17.PREC", f"{fn.qual}/quantum-test", fn.loc(n.ast), f"QUANTUM_EXCEEDED under `{t[:60]}`", f"QUANTUM_EXCEEDED is guarded by `{t[:60]}`")
        if rk == 1:
            want = s[len("BUDGET_"):].lower()
            okb = False
            for x in (ast.walk(gt) if gt is not None else []):
                if isinstance(x, ast.Compare) and len(x.ops) == 1 and isinstance(x.ops[0], (ast.Eq, ast.GtE)):
                    ls = {y.value for y in ast.walk(x.left) if isinstance(y, ast.Constant) and isinstance(y.value, str)}
                    rs = {y.value for y in ast.walk(x.comparators[0]) if isinstance(y, ast.Constant) and isinstance(y.value, str)}
                    sides = src(x.left) + "|" + src(x.comparators[0])
                    if ls == {want} and rs == {want} and consumed_p in sides and any(b in sides for b in b_names):
                        okb = True
            ctx.check(okb, "C17.PREC", f"{fn.qual}/budget-test:{s}", fn.loc(n.ast), f"{s} compares consumed[{want}] with budgets[{want}]",
                      f"{s} is guarded by `{t[:70]}`, which does not compare consumed and budget `{want}`")


STAGE_CALLS = {
    "T1": ("t1_propagate",),
    "T2": ("t2_semantic",),
    "T3": ("deliberate", "delib_fn"),
    "T4": ("t4_filter",),
    "Apply": ("apply_changes",),
}


def rule_boundary(ctx) -> None:
    # who may call
    callers = []
    for f in ctx.prog.all_funcs("clematis."):
        for x in walk_no_defs(f.node):
            if isinstance(x, ast.Call) and call_tail(x) == "_should_yield":
                callers.append((f, x))
    outside = [(f, x) for f, x in callers if f.qual != RUN_TURN and not f.module.name.startswith("clematis.scripts")]
    ctx.check(not outside, "C17.BOUNDARY", "who-may-call/_should_yield", outside[0][0].loc(outside[0][1]) if outside else "clematis/engine/orchestrator/core.py",
              f"_should_yield is called only from run_turn ({len(callers)} sites): never from inside a stage",
              f"_should_yield is called from {outside[0][0].qual}: a turn can yield inside a stage" if outside else "")
    fn = ctx.func(RUN_TURN)
    cfg = ctx.cfg(fn)
    rd = ctx.rd(fn)
    sites = find_calls(ctx, fn, lambda c, nm: call_tail(c) == "_should_yield")
    ctx.floor("C17.BOUNDARY", "_should_yield sites in run_turn", len(sites), 5)
    for n, c in sites:
        # the yield block: `if reason:` following this node
        ifs = [m for m in cfg.nodes if m.kind == "cond" and isinstance(m.ast, ast.Name) and cfg.dominates(n, m)
               and any(d.node is n for d in rd.reaching(m.ast.id, m))]
        if not ifs:
            ctx.undecided("C17.BOUNDARY", ctx.okey(f"{fn.qual}/yield-block"), fn.loc(c), "no `if reason:` consuming this decision")
            continue
        cond = ifs[0]
        tb = [t for t, l in cond.succ if l == "T"][0]
        # stage name from the event literal
        stage = None
        for m in cfg.nodes:
            if m.kind == "stmt" and cfg.dominates(tb, m) and isinstance(m.ast, ast.Assign) and isinstance(m.ast.value, ast.Dict):
                for k, v in zip(m.ast.value.keys, m.ast.value.values):
                    if k is not None and const_str(k) == "stage_end":
                        stage = const_str(v)
                if stage:
                    break
        key = f"{fn.qual}/boundary:{stage}"
        if stage not in STAGE_CALLS:
            ctx.violation("C17.BOUNDARY", key, fn.loc(c), f"yield site has no recognised stage_end (got {stage!r})")
            continue
        def is_stage_node(m) -> bool:
            for cc in node_calls(m):
                if call_tail(cc) in STAGE_CALLS[stage]:
                    return True
                # _get_stage_callable("t1_propagate", t1_propagate)(...)
                if isinstance(cc.func, ast.Call) and cc.func.args and const_str(cc.func.args[0]) in STAGE_CALLS[stage]:
                    return True
                # T2 may be served from the turn-level cache: the lookup stands for the stage
                if stage == "T2" and call_tail(cc) == "get" and len(cc.args) == 2 and src(cc.args[0]) == "ns":
                    return True
            return False

        stage_nodes = [m for m in cfg.nodes if is_stage_node(m)]
        p = cfg.path([cfg.entry], lambda t: t is n, avoid=lambda t: t in stage_nodes)
        ok = bool(stage_nodes) and p is None
        ctx.check(ok, "C17.BOUNDARY", key, fn.loc(c), f"the {stage} boundary check is dominated by the {stage} stage call",
                  f"the yield check labelled {stage} is not preceded by that stage on every path")
        # every return under the yield block is preceded by the scheduler event and the yielded turn record
        rets = [m for m in cfg.nodes if m.kind == "stmt" and isinstance(m.ast, ast.Return) and cfg.dominates(tb, m)]
        for r in rets:
            evs = [m for m in cfg.nodes if cfg.dominates(tb, m) and any(call_tail(cc) == "_write_or_capture_scheduler_event" for cc in node_calls(m))]
            turns = []
            for m in cfg.nodes:
                if not cfg.dominates(tb, m):
                    continue
                for cc in node_calls(m):
                    if call_tail(cc) == "_append_jsonl" and cc.args and const_str(cc.args[0]) == "turn.jsonl" and len(cc.args) > 1 and isinstance(cc.args[1], ast.Dict):
                        d = {const_str(k): v for k, v in zip(cc.args[1].keys, cc.args[1].values) if k is not None}
                        if isinstance(d.get("yielded"), ast.Constant) and d["yielded"].value is True and "yield_reason" in d:
                            turns.append(m)
            okr = any(cfg.dominates(e, r) for e in evs) and any(cfg.dominates(t, r) for t in turns)
            ctx.check(okr, "C17.BOUNDARY", f"{fn.qual}/yield-records:{stage}", fn.loc(r.ast),
                      "the yield return is preceded by the scheduler event and a turn.jsonl record with yielded=True and yield_reason",
                      "a yield return is reachable without the scheduler event / yielded turn record")


def rule_charged(ctx) -> None:
    """a stage budget can only trigger a yield if the stage's work is charged to the slice: every `consumed[<budget>] = <metric>`
    feeding a boundary decision runs whenever the stage reported that metric.  The guards between the creation of the consumed
    table and the charge may look only at what the charged value is made of (is the metric there?) - a charge that also
    depends on something else (was the result replayed from a cache? which backend?) lets an exhausted budget pass unnoticed,
    and the quantum test, which comes later in the precedence, reports the yield instead."""
    import builtins
    fn = ctx.func(RUN_TURN)
    cfg = ctx.cfg(fn)
    rd = ctx.rd(fn)
    sites = find_calls(ctx, fn, lambda c, nm: call_tail(c) == "_should_yield")
    n_ch = 0
    for n, c in sites:
        if len(c.args) < 2 or not isinstance(c.args[1], ast.Name):
            continue
        tab = c.args[1].id
        creates = [d for d in rd.reaching(tab, n) if d.kind == "assign" and isinstance(d.value, ast.Dict)]
        if not creates:
            continue
        base = set()
        for d in creates:
            base |= {id(t) for t, _, _ in cfg.guards(d.node)}
        for m in cfg.nodes:
            if m.kind != "stmt" or not isinstance(m.ast, ast.Assign):
                continue
            for t in m.ast.targets:
                if not (isinstance(t, ast.Subscript) and isinstance(t.value, ast.Name) and t.value.id == tab and const_str(t.slice)):
                    continue
                if not any(cfg.dominates(d.node, m) for d in creates) or n not in cfg.reach([m]):
                    continue
                # the charge belongs to this site if no other creation of the table lies between
                if any(d.node is not creates[0].node and d.name == tab and d.kind == "assign" and isinstance(d.value, ast.Dict) and d.node in cfg.reach([m]) and n in cfg.reach([d.node]) for d in rd.all_defs):
                    continue
                n_ch += 1
                sl = rd.slice([m.ast.value], m)
                made_of = sl.names() | sl.free | sl.params
                extra = []
                for test, pol, b in cfg.guards(m):
                    if id(test) in base:
                        continue
                    for y in ast.walk(test):
                        if isinstance(y, ast.Name) and y.id not in made_of and not hasattr(builtins, y.id):
                            extra.append((y.id, test))
                budget = const_str(t.slice)
                ctx.check(not extra, "C17.BOUNDARY", ctx.okey(f"{fn.qual}/work-charged:{budget}"), fn.loc(m.ast), f"consumed[{budget!r}] is charged whenever the stage reported the metric",
                          (f"consumed[{budget!r}] is charged only under `{src(extra[0][1])[:70]}`, which also depends on `{extra[0][0]}` - not on the metric: when that condition fails the slice "
                           f"is not charged, `consumed == budget` cannot hold and BUDGET_{budget.upper()} is never the reason (a later, lower-precedence reason is reported or the turn runs on)") if extra else "")
    ctx.floor("C17.BOUNDARY", "stage-work charges feeding a boundary decision", n_ch, 4)


def _flows_into_min(fn: Func, rd, key: str) -> Tuple[bool, str]:
    """Some definition whose value mentions the constant `key` (the slice cap) reaches a min()/slice bound."""
    names: Set[str] = set()
    for d in rd.all_defs:
        if d.value is not None and any(isinstance(x, ast.Constant) and x.value == key for x in ast.walk(d.value)):
            names.add(d.name)
    changed = True
    while changed:
        changed = False
        for d in rd.all_defs:
            if d.name not in names and d.value is not None and d.kind in ("assign", "walrus") and any(isinstance(x, ast.Name) and x.id in names for x in ast.walk(d.value)):
                # propagate through simple coercions only
                v = d.value
                if isinstance(v, ast.Call) and dotted(v.func) in ("int", "float") or isinstance(v, (ast.IfExp, ast.Name)):
                    names.add(d.name)
                    changed = True
    if not names:
        return False, f"slice cap {key!r} is not read"
    for x in walk_no_defs(fn.node):
        if isinstance(x, ast.Call) and dotted(x.func) == "min" and any(isinstance(y, ast.Name) and y.id in names for a in x.args for y in ast.walk(a)) and len(x.args) >= 2:
            return True, f"min(...) over {sorted(names)}"
        if isinstance(x, ast.Subscript) and isinstance(x.slice, ast.Slice) and x.slice.upper is not None and any(isinstance(y, ast.Name) and y.id in names for y in ast.walk(x.slice.upper)):
            return True, f"slice bound over {sorted(names)}"
    return False, f"{sorted(names)} never reaches a min()/slice clamp"


def rule_clamp(ctx) -> None:
    t1 = ctx.func("clematis.engine.stages.t1:t1_propagate")
    rd = ctx.rd(t1)
    for key, guardvar in (("t1_pops", "effective_queue_budget"), ("t1_iters", "effective_iter_cap_layers")):
        ok, how = _flows_into_min(t1, rd, key)
        ctx.check(ok, "C17.CLAMP", f"{t1.qual}/{key}", t1.loc(), f"slice cap {key} clamps the stage budget via {how}", f"slice cap {key}: {how}")
    # the clamped values are the ones the loop guards use
    inner = ctx.func("clematis.engine.stages.t1:t1_propagate._t1_one_graph")
    whiles = [x for x in walk_no_defs(inner.node) if isinstance(x, ast.While)]
    wt = " ".join(src(w.test) for w in whiles)
    # role: the pop counter = the local the work loop increments by one per iteration (no spelling of it is assumed)
    pop_ok = False
    for w in whiles:
        incs = {x.target.id for x in ast.walk(w) if isinstance(x, ast.AugAssign) and isinstance(x.op, ast.Add) and isinstance(x.target, ast.Name) and isinstance(x.value, ast.Constant) and x.value.value == 1}
        for c in ast.walk(w.test):
            if isinstance(c, ast.Compare) and len(c.ops) == 1 and isinstance(c.ops[0], ast.Lt) and isinstance(c.left, ast.Name) and c.left.id in incs and src(c.comparators[0]) == "effective_queue_budget":
                pop_ok = True
    ctx.check(pop_ok, "C17.CLAMP", f"{inner.qual}/pop-guard", inner.loc(), "the work loop is bounded by pops < effective_queue_budget",
              f"work-loop guard is `{wt[:80]}`: the (slice-clamped) pop budget does not bound the loop")
    layer_cmp = [x for x in walk_no_defs(inner.node) if isinstance(x, ast.Compare) and "effective_iter_cap_layers" in src(x) and isinstance(x.ops[0], ast.Gt)]
    ctx.check(len(layer_cmp) >= 2, "C17.CLAMP", f"{inner.qual}/layer-guard", inner.loc(), f"{len(layer_cmp)} layer tests use the slice-clamped layer cap",
              "the slice-clamped layer cap no longer guards expansion")
    # the unclamped caps must not guard the loop directly
    raw_used = any(isinstance(x, ast.Compare) and any(isinstance(y, ast.Name) and y.id in ("queue_budget", "base_iter_cap_layers") for y in ast.walk(x)) for x in walk_no_defs(inner.node))
    ctx.check(not raw_used, "C17.CLAMP", f"{inner.qual}/no-unclamped-guard", inner.loc(), "no loop guard compares against the unclamped config cap",
              "a guard in the propagation loop compares against the unclamped queue_budget / layer cap: the per-slice cap does not bind")
    t2 = ctx.func("clematis.engine.stages.t2.core:t2_semantic")
    ok, how = _flows_into_min(t2, ctx.rd(t2), "t2_k")
    ctx.check(ok, "C17.CLAMP", f"{t2.qual}/t2_k", t2.loc(), f"slice cap t2_k bounds the hits used via {how}", f"slice cap t2_k: {how}")
    # residual loop and k_used read the clamped list
    loops = [x for x in walk_no_defs(t2.node) if isinstance(x, ast.For) and src(x.iter) == "used_hits"]
    kused = any(isinstance(x, ast.Dict) and any(const_str(k) == "k_used" and "used_hits" in src(v) for k, v in zip(x.keys, x.values) if k is not None) for x in walk_no_defs(t2.node))
    ctx.check(bool(loops) and kused, "C17.CLAMP", f"{t2.qual}/used-hits-consumers", t2.loc(), "residual nudges iterate used_hits and k_used reports len(used_hits)",
              "residuals / k_used do not read the slice-clamped hit list")
    for q in ("clematis.engine.stages.t3.policy:deliberate", "clematis.engine.stages.t3.legacy:rag_once"):
        f = ctx.prog.funcs.get(q)
        if f is None:
            continue
        ok, how = _flows_into_min(f, ctx.rd(f), "t3_ops")
        if not ok:
            # extract-function refactor: the cap may be read and clamped in a helper whose result the planner then uses
            for c in walk_no_defs(f.node):
                if ok or not isinstance(c, ast.Call):
                    continue
                r = ctx.prog.callee(f, c)
                if r and r[0] == "func" and r[1] in ctx.prog.funcs and r[1] != f.qual:
                    h = ctx.prog.funcs[r[1]]
                    ok2, how2 = _flows_into_min(h, ctx.rd(h), "t3_ops")
                    if ok2:
                        ok, how = True, f"{h.name}(): {how2}"
        ctx.check(ok, "C17.CLAMP", f"{f.qual}/t3_ops", f.loc(), f"slice cap t3_ops bounds the plan via {how}", f"slice cap t3_ops: {how}")
    b = ctx.func("clematis.engine.stages.t3.bundle:make_plan_bundle")
    if b is not None:
        txt = src(b.node)
        for cc in walk_no_defs(b.node):  # one level of delegation (assemble_bundle)
            if isinstance(cc, ast.Call):
                r = ctx.prog.callee(b, cc)
                if r and r[0] == "func":
                    txt += "\n" + src(ctx.prog.funcs[r[1]].node)
        ctx.check("slice_budgets" in txt and "t3_ops" in txt and "slice_caps" in txt, "C17.CLAMP", f"{b.qual}/forwards-slice-cap", b.loc(),
                  "the plan bundle forwards ctx.slice_budgets['t3_ops'] as slice_caps", "the plan bundle no longer forwards the t3_ops slice cap")


def rule_zero_budget(ctx) -> None:
    from ..zero import zero_budget_rule
    zero_budget_rule(ctx, "C17.BOUNDARY", ["clematis.engine.orchestrator.core", "clematis.engine.stages.t1", "clematis.engine.stages.t2.core", "clematis.engine.stages.t3.bundle", "clematis.engine.stages.t3.policy", "clematis.engine.stages.t3.legacy"], 6)


def rule_budget_scope(ctx) -> None:
    """"slice budgets clamp stage work (propagation pops and layers ...)": the stage reports - and the orchestrator compares with
    the budget - the work of the whole slice.  A bound derived from the per-slice budget that is applied inside a worker called
    once per active graph, without the consumption of the earlier graphs being taken off, lets a slice with n graphs do n times
    the budget (and the orchestrator's `consumed == budget` test then misses the overshoot)."""
    T1M = "clematis.engine.stages.t1"
    outer = ctx.func(T1M + ":t1_propagate")
    inner = ctx.func(T1M + ":t1_propagate._t1_one_graph")
    rd = ctx.rd(outer)
    # names derived from a per-slice budget key
    derived: Dict[str, str] = {}
    for key in ("t1_pops", "t1_iters"):
        names = {d.name for d in rd.all_defs if d.kind == "assign" and d.value is not None and any(const_str(z) == key for z in ast.walk(d.value))}
        for _ in range(3):
            for d in rd.all_defs:
                if d.kind == "assign" and d.value is not None and d.name not in names and any(isinstance(y, ast.Name) and y.id in names for y in ast.walk(d.value)):
                    names.add(d.name)
        for nm in names:
            derived.setdefault(nm, key)
    ctx.floor("C17.CLAMP", "locals of t1_propagate derived from a per-slice T1 budget", len(derived), 4)
    inner_locals = {y.id for y in walk_no_defs(inner.node) if isinstance(y, ast.Name) and isinstance(y.ctx, ast.Store)} | set(inner.params)
    used_as_bound = {}
    for x in walk_no_defs(inner.node):
        if isinstance(x, ast.Compare):
            for y in ast.walk(x):
                if isinstance(y, ast.Name) and y.id in derived and y.id not in inner_locals:
                    used_as_bound.setdefault(derived[y.id], (y.id, x))
    # the worker is called once per active graph
    per_graph = any(isinstance(l, ast.For) and any(isinstance(c, ast.Call) and call_tail(c) == "_t1_one_graph" for c in ast.walk(l)) for l in walk_no_defs(outer.node))
    for key, (nm, site) in sorted(used_as_bound.items()):
        # is the bound reduced by what earlier graphs consumed? (an assignment to it inside the per-graph loop, or a parameter)
        reduced = any(isinstance(l, ast.For) and any(isinstance(c, ast.Call) and call_tail(c) == "_t1_one_graph" for c in ast.walk(l))
                      and any(isinstance(a, (ast.Assign, ast.AugAssign)) and any(isinstance(t, ast.Name) and t.id == nm for t in (a.targets if isinstance(a, ast.Assign) else [a.target])) for a in ast.walk(l))
                      for l in walk_no_defs(outer.node))
        ctx.check(not per_graph or reduced, "C17.CLAMP", f"{outer.qual}/slice-budget-is-per-slice:{key}", inner.loc(site),
                  f"the bound derived from slice budget {key} is reduced by the work of the graphs already done",
                  f"`{nm}` (from slice budget {key}) bounds `{src(site)[:40]}` inside the per-graph worker and is never reduced between graphs: with n active graphs the slice does up to n x {key}, "
                  f"while the stage reports the sum and the orchestrator tests `consumed == budget` - the budget neither binds nor triggers BUDGET_{key.upper()}")


def rule_budgets_reach_the_stages_as_they_read_them(ctx) -> None:
    """"slice budgets clamp stage work": run_turn parks the slice's budgets on ctx.slice_budgets and the stages read them there.
    Some readers copy a cap only where the object is a real dict (`isinstance(caps, dict)` in the T3 bundle); as long as one does,
    what run_turn stores must BE a dict - wrapped in a read-only view (MappingProxyType) or any other mapping class the type
    test fails, the stage falls back to its configured cap, exceeds the slice budget, and the `==` boundary test then also
    misses the yield."""
    rt = ctx.func(RUN_TURN)
    attr = "slice_budgets"
    gated = []
    for f in ctx.prog.all_funcs("clematis.engine.stages."):
        names = {t.id for x in walk_no_defs(f.node) if isinstance(x, ast.Assign) for t in x.targets if isinstance(t, ast.Name)
                 and any(isinstance(y, ast.Call) and dotted(y.func) == "getattr" and len(y.args) >= 2 and const_str(y.args[1]) == attr for y in ast.walk(x.value))}
        for x in walk_no_defs(f.node):
            if isinstance(x, ast.Call) and dotted(x.func) == "isinstance" and len(x.args) == 2 and isinstance(x.args[0], ast.Name) and x.args[0].id in names and src(x.args[1]) in ("dict", "(dict,)"):
                gated.append((f, x))
    stores = [c for c in walk_no_defs(rt.node) if isinstance(c, ast.Call) and dotted(c.func) == "setattr" and len(c.args) == 3 and const_str(c.args[1]) == attr
              and not (isinstance(c.args[2], ast.Constant) and c.args[2].value is None)]
    ctx.floor("C17.CLAMP", "stores of ctx.slice_budgets in run_turn", len(stores), 1)
    rd = ctx.rd(rt)
    cfg = ctx.cfg(rt)

    def dict_typed(e, at, depth=0) -> bool:
        if isinstance(e, ast.Dict) or isinstance(e, ast.DictComp):
            return True
        if isinstance(e, ast.Call):
            if dotted(e.func) == "dict":
                return True
            if isinstance(e.func, ast.Attribute) and e.func.attr == "copy" and not e.args:
                return dict_typed(e.func.value, at, depth + 1)
            r = ctx.prog.callee(rt, e)
            if r and r[0] == "func" and r[1] in ctx.prog.funcs:
                cal = ctx.prog.funcs[r[1]]
                rets = [y for y in walk_no_defs(cal.node) if isinstance(y, ast.Return) and y.value is not None]
                crd = ctx.rd(cal)
                ccfg = ctx.cfg(cal)

                def ret_ok(y):
                    v = y.value
                    if isinstance(v, (ast.Dict, ast.DictComp)) or (isinstance(v, ast.Call) and dotted(v.func) == "dict"):
                        return True
                    if isinstance(v, ast.Name):
                        at2 = ccfg.node_containing(y)
                        ds = [d for d in crd.reaching(v.id, at2[0]) if d.kind != "mutate"] if at2 else []
                        return bool(ds) and all(d.value is not None and (isinstance(d.value, (ast.Dict, ast.DictComp)) or (isinstance(d.value, ast.Call) and dotted(d.value.func) == "dict")) for d in ds)
                    return False
                return bool(rets) and all(ret_ok(y) for y in rets)
            return False
        if isinstance(e, ast.Name) and depth < 3:
            ds = [d for d in rd.reaching(e.id, at) if d.kind != "mutate"]
            return bool(ds) and all(d.value is not None and dict_typed(d.value, d.node, depth + 1) for d in ds)
        return False

    for c in stores:
        at = cfg.node_containing(c)
        ok = (not gated) or (bool(at) and dict_typed(c.args[2], at[0]))
        g = gated[0] if gated else None
        ctx.check(ok, "C17.CLAMP", ctx.okey(f"{rt.qual}/slice-budgets-stored-as-the-type-the-stages-test"), rt.loc(c), "ctx.slice_budgets holds a plain dict (readers gate on isinstance(..., dict))",
                  f"`{src(c)[:70]}` stores something that is not known to be a dict, while {g[0].qual if g else ''} copies its cap only where `{src(g[1]) if g else ''}`: the slice cap does not reach that stage, "
                  "which plans / works up to its configured cap - beyond the slice budget - and the `==` boundary test then misses the yield as well")


def run(ctx) -> None:
    rule_budgets_reach_the_stages_as_they_read_them(ctx)
    rule_budget_scope(ctx)
    rule_zero_budget(ctx)
    rule_pure(ctx)
    rule_elig(ctx)
    rule_prec(ctx)
    rule_boundary(ctx)
    rule_charged(ctx)
    rule_clamp(ctx)
