"""E3 reaching definitions, definition inlining and backward slices over the CFG."""
from __future__ import annotations

import ast
import copy
from typing import Dict, FrozenSet, Iterable, List, Optional, Set, Tuple

from .cfg import CFG, Node
from .model import walk_no_defs, _flatten_target


class Def:
    """One definition of a local name at a CFG node."""

    __slots__ = ("name", "node", "value", "kind", "target")

    def __init__(self, name: str, node: Node, value: Optional[ast.AST], kind: str, target: Optional[ast.AST] = None):
        self.name = name
        self.node = node
        self.value = value  # RHS expression when kind == 'assign'
        self.kind = kind  # param assign unpack aug for with except import def walrus del
        self.target = target

    def __repr__(self):  # pragma: no cover
        return f"<Def {self.name}@{self.node.id}:{self.kind}>"


MUTATORS = {"append", "extend", "add", "update", "insert", "setdefault", "appendleft", "extendleft", "push",
            "sort", "reverse", "remove", "pop", "clear", "discard", "popleft", "popitem"}


def _names_in_target(t: ast.AST) -> List[ast.Name]:
    return [x for x in _flatten_target(t) if isinstance(x, ast.Name)]


def node_exprs(n: Node) -> List[ast.AST]:
    """The expressions evaluated *at* CFG node n (not sub-blocks)."""
    a = n.ast
    if a is None or n.kind in ("branch", "join", "entry", "exit", "raise"):
        return []
    if n.kind == "iter":
        return []
    if n.kind == "with":
        out = []
        for it in a.items:
            out.append(it.context_expr)
        return out
    if n.kind == "handler":
        return [a.type] if a.type is not None else []
    if n.kind == "cond":
        return [a]
    if isinstance(a, (ast.FunctionDef, ast.AsyncFunctionDef, ast.ClassDef)):
        return list(a.decorator_list)
    return [a]


def defs_at(n: Node, fn_node: ast.AST) -> List[Def]:
    out: List[Def] = []
    a = n.ast
    if n.kind == "entry":
        args = fn_node.args
        for x in args.posonlyargs + args.args + args.kwonlyargs:
            out.append(Def(x.arg, n, None, "param"))
        if args.vararg:
            out.append(Def(args.vararg.arg, n, None, "param"))
        if args.kwarg:
            out.append(Def(args.kwarg.arg, n, None, "param"))
        return out
    if a is None or n.kind in ("branch", "join"):
        return out
    if n.kind == "iter":
        for nm in _names_in_target(a.target):
            out.append(Def(nm.id, n, a.iter, "for", a.target))
        return out
    if n.kind == "with":
        for it in a.items:
            if it.optional_vars is not None:
                for nm in _names_in_target(it.optional_vars):
                    out.append(Def(nm.id, n, it.context_expr, "with"))
        return out
    if n.kind == "handler":
        if a.name:
            out.append(Def(a.name, n, None, "except"))
        return out
    if n.kind == "stmt":
        if isinstance(a, ast.Assign):
            for t in a.targets:
                if isinstance(t, ast.Name):
                    out.append(Def(t.id, n, a.value, "assign"))
                elif isinstance(t, (ast.Tuple, ast.List)):
                    elts = t.elts
                    vals = a.value.elts if isinstance(a.value, (ast.Tuple, ast.List)) and len(a.value.elts) == len(elts) else None
                    for i, e in enumerate(elts):
                        if isinstance(e, ast.Name) and vals is not None and not any(isinstance(v, ast.Starred) for v in vals):
                            out.append(Def(e.id, n, vals[i], "assign"))
                        else:
                            for nm in _names_in_target(e):
                                out.append(Def(nm.id, n, a.value, "unpack", t))
        elif isinstance(a, ast.AnnAssign):
            if isinstance(a.target, ast.Name) and a.value is not None:
                out.append(Def(a.target.id, n, a.value, "assign"))
        elif isinstance(a, ast.AugAssign):
            if isinstance(a.target, ast.Name):
                out.append(Def(a.target.id, n, a.value, "aug"))
        elif isinstance(a, (ast.Import, ast.ImportFrom)):
            for al in a.names:
                nm = al.asname or al.name.split(".")[0]
                out.append(Def(nm, n, None, "import"))
        elif isinstance(a, (ast.FunctionDef, ast.AsyncFunctionDef, ast.ClassDef)):
            out.append(Def(a.name, n, None, "def"))
        elif isinstance(a, ast.Delete):
            for t in a.targets:
                if isinstance(t, ast.Name):
                    out.append(Def(t.id, n, None, "del"))
        # weak updates: X.append(v) / X[k] = v / X.a = v  (do not kill earlier defs)
        if isinstance(a, (ast.Assign, ast.AugAssign, ast.AnnAssign)):
            tgts = a.targets if isinstance(a, ast.Assign) else [a.target]
            for t in tgts:
                for tt in _flatten_target(t):
                    root = tt
                    keys = []
                    while isinstance(root, (ast.Subscript, ast.Attribute)):
                        if isinstance(root, ast.Subscript):
                            keys.append(root.slice)
                        root = root.value
                    if isinstance(root, ast.Name) and root is not tt and a.value is not None:
                        val = ast.Tuple(elts=keys + [a.value], ctx=ast.Load())
                        out.append(Def(root.id, n, val, "mutate", tt))
        elif isinstance(a, ast.Expr) and isinstance(a.value, ast.Call) and isinstance(a.value.func, ast.Attribute):
            c = a.value
            if c.func.attr in MUTATORS:
                root = c.func.value
                # X[k].append(v) / X.a.append(v) / X.setdefault(k, []).append(v) / X.get(k).append(v): a weak update of X
                while isinstance(root, (ast.Subscript, ast.Attribute)) or (
                        isinstance(root, ast.Call) and isinstance(root.func, ast.Attribute) and root.func.attr in ("setdefault", "get")):
                    root = root.func.value if isinstance(root, ast.Call) else root.value
                if isinstance(root, ast.Name):
                    val = ast.Tuple(elts=list(c.args) + [k.value for k in c.keywords], ctx=ast.Load())
                    out.append(Def(root.id, n, val, "mutate", c))
    # walrus anywhere in the node's expressions
    for e in node_exprs(n):
        for x in walk_no_defs(e):
            if isinstance(x, ast.NamedExpr) and isinstance(x.target, ast.Name):
                out.append(Def(x.target.id, n, x.value, "walrus"))
    return out


class ReachingDefs:
    def __init__(self, cfg: CFG):
        self.cfg = cfg
        self.defs: Dict[Node, List[Def]] = {}
        self.all_defs: List[Def] = []
        self.global_names: Set[str] = set()
        self.nonlocal_names: Set[str] = set()
        for n in cfg.nodes:
            ds = defs_at(n, cfg.fn)
            if ds:
                self.defs[n] = ds
                self.all_defs += ds
            if n.kind == "stmt" and isinstance(n.ast, ast.Global):
                self.global_names.update(n.ast.names)
            if n.kind == "stmt" and isinstance(n.ast, ast.Nonlocal):
                self.nonlocal_names.update(n.ast.names)
        self.local_names: Set[str] = {d.name for d in self.all_defs if d.kind != "mutate"}
        self._idx = {id(d): i for i, d in enumerate(self.all_defs)}
        by_name: Dict[str, int] = {}
        for i, d in enumerate(self.all_defs):
            by_name[d.name] = by_name.get(d.name, 0) | (1 << i)
        self._by_name = by_name
        self._in: Dict[Node, int] = {}
        self._solve()

    def _solve(self) -> None:
        cfg = self.cfg
        gen: Dict[Node, int] = {}
        kill: Dict[Node, int] = {}
        for n, ds in self.defs.items():
            g = 0
            k = 0
            for d in ds:
                if d.kind != "mutate":
                    k |= self._by_name[d.name]
            for d in ds:
                g |= 1 << self._idx[id(d)]
            # several defs of one name at one node: the last wins, but keeping
            # all is a sound over-approximation for may-reach.
            gen[n] = g
            kill[n] = k & ~g
        IN = {n: 0 for n in cfg.nodes}
        OUT = {n: 0 for n in cfg.nodes}
        work = list(cfg.nodes)
        inwork = set(work)
        while work:
            n = work.pop()
            inwork.discard(n)
            i = 0
            for p, lab in n.pred:
                if lab == "exc":
                    # an exception may be raised before or after the
                    # assignment at p completed: both states reach.
                    i |= IN[p] | OUT[p]
                else:
                    i |= OUT[p]
            IN[n] = i
            o = (i & ~kill.get(n, 0)) | gen.get(n, 0)
            if o != OUT[n]:
                OUT[n] = o
                for t, _ in n.succ:
                    if t not in inwork:
                        inwork.add(t)
                        work.append(t)
        self._in = IN
        self._out = OUT

    def reaching(self, name: str, at: Node, after: bool = False) -> List[Def]:
        bits = (self._out if after else self._in).get(at, 0) & self._by_name.get(name, 0)
        out = []
        i = 0
        while bits:
            if bits & 1:
                out.append(self.all_defs[i])
            bits >>= 1
            i += 1
        return out

    def is_local(self, name: str) -> bool:
        return name in self.local_names and name not in self.global_names and name not in self.nonlocal_names

    # ------------------------------------------------------------ inlining
    def unique_value(self, name: str, at: Node) -> Optional[Tuple[ast.AST, Node]]:
        ds = self.reaching(name, at)
        if len(ds) == 1 and ds[0].kind in ("assign", "walrus") and ds[0].value is not None:
            return ds[0].value, ds[0].node
        return None

    def inline(self, e: ast.AST, at: Node, depth: int = 6, stop: Iterable[str] = ()) -> ast.AST:
        """Copy of `e` with every Name that has exactly one reaching plain
        assignment replaced by that assignment's RHS (recursively)."""
        stop = set(stop)
        rd = self

        class T(ast.NodeTransformer):
            def __init__(self, at, depth):
                self.at = at
                self.depth = depth

            def visit_Name(self, node):
                if not isinstance(node.ctx, ast.Load) or node.id in stop or self.depth <= 0:
                    return node
                uv = rd.unique_value(node.id, self.at)
                if uv is None:
                    return node
                val, dn = uv
                # do not inline self-referential updates (x = f(x))
                if any(isinstance(x, ast.Name) and x.id == node.id for x in ast.walk(val)):
                    return node
                return T(dn, self.depth - 1).visit(copy.deepcopy(val))

            def visit_Lambda(self, node):
                return node

        return T(at, depth).visit(copy.deepcopy(e))

    # -------------------------------------------------------------- slices
    def slice(self, exprs: Iterable[ast.AST], at: Node, max_nodes: int = 4000, control: bool = False) -> "Slice":
        """Backward data slice: every definition (transitively) feeding the
        given expressions evaluated at node `at`.  With control=True the tests
        of the branches dominating each included node are followed as well."""
        sl = Slice()
        work: List[Tuple[ast.AST, Node]] = [(e, at) for e in exprs]
        seen_defs: Set[int] = set()
        seen_ctrl: Set[int] = set()

        def add_ctrl(n: Node):
            if not control or n.id in seen_ctrl:
                return
            seen_ctrl.add(n.id)
            for test, pol, b in self.cfg.guards(n):
                cn = b.pred[0][0] if b.pred else b
                if id(test) not in seen_ctrl:
                    seen_ctrl.add(id(test))
                    sl.ctrl.append((test, pol, cn))
                    work.append((test, cn))

        add_ctrl(at)
        while work and len(sl.exprs) < max_nodes:
            e, n = work.pop()
            sl.exprs.append((e, n))
            add_ctrl(n)
            bound = _comp_bound(e)
            for x in walk_no_defs(e):
                if isinstance(x, ast.Name) and isinstance(x.ctx, ast.Load):
                    if x.id in bound:
                        continue
                    ds = self.reaching(x.id, n)
                    if not ds:
                        sl.free.add(x.id)
                        continue
                    for d in ds:
                        if id(d) in seen_defs:
                            continue
                        seen_defs.add(id(d))
                        sl.defs.append(d)
                        if d.kind == "param":
                            sl.params.add(d.name)
                        if d.value is not None:
                            work.append((d.value, d.node))
                        if d.kind == "aug":
                            # x op= v also depends on the previous x
                            work.append((ast.Name(id=d.name, ctx=ast.Load()), d.node))
        return sl


def _comp_bound(e: ast.AST) -> Set[str]:
    out: Set[str] = set()
    for x in walk_no_defs(e):
        if isinstance(x, ast.comprehension):
            for nm in _names_in_target(x.target):
                out.add(nm.id)
        elif isinstance(x, ast.Lambda):
            a = x.args
            for y in a.posonlyargs + a.args + a.kwonlyargs:
                out.add(y.arg)
            if a.vararg:
                out.add(a.vararg.arg)
            if a.kwarg:
                out.add(a.kwarg.arg)
    return out


class Slice:
    def __init__(self):
        self.ctrl: List[Tuple[ast.AST, bool, Node]] = []
        self.exprs: List[Tuple[ast.AST, Node]] = []
        self.defs: List[Def] = []
        self.params: Set[str] = set()
        self.free: Set[str] = set()

    def nodes(self) -> Iterable[ast.AST]:
        for e, _ in self.exprs:
            yield from walk_no_defs(e)

    def calls(self) -> List[ast.Call]:
        return [x for x in self.nodes() if isinstance(x, ast.Call)]

    def names(self) -> Set[str]:
        return {x.id for x in self.nodes() if isinstance(x, ast.Name)}

    def attrs(self) -> Set[str]:
        from .model import dotted

        out = set()
        for x in self.nodes():
            if isinstance(x, ast.Attribute):
                d = dotted(x)
                if d:
                    out.add(d)
        return out

    def constants(self) -> Set[object]:
        return {x.value for x in self.nodes() if isinstance(x, ast.Constant)}


class Taint:
    """Forward taint evaluated on demand over reaching definitions.

    source(expr, node)   -> set of labels the expression itself introduces
    cleanse(expr, node, labels) -> labels after a sanitising construct at expr
    comp_filter(comp, labels_of_iter, node) -> labels of the elements that pass
    guard(def, labels)   -> labels of a definition given its node's guards
    """

    def __init__(self, rd: "ReachingDefs", source, cleanse=None, comp_filter=None, guard=None, param_labels=None):
        self.rd = rd
        self.source = source
        self.cleanse = cleanse
        self.comp_filter = comp_filter
        self.guard = guard
        self.param_labels = param_labels or (lambda name: set())
        self._memo: Dict[int, frozenset] = {}
        self._busy: Set[int] = set()

    def of_def(self, d: Def) -> frozenset:
        k = id(d)
        if k in self._memo:
            return self._memo[k]
        if k in self._busy:
            return frozenset()
        self._busy.add(k)
        try:
            if d.kind == "param":
                out = frozenset(self.param_labels(d.name))
            elif d.value is None:
                out = frozenset()
            else:
                out = self.of(d.value, d.node)
                if d.kind == "aug":
                    out = out | self.of(ast.Name(id=d.name, ctx=ast.Load()), d.node)
            if self.guard is not None:
                out = frozenset(self.guard(d, set(out)))
        finally:
            self._busy.discard(k)
        self._memo[k] = out
        return out

    def of(self, e: ast.AST, at: Node, bound: Optional[Dict[str, frozenset]] = None) -> frozenset:
        bound = bound or {}
        out: Set = set(self.source(e, at) or ())
        if isinstance(e, ast.Name):
            if e.id in bound:
                out |= bound[e.id]
            else:
                for d in self.rd.reaching(e.id, at):
                    out |= self.of_def(d)
        elif isinstance(e, (ast.ListComp, ast.SetComp, ast.GeneratorExp, ast.DictComp)):
            b = dict(bound)
            acc: Set = set()
            for g in e.generators:
                it = self.of(g.iter, at, b)
                if self.comp_filter is not None:
                    it = frozenset(self.comp_filter(e, g, set(it), at))
                for nm in _names_in_target(g.target):
                    b[nm.id] = it
                for i in g.ifs:
                    pass  # conditions select, they do not flow into elements
            elts = [e.key, e.value] if isinstance(e, ast.DictComp) else [e.elt]
            for x in elts:
                acc |= self.of(x, at, b)
            out |= acc
        elif isinstance(e, ast.Lambda):
            pass
        else:
            for c in ast.iter_child_nodes(e):
                if isinstance(c, (ast.expr_context, ast.operator, ast.boolop, ast.unaryop, ast.cmpop)):
                    continue
                if isinstance(c, (ast.keyword, ast.comprehension)):
                    c = c.value if isinstance(c, ast.keyword) else c.iter
                if isinstance(c, ast.AST):
                    out |= self.of(c, at, bound)
        if self.cleanse is not None:
            out = set(self.cleanse(e, at, out))
        return frozenset(out)
