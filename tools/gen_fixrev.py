#!/usr/bin/env python3
"""Regenerates /verif/fixrev/<PROP>-<commit>/ from known_findings.json: for every recorded "fix:" commit of /repo the REVERSE
patch of its package files (clematis/, configs/), kept only where it still applies to HEAD, with meta.json naming the rule that
was written for the defect.  sa.selftest replays them in memory next to the seeded changes: a reverted fix must be reported by
its rule.  usage: python3 tools/gen_fixrev.py"""
import json, os, shutil, subprocess
ROOT = os.path.join(os.path.dirname(os.path.abspath(__file__)), "..")
k = json.load(open(os.path.join(ROOT, "known_findings.json")))
out = os.path.join(ROOT, "fixrev")
shutil.rmtree(out, ignore_errors=True)
os.makedirs(out)
made, skipped, seen = 0, [], set()
for f in k["fixed"]:
    c, prop, rule = f["commit"], f["property"], f["rule"]
    if (c, prop, rule) in seen:
        continue
    seen.add((c, prop, rule))
    files = subprocess.run(["git", "-C", "/repo", "show", "--name-only", "--format=", c], capture_output=True, text=True).stdout.split()
    files = [x for x in files if x.endswith(".py") and (x.startswith("clematis/") or x.startswith("configs/"))]
    if not files:
        skipped.append((c, "no package files")); continue
    rev = subprocess.run(["git", "-C", "/repo", "diff", c, c + "~1", "--"] + files, capture_output=True, text=True).stdout
    if subprocess.run(["git", "-C", "/repo", "apply", "--check", "-"], input=rev, capture_output=True, text=True).returncode != 0:
        skipped.append((c, "reverse patch no longer applies to HEAD (a later fix rewrote the same lines)")); continue
    d = os.path.join(out, f"{prop}-{c}")
    os.makedirs(d, exist_ok=True)
    open(os.path.join(d, "patch.diff"), "w").write(rev)
    mp = os.path.join(d, "meta.json")
    meta = json.load(open(mp)) if os.path.exists(mp) else {"id": os.path.basename(d), "kind": "fix-reverted", "commit": c, "detected_by": []}
    if not any(x["property"] == prop and x["rule"] == rule for x in meta["detected_by"]):
        meta["detected_by"].append({"property": prop, "rule": rule})
    json.dump(meta, open(mp, "w"), indent=1)
    made += 1
print(f"fix-reverted cases: {made}; not generated: {len(skipped)}")
