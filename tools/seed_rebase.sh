#!/bin/bash
# usage: tools/seed_rebase.sh <seed-id> ...   -- re-bases a stored seeded patch onto /repo HEAD after a fix moved its context:
# scratch worktree, `patch -p1 -F3`, the stored demo must fail with the re-based change and pass without it; the new diff replaces patch.diff.
for SID in "$@"; do
  WT=/tmp/seed_rebase_$$; rm -rf $WT
  git -C /repo worktree add -q --detach $WT HEAD || exit 9
  ( cd $WT && patch -p1 -F3 -s < /verif/seeded/$SID/patch.diff ) ; PRC=$?
  ( cd $WT && git diff -- clematis configs > $WT.diff )
  DEMO=$(ls /verif/seeded/$SID/demo_*.py | head -1)
  ( cd $WT && cp $DEMO . && PYTHONPATH=$WT /venv/bin/python $(basename $DEMO) > /dev/null 2>&1 ); W=$?
  ( cd $WT && git apply -R $WT.diff && PYTHONPATH=$WT /venv/bin/python $(basename $DEMO) > /dev/null 2>&1 ); WO=$?
  git -C /repo worktree remove --force $WT; git -C /repo worktree prune
  if [ $PRC -eq 0 ] && [ $W -ne 0 ] && [ $WO -eq 0 ]; then cp $WT.diff /verif/seeded/$SID/patch.diff; echo "$SID re-based (demo with=$W without=$WO)"; else echo "$SID NOT re-based: patch rc=$PRC demo with=$W without=$WO"; fi
  rm -f $WT.diff
done
