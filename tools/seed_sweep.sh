#!/bin/bash
# usage: tools/seed_sweep.sh [quick|thorough]   -- applies every stored seeded change to /repo in turn, runs the check(s)
# that meta.json names, and prints the exit codes (expected: 1 for every seed). /repo is restored after each.
TIER=${1:-quick}
cd /verif
for m in seeded/*/meta.json; do
  sid=$(basename $(dirname $m))
  python3 -c "import json,sys;sys.exit(0 if json.load(open('$m')).get('retired') else 1)" && { echo "$sid retired"; continue; }
  props=$(python3 -c "import json;print(' '.join(sorted({x['property'] for x in json.load(open('$m'))['detected_by']})))")
  (cd /repo && git apply /verif/seeded/$sid/patch.diff) || { echo "$sid PATCH-DOES-NOT-APPLY"; continue; }
  for p in $props; do
    /venv/bin/python -m sa.check $p --tier $TIER --no-evidence > /tmp/sweep.log 2>&1; rc=$?
    echo "$sid $p rc=$rc $(grep -c '^VIOLATION' /tmp/sweep.log) violations $(grep -m1 'ANALYSIS-ERROR\|SELFTEST-NOTE' /tmp/sweep.log | cut -c1-160)"
  done
  (cd /repo && git checkout -- clematis configs)
done
rm -f /tmp/sweep.log
