#!/bin/bash
# usage: tools/seed_confirm.sh <worktree> <PROP> <seed-id>
# Confirms a seeded change produced by a sub-agent in its scratch worktree:
#   suite passes with the change, demo fails with it and passes without it.
# Then stores patch+demo under /verif/seeded/<seed-id>/ and runs the registered
# check for <PROP> against /repo with the patch applied (reverted afterwards).
set -u
WT="$1"; PROP="$2"; SID="$3"
OUT=/verif/seeded/$SID
mkdir -p "$OUT"
cd "$WT" || exit 9
git diff -- clematis configs > /tmp/seed_$SID.diff
if ! [ -s /tmp/seed_$SID.diff ]; then echo "EMPTY DIFF"; exit 9; fi
DEMO=$(ls demo_*.py 2>/dev/null | head -1)
echo "== suite with change"
SUITE=$(/venv/bin/python -m pytest -q -p no:cacheprovider --timeout=900 -x 2>&1 | tail -1)
echo "$SUITE"
echo "== demo with change"
/venv/bin/python "$DEMO" > /tmp/seed_$SID.with.log 2>&1; RC_WITH=$?
tail -3 /tmp/seed_$SID.with.log; echo "rc=$RC_WITH"
git apply -R /tmp/seed_$SID.diff
echo "== demo without change"
/venv/bin/python "$DEMO" > /tmp/seed_$SID.without.log 2>&1; RC_WITHOUT=$?
tail -3 /tmp/seed_$SID.without.log; echo "rc=$RC_WITHOUT"
git apply /tmp/seed_$SID.diff
cp /tmp/seed_$SID.diff "$OUT/patch.diff"
cp "$DEMO" "$OUT/"
[ -f NOTES.md ] && cp NOTES.md "$OUT/NOTES.md"
for f in observe_*.py; do [ -f "$f" ] && cp "$f" "$OUT/"; done
echo "== check against /repo with patch"
cd /repo && git apply "$OUT/patch.diff" || { echo "PATCH DOES NOT APPLY TO /repo"; exit 8; }
cd /verif && /venv/bin/python -m sa.check "$PROP" --tier quick --no-evidence 2>&1 | grep -v conda | tail -12; RC_CHECK=${PIPESTATUS[0]}
cd /repo && git checkout -- clematis configs
echo "check rc=$RC_CHECK"
cat > "$OUT/result.txt" <<EOF
suite_with_change: $SUITE
demo_with_change_rc: $RC_WITH
demo_without_change_rc: $RC_WITHOUT
check_rc_on_patched_repo: $RC_CHECK
EOF
rm -f /tmp/seed_$SID.diff /tmp/seed_$SID.with.log /tmp/seed_$SID.without.log
