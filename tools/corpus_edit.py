#!/venv/bin/python
"""Re-anchor corpus cases after the code they quote was changed by a fix.
usage (from python):  from corpus_edit import edit;  edit("C06", "weight-not-clamped", lambda old, new: (old2, new2))
The tuple element holding the old / new texts (a str, or a list of pairs / triples) is replaced in the selftests source by
its repr; everything else in the file is kept byte for byte."""
import ast, os, sys

ROOT = os.path.join(os.path.dirname(os.path.abspath(__file__)), "..")


def _seg(lines, node):
    return (node.lineno - 1, node.col_offset, node.end_lineno - 1, node.end_col_offset)


def edit(prop: str, cid: str, fn) -> bool:
    path = os.path.join(ROOT, "sa", "selftests", f"{prop.lower()}.py")
    src = open(path, encoding="utf-8").read()
    tree = ast.parse(src)
    env = {}
    for st in tree.body:
        if isinstance(st, ast.Assign) and isinstance(st.value, ast.Constant):
            env[st.targets[0].id] = st.value.value
    cases = next(st.value for st in tree.body if isinstance(st, ast.Assign) and st.targets[0].id == "CASES")
    for el in cases.elts:
        if not (isinstance(el, ast.Tuple) and isinstance(el.elts[0], ast.Constant) and el.elts[0].value == cid):
            continue
        old_node, new_node = el.elts[3], el.elts[4]
        old = ast.literal_eval(ast.unparse(old_node)) if not any(isinstance(y, ast.Name) for y in ast.walk(old_node)) else eval(compile(ast.Expression(old_node), "<c>", "eval"), dict(env))
        new = ast.literal_eval(ast.unparse(new_node)) if not any(isinstance(y, ast.Name) for y in ast.walk(new_node)) else eval(compile(ast.Expression(new_node), "<c>", "eval"), dict(env))
        old2, new2 = fn(old, new)
        lines = src.split("\n")
        # replace the later node first so that offsets of the earlier one stay valid
        for node, val in sorted(((old_node, old2), (new_node, new2)), key=lambda t: (t[0].lineno, t[0].col_offset), reverse=True):
            l0, c0, l1, c1 = _seg(lines, node)
            # col offsets are in utf-8 bytes
            b0 = lines[l0].encode("utf-8")[:c0].decode("utf-8")
            b1 = lines[l1].encode("utf-8")[c1:].decode("utf-8")
            lines[l0:l1 + 1] = [b0 + repr(val) + b1]
        open(path, "w", encoding="utf-8").write("\n".join(lines))
        return True
    raise SystemExit(f"case {cid} not found in {path}")


def sub(prop: str, cid: str, *pairs):
    """apply plain text substitutions (a, b) to the old AND new texts of a case"""
    def f(old, new):
        def ap(x):
            if isinstance(x, str):
                for a, b in pairs:
                    x = x.replace(a, b)
                return x
            if x is None:
                return None
            return [tuple(ap(y) if isinstance(y, str) and i > 0 or (isinstance(y, str) and len(t) == 2) else y for i, y in enumerate(t)) for t in x]
        return ap(old), ap(new)
    return edit(prop, cid, f)
