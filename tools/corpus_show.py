#!/venv/bin/python
"""usage: corpus_show.py PROP id [id...]  -- print the edits of corpus cases (old / new text)"""
import sys, importlib
sys.path.insert(0, '/verif')
prop, *ids = sys.argv[1:]
m = importlib.import_module(f"sa.selftests.{prop.lower()}")
for c in m.CASES:
    if c[0] in ids:
        cid, kind, rel, old, new, exp = c
        print("=" * 100); print(cid, kind, rel, exp)
        trip = [(rel, old, new)] if isinstance(old, str) else ([(rel, o, n) for o, n in old] if rel is not None else list(old))
        for r, o, n in trip:
            print("--- OLD", r); print(o); print("--- NEW"); print(n)
