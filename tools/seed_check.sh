#!/bin/bash
# usage: tools/seed_check.sh <seed-id> <PROP> [<PROP2> ...] : apply the stored patch to /repo, run the quick checks, revert.
SID="$1"; shift
cd /repo && git apply "/verif/seeded/$SID/patch.diff" || { echo "PATCH DOES NOT APPLY TO /repo"; exit 8; }
for P in "$@"; do
  cd /verif && /venv/bin/python -m sa.check "$P" --tier quick --no-evidence 2>&1 | grep -v conda | tail -${TAILN:-8}; echo "check $P rc=${PIPESTATUS[0]}"
done
cd /repo && git checkout -- clematis configs
