#!/usr/bin/env python3
"""Regenerates /verif/MANIFEST.json from sa/claims.py (keeps it schema-valid)."""
import json, os, sys
sys.path.insert(0, os.path.dirname(os.path.dirname(os.path.abspath(__file__))))
from sa.claims import CLAIMS, PENDING_REASON

props = [json.loads(l)["id"] for l in open(os.path.join(os.path.dirname(__file__), "..", "properties.jsonl"))]
checks, na = [], []
for pid in props:
    c = CLAIMS.get(pid)
    if c is None or not os.path.exists(os.path.join(os.path.dirname(__file__), "..", "sa", "rules", pid.lower() + ".py")):
        na.append({"property_id": pid, "reason": PENDING_REASON})
        continue
    checks.append({
        "property_id": pid,
        "quick_cmd": f"/venv/bin/python -m sa.check {pid} --tier quick",
        "thorough_cmd": f"/venv/bin/python -m sa.check {pid} --tier thorough",
        "evidence_file": f"/verif/evidence/{pid}.json",
        "replay_cmd_template": f"/venv/bin/python -m sa.check {pid} --replay {{path}}",
        "engine": "sa",
        "level_claimed": {"category": "other", "text": c["text"], "design_ref": f"DESIGN.md §3 {pid}"},
        "level_note": c["note"],
        "technique": c["technique"],
    })
m = {
    "version": 1,
    "setup_cmd": "/venv/bin/python -m compileall -q sa",
    "hooks": {
        "guard": "VECIPHER_CLEMATIS3_VERIF",
        "enable": "no hooks: every check reads /repo's source text only; nothing in /repo is instrumented",
        "baseline_off_cmd": "cd /repo && /venv/bin/python -m pytest -ra -q -p no:cacheprovider --timeout=900 --continue-on-collection-errors",
        "source_commits": [],
        "add_only": True,
    },
    "engines": [{"name": "sa", "path": "/verif/sa", "serves_properties": [c["property_id"] for c in checks],
                 "kind_free_text": "repository-specific static analysis: Python ast, hand-built statement CFG with exception edges, dominators, reaching definitions / slices / taint, typestate exploration, resolved call graph; nothing from /repo is imported or executed"}],
    "checks": checks,
    "not_applicable": na,
    "notes": "Static analysis only. Every property is claimed clause-wise: level_note lists the clauses left undecided. Exit 2 + ANALYSIS-ERROR = checker cannot decide (anchor vanished / instance floor / self-test), never a violation.",
}
json.dump(m, open(os.path.join(os.path.dirname(__file__), "..", "MANIFEST.json"), "w"), indent=1)
print("checks:", len(checks), "not_applicable:", len(na))
