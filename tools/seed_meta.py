#!/usr/bin/env python3
"""usage: seed_meta.py <seed-id> <PROP> <needs> [<PROP.RULE> ...]   (rules that report it; none = not detected)
Writes /verif/seeded/<seed-id>/meta.json from result.txt + arguments."""
import json, os, sys
sid, prop, needs, *rules = sys.argv[1:]
d = os.path.join(os.path.dirname(os.path.abspath(__file__)), "..", "seeded", sid)
res = {}
for l in open(os.path.join(d, "result.txt")):
    k, _, v = l.partition(":")
    res[k.strip()] = v.strip()
demo = [f for f in os.listdir(d) if f.startswith("demo_")]
why = os.environ.get("WHY_NOT", "")
meta = {
    "seed_id": sid,
    "breaks_property": prop,
    "origin": "fresh sub-agent given only the property text and a scratch worktree of /repo (nothing from /verif)",
    "needs_to_manifest": needs,
    "files": {"patch": "patch.diff", "demo": demo[0] if demo else None, "agent_notes": "NOTES.md" if os.path.exists(os.path.join(d, "NOTES.md")) else None},
    "confirmed": {
        "how": "tools/seed_confirm.sh in the scratch worktree: pytest suite with the change, demo with the change, demo after `git apply -R`; "
               "then `git -C /repo apply patch.diff`, the registered quick check, `git -C /repo checkout -- .`",
        "suite_with_change": res.get("suite_with_change"),
        "demo_with_change_rc": int(res.get("demo_with_change_rc", -1)),
        "demo_without_change_rc": int(res.get("demo_without_change_rc", -1)),
    },
    "detected_by": [{"property": r.split(".")[0], "rule": r} for r in rules],
}
if not rules:
    meta["not_detected_reason"] = why
json.dump(meta, open(os.path.join(d, "meta.json"), "w"), indent=1)
print("wrote", sid, "detected_by", rules)
