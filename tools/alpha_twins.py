#!/venv/bin/python
"""Behaviour-preserving twins at scale: alpha-rename every purely local variable of one function at a time (in memory)
and re-run a property's rules.  A fresh VIOLATION on such a twin is a false alarm (the rule keys on a spelling, not on
behaviour); an ANALYSIS-ERROR is a vanished anchor (fails closed, but brittle).  Used to harden the rules; the hardened
spellings are listed in DESIGN.md.  usage: tools/alpha_twins.py C05 [C06 ...] [--jobs N] [--only substring]"""
from __future__ import annotations

import ast
import importlib
import multiprocessing as mp
import os
import sys

sys.path.insert(0, os.path.dirname(os.path.dirname(os.path.abspath(__file__))))
from sa.model import AnalysisError, Program  # noqa: E402
from sa.report import Ctx, VIOLATION  # noqa: E402

_BASE = None


from sa.alpha import local_names, rename_in_source, structural_variant  # noqa: E402


def _viol(prop, prog):
    ctx = Ctx(prog, prop, "quick")
    importlib.import_module(f"sa.rules.{prop.lower()}").run(ctx)
    return {(r.rule, r.key) for r in ctx.results if r.status == VIOLATION}, ctx


KIND = "rename"


def _one(args):
    prop, qual = args
    if KIND != "rename":
        return _one_structural(prop, qual, KIND)
    global _BASE
    if _BASE is None:
        _BASE = Program()
    base = _BASE
    fn = base.funcs[qual]
    names = local_names(fn.node)
    if not names:
        return (qual, "skip", "")
    text = rename_in_source(fn.module.src, fn.node, names)
    if not text:
        return (qual, "skip", "offset mismatch")
    try:
        ast.parse(text)
    except SyntaxError as e:
        return (qual, "skip", f"syntax {e}")
    try:
        b, _ = _viol(prop, base)
        v, _ = _viol(prop, base.with_override(fn.module.rel, text))
    except AnalysisError as e:
        return (qual, "error", str(e)[:200])
    except Exception as e:  # noqa
        return (qual, "crash", f"{type(e).__name__}: {e}"[:200])
    # keys may embed a renamed spelling: compare after removing the marker
    norm = lambda s: {(r, k.replace("_zq", "")) for r, k in s}
    fresh = sorted(norm(v) - norm(b))
    gone = sorted(norm(b) - norm(v))
    if fresh:
        return (qual, "ALARM", str(fresh[:3]))
    if gone:
        return (qual, "lost", str(gone[:3]))
    return (qual, "ok", f"{len(names)} names")


def _one_structural(prop, qual, kind):
    global _BASE
    if _BASE is None:
        _BASE = Program()
    base = _BASE
    fn = base.funcs[qual]
    text = structural_variant(fn.module.src, fn.node, kind)
    if not text:
        return (qual, "skip", "")
    try:
        b, _ = _viol(prop, base)
        v, _ = _viol(prop, base.with_override(fn.module.rel, text))
    except AnalysisError as e:
        return (qual, "error", str(e)[:200])
    except Exception as e:  # noqa
        return (qual, "crash", f"{type(e).__name__}: {e}"[:200])
    fresh = sorted(v - b)
    gone = sorted(b - v)
    if fresh:
        return (qual, "ALARM", str(fresh[:3]))
    if gone:
        return (qual, "lost", str(gone[:3]))
    return (qual, "ok", "")


def _set_kind(k):
    global KIND
    KIND = k


def main():
    args = [a for a in sys.argv[1:] if not a.startswith("--")]
    jobs = 16
    only = None
    global KIND
    for i, a in enumerate(sys.argv):
        if a == "--kind":
            KIND = sys.argv[i + 1]
        if a == "--jobs":
            jobs = int(sys.argv[i + 1])
        if a == "--only":
            only = sys.argv[i + 1]
    args = [a for a in args if a.startswith("C")]
    base = Program()
    rc = 0
    for prop in args:
        _, ctx = _viol(prop, base)
        quals = sorted(q for q in ctx.analysed_funcs if q in base.funcs and (only is None or only in q))
        with mp.Pool(jobs, initializer=_set_kind, initargs=(KIND,)) as pool:
            res = pool.map(_one, [(prop, q) for q in quals], chunksize=1)
        tally = {}
        for q, st, why in res:
            tally[st] = tally.get(st, 0) + 1
            if st in ("ALARM", "error", "crash", "lost"):
                print(f"{prop} {st:6} {q}: {why}")
                rc = 1
        print(f"{prop} alpha-twins: {tally}")
    return rc


if __name__ == "__main__":
    sys.exit(main())
