#!/bin/bash
# usage: tools/seed_manual.sh <seed-id> <edit.py>  -- re-creates a seeded change by hand on /repo HEAD: scratch worktree, the edit
# script is run inside it (cwd = worktree root), the stored demo must fail with the change and pass without; the diff replaces patch.diff.
SID=$1; ED=$2
WT=/tmp/seed_manual_$$; rm -rf $WT
git -C /repo worktree add -q --detach $WT HEAD || exit 9
( cd $WT && /venv/bin/python $ED ) || { echo "$SID edit failed"; git -C /repo worktree remove --force $WT; exit 1; }
( cd $WT && git diff -- clematis configs > $WT.diff )
DEMO=$(ls /verif/seeded/$SID/demo_*.py | head -1)
( cd $WT && cp $DEMO . && PYTHONPATH=$WT /venv/bin/python $(basename $DEMO) > $WT.with.log 2>&1 ); W=$?
( cd $WT && git apply -R $WT.diff && PYTHONPATH=$WT /venv/bin/python $(basename $DEMO) > $WT.without.log 2>&1 ); WO=$?
git -C /repo worktree remove --force $WT; git -C /repo worktree prune
if [ -s $WT.diff ] && [ $W -ne 0 ] && [ $WO -eq 0 ]; then cp $WT.diff /verif/seeded/$SID/patch.diff; echo "$SID re-created (demo with=$W without=$WO)"; else echo "$SID NOT re-created: demo with=$W without=$WO"; tail -3 $WT.with.log; tail -3 $WT.without.log; fi
rm -f $WT.diff $WT.with.log $WT.without.log
