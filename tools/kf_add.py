#!/usr/bin/env python3
"""usage: kf_add.py known <PROP> <RULE> <key> <what> <repro>      -- append a known finding
          kf_add.py fixed <PROP> <RULE> <key> <commit> <what failed> <repro>   -- append a fixed entry
Edits /verif/known_findings.json (a committed file; checks never write it at run time)."""
import json, os, sys
p = os.path.join(os.path.dirname(os.path.abspath(__file__)), "..", "known_findings.json")
d = json.load(open(p))
kind, prop, rule, key, *rest = sys.argv[1:]
if kind == "known":
    what, repro = rest
    if any(f["key"] == key and f["rule"] == rule for f in d["findings"]):
        sys.exit("already listed")
    d["findings"].append({"property": prop, "rule": rule, "key": key, "what": what, "repro": repro})
else:
    commit, what, repro = rest
    d["fixed"].append({"property": prop, "commit": commit, "rule": rule, "key": key, "line": f"fixed: property={prop} {commit} {what}", "repro": repro})
json.dump(d, open(p, "w"), indent=1)
print(kind, prop, rule, key)
