#!/bin/bash
# usage: tools/store_repro.sh <observe-script> <repro-name>  -- keeps a sub-agent's observation script under /verif/repro/ verbatim.
# Run stored scripts as:  cd /repo && PYTHONPATH=/repo /venv/bin/python /verif/repro/<name>   (exit 1 = defect shows, 0 = absent)
cp "$1" "/verif/repro/$2" && echo "stored /verif/repro/$2"
