#!/bin/bash
# usage: tools/benign_check.sh <worktree> [base-rev]  -- runs all 20 quick checks (no evidence written) against every commit
# of a scratch worktree that holds behaviour-preserving refactors (base-rev..HEAD), via VERIF_REPO. Any VIOLATION or
# ANALYSIS-ERROR line is a false alarm of the checker to be triaged. The worktree is left at its original HEAD.
WT=$1; BASE=${2:-$(git -C /repo rev-parse HEAD)}
cd /verif
HEADREV=$(git -C $WT rev-parse HEAD)
for c in $(git -C $WT rev-list --reverse $BASE..$HEADREV); do
  git -C $WT checkout -q $c -- clematis configs 2>/dev/null
  echo "== $(basename $WT) $(git -C $WT log -1 --format='%h %s' $c | cut -c1-100)"
  for i in $(seq -w 1 20); do
    ( VERIF_REPO=$WT /venv/bin/python -m sa.check C$i --tier quick --no-evidence > /tmp/bn_$$_C$i.log 2>&1; rc=$?
      [ $rc -ne 0 ] && { echo "   C$i rc=$rc"; grep -A1 -m3 '^  C[0-9][0-9]\.\|ANALYSIS-ERROR' /tmp/bn_$$_C$i.log | cut -c1-400; } ; rm -f /tmp/bn_$$_C$i.log ) &
  done; wait
done
git -C $WT checkout -q $HEADREV -- clematis configs
