#!/bin/bash
# usage: tools/seed_batch.sh <worktree-root> "<PROP> <seed-id>" ...   -- seed_confirm for several worktrees, compact output
ROOT=$1; shift
for x in "$@"; do
  set -- $x
  echo "=== $1 $2"
  /verif/tools/seed_confirm.sh $ROOT/$1 $1 $2 2>&1 | grep -v "^KNOWN\|conda" | grep -A60 "suite with change" | grep "passed\|failed\|rc=\|^VIOLATION property\|^\[C\|  C[0-9][0-9]\.\|ERROR" | cut -c1-260
done
