"""usage: prefix_check.py PROP COMMIT rel [rel...]  -- run PROP's rules with the listed files taken from COMMIT~1"""
import sys, subprocess, importlib
sys.path.insert(0,'/verif')
from sa.model import Program
from sa.report import Ctx, VIOLATION
prop, commit, *rels = sys.argv[1:]
prog = Program()
base = Ctx(prog, prop, "quick"); importlib.import_module(f"sa.rules.{prop.lower()}").run(base)
b = {(r.rule, r.key) for r in base.results if r.status == VIOLATION}
p2 = prog
for rel in rels:
    src = subprocess.run(["git","-C","/repo","show",f"{commit}~1:{rel}"],capture_output=True,text=True).stdout
    p2 = p2.with_override(rel, src)
c = Ctx(p2, prop, "quick")
try:
    importlib.import_module(f"sa.rules.{prop.lower()}").run(c)
except Exception as e:
    print("ERR", type(e).__name__, e)
for r in c.results:
    if r.status == VIOLATION and (r.rule, r.key) not in b:
        print("PRE-FIX VIOLATION", r.rule, r.key, "|", r.msg[:140])
